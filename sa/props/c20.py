"""C20 - the windowed buffered reader is a slice of the file (window discipline).

R20.1  every absolute position handed to the underlying reader is translated by
       the window offset; every tell() of the underlying reader that feeds a
       window-relative quantity is translated back.
R20.2  every byte string returned by peek/read/readall is window-bounded when
       the window size is known (must-facts + accepted idioms).
R20.3  seek clamps: at every exit 0 <= pos, and pos <= size when size is known
       (zone domain); read advances pos by exactly the length it returns.
R20.4  cache: eviction removes an entry and decrements the counter together;
       insertion increments it; bucket keys are multiples of buffersize.
R20.5  construction sites that window a stored segment pass offset and size of
       the same segment object.
"""
from __future__ import annotations

import ast

from ..absint import AVal, Zone, ZoneDomain, ZERO, proves_le
from ..core import (AnalysisError, Report, call_name, dotted, enclosing_function, subst_locals,
                    find_class, find_func, need, norm, short, ancestors, parent)
from ..flow import Disjunctive, Flow, MustFacts, each, each_exit

BR = 'dashlive/utils/buffered_reader.py'


def lin(e: ast.AST, opaque: bool = False) -> dict[str, int] | None:
    """linear normal form over names and dotted attributes; with `opaque`, any other subterm
    (a product, a remainder, a call) is an atom named by its text"""
    if isinstance(e, ast.Constant) and isinstance(e.value, int) and not isinstance(e.value, bool):
        return {'': e.value} if e.value else {}
    d = dotted(e)
    if d is not None:
        return {d: 1}
    if isinstance(e, ast.BinOp) and isinstance(e.op, (ast.Add, ast.Sub)):
        a, b = lin(e.left, opaque), lin(e.right, opaque)
        if a is None or b is None:
            return None
        out = dict(a)
        sg = 1 if isinstance(e.op, ast.Add) else -1
        for k, v in b.items():
            out[k] = out.get(k, 0) + sg * v
        return {k: v for k, v in out.items() if v}
    if opaque and not any(isinstance(x, (ast.Await, ast.NamedExpr, ast.Lambda)) for x in ast.walk(e)):
        return {f'`{norm(e)}`': 1}
    return None


EMPTY = ("r''", "b''", "''", '""', 'b""', "bytes()", "bytearray()", "bytearray(b'')")
REMAINING = {'self.size': 1, 'self.pos': -1}


_PREP: dict[int, ast.FunctionDef] = {}


def _prep(fn: ast.FunctionDef | None) -> ast.FunctionDef | None:
    """the method with locals that only rename an attribute (`buffersize = self.buffersize`) or label a
    value for the next line written out"""
    if fn is None:
        return None
    if id(fn) not in _PREP:
        from ..normalise import propagate_attr_aliases, propagate_single_use, set_parents
        new = set_parents(propagate_single_use(propagate_attr_aliases(fn)))
        new._parent = getattr(fn, '_parent', None)
        _PREP[id(fn)] = new
        _PREP[id(new)] = new
    return _PREP[id(fn)]


def methods(rep: Report, cls: ast.ClassDef) -> list[ast.FunctionDef]:
    """the methods of the class in normal form; helpers inlined into their callers are not listed"""
    return [_prep(f) for c, f in rep.repo.expanded_functions(BR) if c is cls]


def r20_1(rep: Report, cls: ast.ClassDef) -> None:
    rid = 'R20.1'
    for fn in methods(rep, cls):
        construct = f'{BR}::BufferedReader.{fn.name}'
        for n in ast.walk(fn):
            if not isinstance(n, ast.Call):
                continue
            cn = call_name(n)
            if cn == 'self.reader.seek':
                whence = None
                if len(n.args) > 1:
                    whence = norm(n.args[1])
                for kw in n.keywords:
                    if kw.arg == 'whence':
                        whence = norm(kw.value)
                key = f'seek({norm(n.args[0])})' if n.args else 'seek()'
                if whence is not None and whence.endswith('SEEK_END'):
                    rep.ok(rid, construct, key, 'relative to end of file: no translation applies')
                    continue
                if whence is not None and not whence.endswith('SEEK_SET') and whence != '0':
                    rep.fail(rid, construct, key, f'unsupported whence {whence}', n)
                    continue
                l = lin(subst_locals(fn, n.args[0]), opaque=True) if n.args else None
                if l is not None and l.get('self.offset') == 1:
                    rep.ok(rid, construct, key)
                else:
                    rep.fail(rid, construct, key,
                             'absolute seek of the underlying reader without adding the window '
                             'offset (reads the wrong part of the file when offset != 0)', n)
            elif cn == 'self.reader.tell':
                p = parent(n)
                key = f'tell in `{short(p, 60)}`'

                def translated(node, par) -> bool:
                    if isinstance(par, ast.BinOp) and isinstance(par.op, ast.Sub) and par.left is node:
                        l = lin(subst_locals(fn, par.right), opaque=True)
                        return l is not None and l.get('self.offset') == 1
                    if isinstance(par, ast.Compare) and len(par.ops) == 1:
                        other = par.comparators[0] if par.left is node else par.left
                        l = lin(subst_locals(fn, other), opaque=True)
                        return l is not None and l.get('self.offset') == 1
                    return False
                ok = translated(n, p)
                if not ok and isinstance(p, ast.Assign) and len(p.targets) == 1 and isinstance(p.targets[0], ast.Name) \
                        and p.value is n:
                    # current = self.reader.tell(): every read of the local is judged like the call itself
                    v = p.targets[0].id
                    n_def = sum(1 for x in ast.walk(fn) if isinstance(x, ast.Name) and x.id == v
                                and isinstance(x.ctx, ast.Store))
                    reads = [x for x in ast.walk(fn) if isinstance(x, ast.Name) and x.id == v
                             and isinstance(x.ctx, ast.Load)]
                    ok = n_def == 1 and bool(reads) and all(translated(x, parent(x)) for x in reads)
                if ok:
                    rep.ok(rid, construct, key)
                else:
                    rep.fail(rid, construct, key,
                             'position of the underlying reader used without translating by the '
                             'window offset', n)


def _returns(fn: ast.FunctionDef) -> list[ast.Return]:
    return [n for n in ast.walk(fn) if isinstance(n, ast.Return)]


def _linear_stmts(body: list[ast.stmt]) -> list[ast.stmt]:
    """the statements executed on every iteration, in order (top level of the loop body)"""
    return list(body)


def _fmt_lin(f: dict | None) -> str:
    if f is None:
        return '?'
    parts = []
    for k, v in sorted(f.items()):
        name = k if k else '1'
        if k.startswith('#min'):
            name = 'min(..)'
        parts.append((f'{"-" if v < 0 else "+"} ' + (f'{abs(v)}*' if abs(v) != 1 and k else '') +
                      (name if k else str(abs(v)))))
    return ' '.join(parts).lstrip('+ ') or '0'


def r20_2(rep: Report, cls: ast.ClassDef) -> None:
    """must-facts:  win(v)   v <= size - pos_at_entry   (size known)
                    posorig  self.pos not yet modified
                    sizenone self.size is None on this path"""
    rid = 'R20.2'
    for name in ('peek', 'read', 'readall'):
        fn = need(_prep(find_func(cls, name)), f'{BR}::BufferedReader.{name}')
        construct = f'{BR}::BufferedReader.{name}'

        def gen(st: ast.stmt, _fn=fn):
            out = []
            if isinstance(st, ast.Assign) and len(st.targets) == 1 \
                    and isinstance(st.targets[0], ast.Name) and isinstance(st.value, ast.Call) \
                    and call_name(st.value) == 'min':
                for a in st.value.args:
                    if lin(a) == REMAINING:
                        out.append(('win?', st.targets[0].id))
            # remaining = self.size - self.pos: the bound itself
            if isinstance(st, (ast.Assign, ast.AnnAssign)) and getattr(st, 'value', None) is not None:
                tg = st.targets[0] if isinstance(st, ast.Assign) and len(st.targets) == 1 else getattr(st, 'target', None)
                if isinstance(tg, ast.Name) and lin(st.value) == REMAINING:
                    out.append(('win?', tg.id))
                    out.append(('rem?', tg.id))
            return out

        class Dom(MustFacts):
            def transfer(self, st, s):
                s = set(s)
                # kills
                tgts = []
                if isinstance(st, ast.Assign):
                    tgts = st.targets
                elif isinstance(st, (ast.AugAssign, ast.AnnAssign)):
                    tgts = [st.target]
                for t in tgts:
                    d = dotted(t)
                    if d == 'self.pos':
                        s.discard('posorig')
                    if d == 'self.size':
                        s.discard('sizenone')
                        s = {f for f in s if not (isinstance(f, tuple) and f[0] == 'win')}
                    if isinstance(t, ast.Name):
                        s = {f for f in s if not (isinstance(f, tuple) and f[1] == t.id)}
                # calls that may move pos: self.seek / self.read
                for c in ast.walk(st):
                    if isinstance(c, ast.Call) and call_name(c) in ('self.seek', 'self.read',
                                                                    'self.readall'):
                        s.discard('posorig')
                for f in gen(st):
                    if 'posorig' in s:
                        s.add((f[0].rstrip('?'), f[1]))
                # a copy of a win value is win
                if isinstance(st, ast.Assign) and len(st.targets) == 1 \
                        and isinstance(st.targets[0], ast.Name) and isinstance(st.value, ast.Name) \
                        and ('win', st.value.id) in s:
                    s.add(('win', st.targets[0].id))
                return frozenset(s)

            def assume(self, test, s, truth):
                t = norm(test)
                if t == 'self.size is None':
                    return s | {'sizenone'} if truth else s - {'sizenone'}
                if t == 'self.size is not None':
                    return s - {'sizenone'} if truth else s | {'sizenone'}
                # if remaining < n: n = remaining  - on the other branch n <= remaining already
                if isinstance(test, ast.Compare) and len(test.ops) == 1 and isinstance(test.left, ast.Name) \
                        and isinstance(test.comparators[0], ast.Name):
                    a, b, op = test.left.id, test.comparators[0].id, type(test.ops[0])
                    le = None               # (x, y): x <= y is known on this branch
                    if op in (ast.Lt, ast.Gt):
                        le = None if truth else ((b, a) if op is ast.Lt else (a, b))
                    elif op in (ast.LtE, ast.GtE):
                        le = ((a, b) if op is ast.LtE else (b, a)) if truth else None
                    if truth and op is ast.Lt:
                        le = (a, b)
                    if truth and op is ast.Gt:
                        le = (b, a)
                    if le is not None and (('rem', le[1]) in s or ('win', le[1]) in s):
                        return s | {('win', le[0])}
                return s

        def cursor_loop_ok(loop: ast.While, w: ast.AST, chunk_e: ast.AST, cur: str, stop: str, facts) -> tuple[bool, str]:
            """`while cur < stop:` .. chunk = X[lo:hi] with hi - lo == nxt - cur, nxt = min(stop, ..),
            `cur = nxt`: the chunk lengths telescope to at most stop - cur0, and stop = cur0 + total with
            the total clamped to size - pos."""
            stores = [n for n in ast.walk(loop) if isinstance(n, ast.Name) and isinstance(n.ctx, (ast.Store, ast.Del))]
            if any(n.id == stop for n in stores):
                return False, f'`{stop}` is changed inside the chunk loop'
            env: dict[str, dict] = {}
            min_of: dict[str, list[dict]] = {}
            length = None
            advanced = None
            for stmt in loop.body:
                if length is None and any(x is w for x in ast.walk(stmt)):
                    sl = next((c.slice for c in ast.walk(chunk_e) if isinstance(c, ast.Subscript)
                               and isinstance(c.slice, ast.Slice)), None)
                    if sl is None:
                        return False, f'`{short(w)}` does not write a slice'
                    if sl.upper is None:
                        return False, (f'`{short(w)}` writes an open-ended slice of the cached bucket: bytes beyond the '
                                       'requested count (and beyond the window end) are returned')

                    def ev(e):
                        if isinstance(e, ast.Name) and e.id in env:
                            return dict(env[e.id])
                        if isinstance(e, ast.BinOp) and isinstance(e.op, (ast.Add, ast.Sub)):
                            x, y = ev(e.left), ev(e.right)
                            if x is None or y is None:
                                return None
                            out = dict(x)
                            for k_, v_ in y.items():
                                out[k_] = out.get(k_, 0) + (v_ if isinstance(e.op, ast.Add) else -v_)
                            return {k_: v_ for k_, v_ in out.items() if v_}
                        return lin(e, opaque=True)
                    lo = ev(sl.lower) if sl.lower is not None else {}
                    up = ev(sl.upper)
                    if lo is None or up is None:
                        return False, f'cannot normalise slice bounds of `{short(w)}`'
                    length = dict(up)
                    for k_, v_ in lo.items():
                        length[k_] = length.get(k_, 0) - v_
                    length = {k_: v_ for k_, v_ in length.items() if v_}
                    continue
                if isinstance(stmt, ast.Assign) and len(stmt.targets) == 1 and isinstance(stmt.targets[0], ast.Name):
                    tg = stmt.targets[0].id
                    if tg == cur:
                        if advanced is not None or length is None or not isinstance(stmt.value, ast.Name):
                            return False, f'`{cur}` is changed by `{norm(stmt)}`'
                        advanced = stmt.value.id
                        continue
                    if isinstance(stmt.value, ast.Call) and call_name(stmt.value) == 'min' and not stmt.value.keywords:
                        min_of[tg] = [lin(a, opaque=True) for a in stmt.value.args]
                    else:
                        min_of.pop(tg, None)
                    env.pop(tg, None)
                elif any(isinstance(n, ast.Name) and isinstance(n.ctx, ast.Store) and n.id == cur for n in ast.walk(stmt)):
                    return False, f'`{cur}` is changed by `{short(stmt)}`'
            if length is None:
                return False, f'`{short(w)}` is not on the straight line of the chunk loop'
            if advanced is None:
                return False, f'the chunk loop never advances `{cur}`'
            if length != {advanced: 1, cur: -1}:
                return False, (f'chunk `{_fmt_lin(length)}` is not `{advanced} - {cur}`: the bytes written do not match '
                               f'the advance of `{cur}`')
            if sum(1 for n in stores if n.id == advanced) != 1:
                return False, f'`{advanced}` is assigned more than once inside the chunk loop'
            if {stop: 1} not in [f_ for f_ in min_of.get(advanced, []) if f_ is not None]:
                return False, (f'`{advanced}` is not min({stop}, ..): a chunk can run past what is left of the '
                               'requested count')
            inits_c = [n for n in ast.walk(fn) if isinstance(n, ast.Assign) and isinstance(n.targets[0], ast.Name)
                       and n.targets[0].id == cur and not any(x is n for x in ast.walk(loop))]
            inits_s = [n for n in ast.walk(fn) if isinstance(n, ast.Assign) and isinstance(n.targets[0], ast.Name)
                       and n.targets[0].id == stop]
            if len(inits_c) != 1 or len(inits_s) != 1:
                return False, f'`{cur}` / `{stop}` are not initialised once before the chunk loop'
            c0 = lin(inits_c[0].value, opaque=True)
            s0 = lin(subst_locals(fn, inits_s[0].value) if norm(inits_s[0].value).find(cur) < 0 else inits_s[0].value,
                     opaque=True)
            if s0 is not None and cur in s0 and c0 is not None:
                k = s0.pop(cur)
                for k_, v_ in c0.items():
                    s0[k_] = s0.get(k_, 0) + k * v_
            if c0 is None or s0 is None:
                return False, f'cannot normalise the start of `{cur}` / `{stop}`'
            total = dict(s0)
            for k_, v_ in c0.items():
                total[k_] = total.get(k_, 0) - v_
            total = {k_: v_ for k_, v_ in total.items() if v_}
            if len(total) != 1 or list(total.values()) != [1]:
                return False, f'`{stop} - {cur}` at loop entry is `{_fmt_lin(total)}`, not one requested count'
            tname = next(iter(total))
            if ('win', tname) not in facts and 'sizenone' not in facts:
                return False, f'total `{tname}` is not clamped to size - pos when the size is known'
            return True, ''

        def bucket_loop_ok(loop: ast.While, w: ast.AST, chunk_e: ast.AST, cur: str, stop: str, facts) -> tuple[bool, str]:
            """`while cur < stop:` with `cur += STEP` once per iteration and the chunk `X[lo:hi]`, lo = max(P - cur, 0),
            hi = min(stop - cur, STEP): in file terms every chunk is [max(P, cur), min(stop, cur + STEP)) - pieces of
            [P, stop) that do not overlap from one bucket to the next - so the assembled length is at most stop - P,
            which must be one requested count clamped to size - pos."""
            top = loop.body
            steps = [st for st in ast.walk(loop) if isinstance(st, (ast.AugAssign, ast.Assign))
                     and any(isinstance(t_, ast.Name) and t_.id == cur
                             for t_ in ([st.target] if isinstance(st, ast.AugAssign) else st.targets))]
            if len(steps) != 1 or not isinstance(steps[0], ast.AugAssign) or not isinstance(steps[0].op, ast.Add) \
                    or steps[0] not in top:
                return False, f'`{cur}` is not advanced by one `{cur} += <bucket size>` per iteration'
            step = norm(steps[0].value)
            stored = {n.id for n in ast.walk(loop) if isinstance(n, ast.Name) and isinstance(n.ctx, (ast.Store, ast.Del))}
            if stop in stored or any(isinstance(n, ast.Name) and n.id in stored for n in ast.walk(steps[0].value)):
                return False, f'`{stop}` or the bucket size changes inside the chunk loop'
            sl = next((c.slice for c in ast.walk(chunk_e) if isinstance(c, ast.Subscript) and isinstance(c.slice, ast.Slice)), None)
            if sl is None or sl.lower is None or sl.upper is None or sl.step is not None:
                return False, f'`{short(w)}` does not write a closed slice'

            def local_def(e: ast.AST) -> ast.AST:
                if isinstance(e, ast.Name):
                    ds = [a_.value for a_ in top if isinstance(a_, ast.Assign) and len(a_.targets) == 1
                          and isinstance(a_.targets[0], ast.Name) and a_.targets[0].id == e.id]
                    if len(ds) == 1:
                        return ds[0]
                return e
            lo, hi = local_def(sl.lower), local_def(sl.upper)

            def two_args(e: ast.AST, fname: str):
                if isinstance(e, ast.Call) and call_name(e) == fname and len(e.args) == 2 and not e.keywords:
                    return e.args
                return None
            la, ha = two_args(lo, 'max'), two_args(hi, 'min')
            if la is None or ha is None:
                return False, f'slice bounds of `{short(w)}` are not max(<start> - {cur}, 0) / min({stop} - {cur}, <bucket size>)'
            zero = [a_ for a_ in la if isinstance(a_, ast.Constant) and a_.value == 0]
            rel = [a_ for a_ in la if isinstance(a_, ast.BinOp) and isinstance(a_.op, ast.Sub) and norm(a_.right) == cur]
            if len(zero) != 1 or len(rel) != 1:
                return False, f'lower bound `{norm(lo)}` is not max(<start> - {cur}, 0)'
            start_txt = norm(rel[0].left)
            ok_hi = {norm(a_) for a_ in ha} == {f'{stop} - {cur}', step}
            if not ok_hi:
                return False, f'upper bound `{norm(hi)}` is not min({stop} - {cur}, {step})'
            inits_s = [n for n in ast.walk(fn) if isinstance(n, ast.Assign) and isinstance(n.targets[0], ast.Name)
                       and n.targets[0].id == stop and not any(x is n for x in ast.walk(loop))]
            if len(inits_s) != 1:
                return False, f'`{stop}` is not initialised once before the chunk loop'
            s0 = lin(inits_s[0].value, opaque=True)
            p0 = lin(ast.parse(start_txt, mode='eval').body, opaque=True)
            if s0 is None or p0 is None:
                return False, f'cannot normalise `{stop}` / `{start_txt}`'
            total = dict(s0)
            for k_, v_ in p0.items():
                total[k_] = total.get(k_, 0) - v_
            total = {k_: v_ for k_, v_ in total.items() if v_}
            if len(total) != 1 or list(total.values()) != [1]:
                return False, f'`{stop} - {start_txt}` at loop entry is `{_fmt_lin(total)}`, not one requested count'
            tname = next(iter(total))
            if ('win', tname) not in facts and 'sizenone' not in facts:
                return False, f'total `{tname}` is not clamped to size - pos when the size is known'
            return True, ''

        # which local names hold "assembled" data, and how they were assembled
        def assembled_ok(ret: ast.AST, facts) -> tuple[bool, str]:
            """the returned bytes are assembled from chunks - `buf.write(c)` .. `buf.getvalue()`,
            `chunks.append(c)` .. `b''.join(chunks)`, `data += c` .. `data` - in a loop
            `while counter:` where every chunk is a slice of length L, the counter drops by D = L per
            chunk, D <= counter (D or the slice's upper bound is min(.. counter ..)), and the counter
            starts as a total clamped to size - pos: the assembled length is at most that total."""
            acc = None                  # name of the accumulator object
            adders: list[tuple[ast.AST, ast.AST]] = []     # (statement/call node, chunk expression)
            src = ret
            # statements before the return in its own block (for names that are reused)
            rblock = None
            for n_ in ast.walk(fn):
                for fld in ('body', 'orelse', 'finalbody'):
                    b_ = getattr(n_, fld, None)
                    if isinstance(b_, list) and any(isinstance(x, ast.Return) and x.value is ret for x in b_):
                        i_ = [j for j, x in enumerate(b_) if isinstance(x, ast.Return) and x.value is ret][0]
                        rblock = b_[:i_]
            if isinstance(src, ast.Call) and isinstance(src.func, ast.Name) and src.func.id in ('bytes', 'bytearray') \
                    and len(src.args) == 1 and not src.keywords and isinstance(src.args[0], ast.Name):
                src = src.args[0]           # bytes(data): the same length
            if isinstance(src, ast.Name):
                defs = [n for n in ast.walk(fn) if isinstance(n, ast.Assign)
                        and isinstance(n.targets[0], ast.Name) and n.targets[0].id == src.id]
                augs = [n for n in ast.walk(fn) if isinstance(n, ast.AugAssign)
                        and isinstance(n.target, ast.Name) and n.target.id == src.id and isinstance(n.op, ast.Add)]
                if augs and all(norm(d.value) in EMPTY or (isinstance(d.value, ast.Constant) and d.value.value in ('', b''))
                                for d in defs):
                    acc = src.id
                    adders = [(g, g.value) for g in augs]
                elif len(defs) == 1:
                    src = defs[0].value
                elif rblock is not None and [d for d in defs if any(d is x for x in rblock)]:
                    # the name is used for something else earlier: what reaches the return is the last
                    # assignment in the block of the return itself
                    src = [d for d in defs if any(d is x for x in rblock)][-1].value
                else:
                    return False, f'`{src.id}` is not a single buf.getvalue()'
            if acc is None:
                if isinstance(src, ast.Call) and isinstance(src.func, ast.Attribute) \
                        and src.func.attr == 'getvalue' and isinstance(src.func.value, ast.Name):
                    acc = src.func.value.id
                    adders = [(n, n.args[0]) for n in ast.walk(fn) if isinstance(n, ast.Call)
                              and call_name(n) == f'{acc}.write' and n.args]
                elif isinstance(src, ast.Call) and isinstance(src.func, ast.Attribute) and src.func.attr == 'join' \
                        and norm(src.func.value) in EMPTY and len(src.args) == 1 and isinstance(src.args[0], ast.Name):
                    acc = src.args[0].id
                    adders = [(n, n.args[0]) for n in ast.walk(fn) if isinstance(n, ast.Call)
                              and call_name(n) == f'{acc}.append' and n.args]
                    other = [n for n in ast.walk(fn) if isinstance(n, ast.Call) and isinstance(n.func, ast.Attribute)
                             and norm(n.func.value) == acc and n.func.attr in ('extend', 'insert')]
                    if other:
                        return False, f'`{acc}` is also filled by `{short(other[0])}`'
                else:
                    return False, f'`{norm(ret)}` is not a single buf.getvalue()'
            if not adders:
                return False, 'no writes'
            for w, chunk_e in adders:
                loop = None
                for a_ in ancestors(w):
                    if isinstance(a_, ast.While):
                        loop = a_
                        break
                if loop is None:
                    return False, 'write outside the chunk loop'
                t = loop.test
                if isinstance(t, ast.Compare) and len(t.ops) == 1 and isinstance(t.ops[0], ast.Lt) \
                        and isinstance(t.left, ast.Name) and isinstance(t.comparators[0], ast.Name):
                    ok_c, why_c = cursor_loop_ok(loop, w, chunk_e, t.left.id, t.comparators[0].id, facts)
                    if not ok_c:
                        ok_b, _why_b = bucket_loop_ok(loop, w, chunk_e, t.left.id, t.comparators[0].id, facts)
                        if not ok_b:
                            return False, why_c
                    continue
                if isinstance(t, ast.Compare) and len(t.ops) == 1 and isinstance(t.ops[0], ast.Gt) \
                        and isinstance(t.comparators[0], ast.Constant) and t.comparators[0].value == 0:
                    t = t.left
                if not isinstance(t, ast.Name):
                    return False, f'chunk loop `while {norm(loop.test)}` does not count a total down'
                counter = t.id
                # per-iteration locals as linear forms; min(..) is a symbol with its arguments as upper bounds
                env: dict[str, dict] = {}
                mins: dict[str, list[dict]] = {}

                def ev(e: ast.AST):
                    if isinstance(e, ast.Name) and e.id in env:
                        return dict(env[e.id])
                    if isinstance(e, ast.Call) and call_name(e) == 'min' and e.args and not e.keywords:
                        forms = [ev(x) for x in e.args]
                        if any(f_ is None for f_ in forms):
                            return None
                        sym = f'#min{len(mins)}'
                        mins[sym] = forms
                        return {sym: 1}
                    if isinstance(e, ast.BinOp) and isinstance(e.op, (ast.Add, ast.Sub)):
                        x, y = ev(e.left), ev(e.right)
                        if x is None or y is None:
                            return None
                        out = dict(x)
                        sg = 1 if isinstance(e.op, ast.Add) else -1
                        for k_, v_ in y.items():
                            out[k_] = out.get(k_, 0) + sg * v_
                        return {k_: v_ for k_, v_ in out.items() if v_}
                    return lin(e)
                sl = None
                dec = None
                for stmt in _linear_stmts(loop.body):
                    if sl is None and any(x is w for x in ast.walk(stmt)):
                        for c in ast.walk(chunk_e):
                            if isinstance(c, ast.Subscript) and isinstance(c.slice, ast.Slice):
                                sl = c.slice
                                break
                        if sl is None:
                            return False, f'`{short(w)}` does not write a slice'
                        if sl.upper is None:
                            return False, (f'`{short(w)}` writes an open-ended slice of the cached bucket: '
                                           'bytes beyond the requested count (and beyond the window end) '
                                           'are returned')
                        lo = ev(sl.lower) if sl.lower is not None else {}
                        up = ev(sl.upper)
                        if lo is None or up is None:
                            return False, f'cannot normalise slice bounds of `{short(w)}`'
                        length = dict(up)
                        for k_, v_ in lo.items():
                            length[k_] = length.get(k_, 0) - v_
                        length = {k_: v_ for k_, v_ in length.items() if v_}
                    if isinstance(stmt, ast.AugAssign) and isinstance(stmt.target, ast.Name) \
                            and stmt.target.id == counter:
                        if not isinstance(stmt.op, ast.Sub) or dec is not None:
                            return False, f'`{counter}` is changed by `{norm(stmt)}`'
                        dec = ev(stmt.value)
                    elif isinstance(stmt, ast.Assign) and len(stmt.targets) == 1:
                        tg = stmt.targets[0]
                        if isinstance(tg, ast.Name):
                            if tg.id == counter:
                                return False, f'`{counter}` is reassigned inside the chunk loop'
                            val = ev(stmt.value)
                            if val is not None:
                                env[tg.id] = val
                            else:
                                env.pop(tg.id, None)
                        elif isinstance(tg, (ast.Tuple, ast.List)) and isinstance(stmt.value, (ast.Tuple, ast.List)) \
                                and len(tg.elts) == len(stmt.value.elts):
                            vals = [ev(x) for x in stmt.value.elts]
                            for te, val in zip(tg.elts, vals):
                                if isinstance(te, ast.Name):
                                    if val is not None:
                                        env[te.id] = val
                                    else:
                                        env.pop(te.id, None)
                    elif isinstance(stmt, ast.AugAssign) and isinstance(stmt.target, ast.Name):
                        env.pop(stmt.target.id, None)
                if sl is None:
                    return False, f'`{short(w)}` is not on the straight line of the chunk loop'
                if dec is None:
                    return False, f'the chunk loop never counts `{counter}` down'
                if dec != length:
                    return False, (f'chunk `{_fmt_lin(length)}` is not min({counter}, ..) with '
                                   f'`{counter} -= {_fmt_lin(length)}` (the loop counts down by {_fmt_lin(dec)})')
                # D <= counter: D = M + r with M = min(.. a ..) and a + r == counter
                bounded = False
                for sym, forms in mins.items():
                    if dec.get(sym) != 1:
                        continue
                    r_ = {k_: v_ for k_, v_ in dec.items() if k_ != sym}
                    for f_ in forms:
                        tot = dict(f_)
                        for k_, v_ in r_.items():
                            tot[k_] = tot.get(k_, 0) + v_
                        tot = {k_: v_ for k_, v_ in tot.items() if v_}
                        if tot == {counter: 1}:
                            bounded = True
                if not bounded:
                    return False, (f'chunk `{_fmt_lin(length)}` is not min({counter}, ..) with '
                                   f'`{counter} -= {_fmt_lin(length)}`: a chunk can be longer than what is left '
                                   'of the requested count')
                # counter initialised from a win value
                inits = [n for n in ast.walk(fn) if isinstance(n, ast.Assign)
                         and isinstance(n.targets[0], ast.Name) and n.targets[0].id == counter
                         and not any(x is n for x in ast.walk(loop))]
                if len(inits) != 1 or not isinstance(inits[0].value, ast.Name):
                    return False, f'counter `{counter}` not initialised from a name'
                if ('win', inits[0].value.id) not in facts and 'sizenone' not in facts:
                    return False, (f'total `{inits[0].value.id}` is not clamped to '
                                   'size - pos when the size is known')
            return True, ''

        results: list[tuple[ast.Return, frozenset]] = []

        def on_exit(kind, st, s):
            if kind == 'return':
                results.append((st, s))

        Flow(Disjunctive(Dom(lambda st: [])), on_exit=each_exit(on_exit)).run(
            fn, [frozenset({'posorig'})])
        if not results:
            raise AnalysisError(f'{construct}: no return reached')
        for st, facts in results:
            v = st.value
            key = f'return {short(v, 50) if v is not None else "None"}'
            if 'sizenone' in facts:
                rep.ok(rid, construct, key + ' [size unknown]',
                       'window has no known end on this path')
                continue
            ok, why = False, 'unrecognised way of producing the returned bytes'
            if v is None:
                ok, why = False, 'returns None'
            elif norm(v) in EMPTY or (isinstance(v, ast.Constant) and v.value in ('', b'')):
                ok = True
            elif isinstance(v, ast.Call) and call_name(v) == 'self.readall' and name != 'readall':
                ok = True
            elif isinstance(v, ast.Call) and call_name(v) in ('self.read', 'self.peek') and v.args:
                # the callee's own returns are bounded (decided here for read, peek and readall alike):
                # what it hands back lies inside the window whatever count it was given
                ok = True
            elif isinstance(v, ast.Subscript) and isinstance(v.slice, ast.Slice) \
                    and v.slice.lower is None and isinstance(v.slice.upper, ast.Name):
                if ('win', v.slice.upper.id) in facts:
                    ok = True
                else:
                    why = f'slice bound `{v.slice.upper.id}` is not clamped to size - pos'
            elif isinstance(v, ast.Name) or (isinstance(v, ast.Call) and isinstance(v.func, ast.Attribute)
                                             and v.func.attr in ('getvalue', 'join')) or \
                    (isinstance(v, ast.Call) and isinstance(v.func, ast.Name) and v.func.id in ('bytes', 'bytearray')
                     and len(v.args) == 1 and isinstance(v.args[0], ast.Name)):
                ok, why = assembled_ok(v, facts)
                if not ok and 'not a single buf.getvalue' in why:
                    # e.g. rv = self.reader.read()
                    defs = [n for n in ast.walk(fn) if isinstance(n, ast.Assign)
                            and norm(n.targets[0]) == norm(v)]
                    if len(defs) == 1 and isinstance(defs[0].value, ast.Call) \
                            and call_name(defs[0].value) == 'self.reader.read':
                        args = defs[0].value.args
                        if not args:
                            why = ('returns everything the underlying reader has, ignoring the '
                                   'window end although the size is known')
                        elif (isinstance(args[0], ast.Name) and ('win', args[0].id) in facts) \
                                or lin(args[0]) == REMAINING:
                            ok = True
            if ok:
                rep.ok(rid, construct, key)
            else:
                rep.fail(rid, construct, key, why, st)


def r20_9(rep: Report, cls: ast.ClassDef) -> None:
    """R20.9  what read / readall / peek hand back is a byte string on every path, also when nothing is left: an
    in-memory byte stream returns b'' at its end.  A text literal (`''`, `r''`) compares unequal to b'' and cannot
    be concatenated with the bytes read before (TypeError in a caller that accumulates reads)."""
    rid = 'R20.9'
    n = 0
    for name in ('read', 'readall', 'peek'):
        m = find_func(cls, name)
        if m is None:
            continue
        fn = find_func(cls, name, raw=True) or m
        construct = f'{BR}::BufferedReader.{name}'
        for r_ in [x for x in ast.walk(fn) if isinstance(x, ast.Return) and x.value is not None]:
            v = r_.value
            if isinstance(v, ast.Constant):
                n += 1
                if isinstance(v.value, bytes):
                    rep.ok(rid, construct, f'return {norm(v)}')
                else:
                    rep.fail(rid, construct, f'return {norm(v)}',
                             f'`{name}` returns the {type(v.value).__name__} literal `{norm(v)}` where nothing is left to read: an '
                             "in-memory byte stream returns b'' - the value compares unequal to b'' and `data + reader.read(n)` "
                             'raises TypeError at the end of the window', r_)
    if n == 0:
        rep.ok(rid, f'{BR}::BufferedReader', 'no literal is returned')


def r20_8(rep: Report, cls: ast.ClassDef) -> None:
    """R20.8  seek(offset, whence) is the file-like contract over the window: before clamping, the new position is
    `offset` (SEEK_SET), `pos + offset` (SEEK_CUR) or `size + offset` (SEEK_END) - the *argument*, not the
    window's own start `self.offset`, which is a file position.  Each assignment that is reached only under one
    of the whence tests and flows into self.pos is read as a linear form (locals written out per path)."""
    from ..core import lin_atoms
    from ..flow import Disjunctive, Flow
    from ..pathcond import PathCond, entails as pc_entails, sym_values
    rid = 'R20.8'
    fn = need(find_func(cls, 'seek'), f'{BR}::BufferedReader.seek')
    construct = f'{BR}::BufferedReader.seek'
    params = [a.arg for a in fn.args.args if a.arg != 'self']
    if len(params) < 2:
        raise AnalysisError('BufferedReader.seek: (offset, whence) parameters not found')
    off, wh = params[0], params[1]
    kinds = {'SEEK_SET': ('0', 'io.SEEK_SET', 'os.SEEK_SET'), 'SEEK_CUR': ('1', 'io.SEEK_CUR', 'os.SEEK_CUR'),
             'SEEK_END': ('2', 'io.SEEK_END', 'os.SEEK_END')}
    # locals that flow into self.pos
    flows = {'self.pos'}
    for _ in range(3):
        for a in ast.walk(fn):
            if isinstance(a, (ast.Assign, ast.AugAssign)):
                tg = a.targets[0] if isinstance(a, ast.Assign) else a.target
                if norm(tg) in flows:
                    flows |= {x.id for x in ast.walk(a.value) if isinstance(x, ast.Name) and x.id not in (off, wh)}
    upd, resolve = sym_values(max_len=300)
    seen: dict[str, list] = {k: [] for k in kinds}
    # only what is written inside an arm of the whence chain (the clamp that follows is R20.3's)
    in_arm: set[int] = set()
    for i_ in ast.walk(fn):
        if isinstance(i_, ast.If) and any(isinstance(x, ast.Name) and x.id == wh for x in ast.walk(i_.test)):
            # the statement that leaves the arm's result: the last top-level assignment to something that flows
            # into self.pos (what precedes it - a size lookup, a temporary - is written out when it is resolved)
            last = [b_ for b_ in i_.body if isinstance(b_, (ast.Assign, ast.AugAssign))
                    and norm(b_.targets[0] if isinstance(b_, ast.Assign) else b_.target) in flows
                    and norm(b_.targets[0] if isinstance(b_, ast.Assign) else b_.target) != 'self.size']
            if last:
                in_arm.add(id(last[-1]))
            # an arm that finishes through seek itself: `return self.seek(<target>, SEEK_SET)`
            for b_ in i_.body:
                if isinstance(b_, ast.Return) and isinstance(b_.value, ast.Call) and call_name(b_.value) == 'self.seek' \
                        and len(b_.value.args) == 2 and norm(b_.value.args[1]) in kinds['SEEK_SET']:
                    in_arm.add(id(b_))

    def on_stmt(st, states):
        if id(st) not in in_arm:
            return
        if isinstance(st, ast.Return):
            tg = None
        else:
            tg = st.targets[0] if isinstance(st, ast.Assign) else st.target
            if norm(tg) not in flows or norm(tg) == 'self.size':
                return
        for x in states:
            for k, names in kinds.items():
                if any(pc_entails(x[0], ('atom', f'{wh} == {n_}')) is True for n_ in names):
                    val = st.value.args[0] if tg is None else st.value if isinstance(st, ast.Assign) else \
                        ast.BinOp(left=tg, op=st.op, right=st.value)
                    if any(isinstance(c_, ast.Call) and (call_name(c_) or '') in ('max', 'min') for c_ in ast.walk(val)):
                        continue            # the clamp itself
                    seen[k].append((st, lin_atoms(resolve(x, val))))
    Flow(Disjunctive(PathCond(upd=upd), cap=256), on_stmt=on_stmt).run(fn, [PathCond.initial()])
    for k, sites in seen.items():
        if not sites:
            raise AnalysisError(f'BufferedReader.seek: no position is computed under `{wh} == {k}`')
        bad = None
        for st, form in sites:
            rest = {a_: v_ for a_, v_ in form.items() if a_ != off}
            ok_ = form.get(off) == 1 and (
                (k == 'SEEK_SET' and not rest) or
                (k == 'SEEK_CUR' and rest == {'self.pos': 1}) or
                (k == 'SEEK_END' and len(rest) == 1 and list(rest.values()) == [1] and 'size' in next(iter(rest)).lower()))
            if not ok_:
                bad = (st, form)
        if bad is None:
            rep.ok(rid, construct, k, {'SEEK_SET': f'{off}', 'SEEK_CUR': f'pos + {off}', 'SEEK_END': f'size + {off}'}[k])
        else:
            shown = ' '.join(f'{"+" if v_ > 0 else "-"} {a_}' for a_, v_ in sorted(bad[1].items()))
            rep.fail(rid, construct, k,
                     f'under {k} the position becomes `{shown[:120]}` before clamping; it must be '
                     + {'SEEK_SET': f'`{off}`', 'SEEK_CUR': f'`self.pos + {off}`', 'SEEK_END': f'`<window size> + {off}`'}[k]
                     + f' - the `{off}` argument of seek(), in window coordinates (self.offset is the position of the window in '
                     'the file, not a seek distance)', bad[0])


def r20_3(rep: Report, cls: ast.ClassDef) -> None:
    rid = 'R20.3'
    fn = need(_prep(find_func(cls, 'seek')), f'{BR}::BufferedReader.seek')
    construct = f'{BR}::BufferedReader.seek'

    class ZD(ZoneDomain):
        def assume(self, test, s, truth):
            t = norm(test)
            # limit = self.size ; if limit is None: the local is the size while neither is reassigned
            if isinstance(test, ast.Compare) and isinstance(test.left, ast.Name) \
                    and f'sizecopy:{test.left.id}' in s.facts:
                t = t.replace(test.left.id, 'self.size', 1)
            if t == 'self.size is None':
                s.facts.add('sizenone' if truth else 'sizeknown')
                return s
            if t == 'self.size is not None':
                s.facts.add('sizeknown' if truth else 'sizenone')
                return s
            return super().assume(test, s, truth)

        def transfer(self, st, s):
            for t in (st.targets if isinstance(st, ast.Assign) else
                      [st.target] if isinstance(st, (ast.AugAssign, ast.AnnAssign)) else []):
                if isinstance(t, ast.Name):
                    s.facts.discard(f'sizecopy:{t.id}')
                    if isinstance(st, (ast.Assign, ast.AnnAssign)) and st.value is not None \
                            and dotted(st.value) == 'self.size':
                        s.facts.add(f'sizecopy:{t.id}')
                if dotted(t) == 'self.size':
                    for f_ in [f_ for f_ in s.facts if f_.startswith('sizecopy:')]:
                        s.facts.discard(f_)
                    s.facts.discard('sizenone')
                    s.facts.add('sizeknown')
                    s = super().transfer(st, s)
                    s.add(ZERO, 'self.size', 0)      # axiom: a known window size is >= 0
                    return s
            return super().transfer(st, s)

    zd = ZD(pure_calls={'self.reader.seek', 'self.reader.tell'})
    exits = [0]

    def on_exit(kind, st, s: Zone):
        if kind not in ('return', 'fall'):
            return
        exits[0] += 1
        if kind == 'return' and st is not None and isinstance(st.value, ast.Call) and call_name(st.value) == 'self.seek':
            # seek finishing through seek: the inner call leaves pos in [0, size] (what is shown here for
            # every exit that is not such a call) and nothing follows it
            rep.ok(rid, construct, f'finishes through {short(st.value, 40)}')
            exits[0] -= 1
            return
        pid = str(abs(hash(s.describe() + str(sorted(s.facts)))) % 100000)
        if proves_le(zd, s, AVal.const(0), ast.parse('self.pos', mode='eval').body):
            rep.ok(rid, construct, f'0 <= pos@{pid}')
        else:
            rep.fail(rid, construct, '0 <= pos',
                     f'an exit of seek does not imply pos >= 0; known: {s.describe()}', st)
        if 'sizenone' in s.facts:
            rep.ok(rid, construct, f'size unknown@{pid}')
        elif proves_le(zd, s, ast.parse('self.pos', mode='eval').body,
                       ast.parse('self.size', mode='eval').body):
            rep.ok(rid, construct, f'pos <= size@{pid}')
        else:
            rep.fail(rid, construct, 'pos <= size',
                     'an exit of seek with a known size does not imply pos <= size; '
                     f'known: {s.describe()}', st)

    rep.axioms.append('a known window size is >= 0 (the window lies inside the file)')
    z0 = Zone()
    z0.add(ZERO, 'self.size', 0)
    Flow(Disjunctive(zd), on_exit=each_exit(on_exit)).run(fn, [z0])
    if exits[0] == 0:
        raise AnalysisError('seek: no exit that does not go through another call of seek')
    # read advances pos by exactly the slice length it returns
    rd = need(_prep(find_func(cls, 'read')), f'{BR}::BufferedReader.read')
    construct = f'{BR}::BufferedReader.read'
    incs = [n for n in ast.walk(rd) if isinstance(n, ast.AugAssign)
            and dotted(n.target) == 'self.pos']
    blocks = [b_ for n in ast.walk(rd) for fld in ('body', 'orelse', 'finalbody')
              for b_ in [getattr(n, fld, None)] if isinstance(b_, list) and b_ and isinstance(b_[0], ast.stmt)]
    paired = 0
    for inc in incs:
        blk = next((b_ for b_ in blocks if any(x is inc for x in b_)), None)
        i = next(j for j, x in enumerate(blk)) if blk is None else [j for j, x in enumerate(blk) if x is inc][0]
        ret = next((x for x in (blk or [])[i + 1:] if isinstance(x, ast.Return)), None)
        if ret is None or ret.value is None:
            continue
        paired += 1
        key = f'{norm(inc)} / {norm(ret)}'
        v = ret.value
        same = False
        if isinstance(v, ast.Subscript) and isinstance(v.slice, ast.Slice) and v.slice.lower is None \
                and v.slice.upper is not None:
            same = norm(v.slice.upper) == norm(inc.value)          # pos += n ; return b[:n]
        elif isinstance(v, ast.Name):
            same = norm(inc.value) == f'len({v.id})'               # pos += len(rv) ; return rv
        if isinstance(inc.op, ast.Add) and same:
            rep.ok(rid, construct, key)
        else:
            rep.fail(rid, construct, key,
                     'read() advances the position by a different amount than the length '
                     'it returns', inc)
    if not paired:
        rep.note('R20.3: read() no longer uses the `pos += n; return b[:n]` idiom; '
                 'advance/length agreement not decided')


def r20_6(rep: Report, cls: ast.ClassDef) -> None:
    """the window size is an integer or None (unknown); 0 is a size.  A test of `self.size` by
    truthiness treats an empty window like an unbounded one."""
    rid = 'R20.6'
    n = 0
    for fn in methods(rep, cls):
        construct = f'{BR}::BufferedReader.{fn.name}'
        # the names the window size goes by in this method: the field, and a parameter or local that is stored
        # into it or taken from it (`def __init__(.., size=None)` .. `self.size = size`)
        holds = {'self.size'}
        for a in ast.walk(fn):
            if isinstance(a, (ast.Assign, ast.AnnAssign)) and getattr(a, 'value', None) is not None:
                tg = a.targets[0] if isinstance(a, ast.Assign) else a.target
                if norm(tg) == 'self.size' and isinstance(a.value, ast.Name):
                    holds.add(a.value.id)
                elif isinstance(tg, ast.Name) and norm(a.value) == 'self.size':
                    holds.add(tg.id)
        for t in ast.walk(fn):
            tests = []
            if isinstance(t, (ast.If, ast.While, ast.IfExp, ast.Assert)):
                tests = [t.test]
            elif isinstance(t, ast.BoolOp):
                tests = list(t.values)
            for e in tests:
                neg = False
                while isinstance(e, ast.UnaryOp) and isinstance(e.op, ast.Not):
                    e, neg = e.operand, not neg
                if isinstance(e, ast.BoolOp):
                    continue
                if norm(e) in holds:
                    rep.fail(rid, construct, f'truthiness of {norm(e)} @{norm(t)[:40]}',
                             f'`{norm(e)}` (the window size) is tested by truthiness: a window of size 0 is treated as a window of '
                             'unknown size (the next seek from the end adopts the length of the file)', t)
                elif isinstance(e, ast.Compare) and norm(e.left) == 'self.size' \
                        and isinstance(e.ops[0], (ast.Is, ast.IsNot)):
                    n += 1
                    rep.ok(rid, construct, f'{norm(e)} @{getattr(e, "lineno", 0)}')
    if n == 0:
        raise AnalysisError('BufferedReader: no `self.size is None` test found')


def _fills(fn: ast.AST) -> list[ast.Assign]:
    return [x for x in ast.walk(fn) if isinstance(x, ast.Assign) and isinstance(x.targets[0], ast.Subscript)
            and norm(x.targets[0].value) == 'self.buffers']


def r20_4(rep: Report, cls: ast.ClassDef) -> None:
    rid = 'R20.4'
    need(find_func(cls, 'cache'), f'{BR}::BufferedReader.cache')
    from ..pathcond import PathCond, entails as pc_entails, f_or, parse as pc_parse, show as pc_show
    fill_methods = [m for m in methods(rep, cls) if _fills(m) and any(
        isinstance(c, ast.Call) and call_name(c) == 'self.reader.read' for c in ast.walk(m))]
    if not fill_methods:
        raise AnalysisError('BufferedReader: no method stores a bucket into self.buffers')
    for fn in fill_methods:
        construct = f'{BR}::BufferedReader.{fn.name}'
        found = 0
        blocks = [b_ for n in ast.walk(fn) for fld in ('body', 'orelse', 'finalbody')
                  for b_ in [getattr(n, fld, None)] if isinstance(b_, list) and b_ and isinstance(b_[0], ast.stmt)]
        for blk in blocks:
            dels = [s for s in blk if isinstance(s, ast.Delete)
                    and any('self.buffers' in norm(t) for t in s.targets)]
            decs = [s for s in blk if isinstance(s, ast.AugAssign) and isinstance(s.op, ast.Sub)
                    and dotted(s.target) == 'self.num_buffers' and norm(s.value) == '1']
            for d in dels:
                found += 1
                if len(decs) == len(dels):
                    rep.ok(rid, construct, norm(d))
                else:
                    rep.fail(rid, construct, norm(d),
                             'eviction deletes a bucket without decrementing num_buffers in the '
                             'same block', d)
            ins = [s for s in blk if isinstance(s, ast.Assign)
                   and isinstance(s.targets[0], ast.Subscript)
                   and norm(s.targets[0].value) == 'self.buffers']
            incs = [s for s in blk if isinstance(s, ast.AugAssign) and isinstance(s.op, ast.Add)
                    and dotted(s.target) == 'self.num_buffers' and norm(s.value) == '1']
            for i in ins:
                found += 1
                if len(incs) == len(ins):
                    rep.ok(rid, construct, norm(i))
                else:
                    rep.fail(rid, construct, norm(i),
                             'insertion without incrementing num_buffers', i)
        if found < 2:
            raise AnalysisError(f'{fn.name}(): eviction/insertion idiom not recognised')
        # the bucket read is exactly one buffersize at bucket + offset -> R20.1 covers the seek;
        # the read length:
        for n in ast.walk(fn):
            if isinstance(n, ast.Call) and call_name(n) == 'self.reader.read' and any(
                    any(x is n for x in ast.walk(a_)) for a_ in ast.walk(fn)
                    if isinstance(a_, ast.Assign) and isinstance(a_.value, ast.Call) and call_name(a_.value) == 'Buffer'):
                key = norm(n)
                if n.args and norm(n.args[0]) == 'self.buffersize':
                    rep.ok(rid, construct, key)
                else:
                    rep.fail(rid, construct, key, 'bucket fill does not read exactly buffersize', n)
        # a bucket that is present is not read again: every path to the fill implies `bucket not in
        # buffers` (written as a membership test, or as `self.buffers.get(bucket) is None`)
        keys = {norm(f_.targets[0].slice) for f_ in _fills(fn)}
        if len(keys) != 1:
            raise AnalysisError(f'{fn.name}(): buckets stored under several keys {sorted(keys)}')
        bname = next(iter(keys))
        goals = [pc_parse(ast.parse(f'not ({bname} in self.buffers)', mode='eval').body)]
        for v in {x.id for x in ast.walk(fn) if isinstance(x, ast.Name)}:
            defs = [a_.value for a_ in ast.walk(fn) if isinstance(a_, (ast.Assign, ast.AnnAssign))
                    and getattr(a_, 'value', None) is not None
                    and any(isinstance(t, ast.Name) and t.id == v
                            for t in (a_.targets if isinstance(a_, ast.Assign) else [a_.target]))]
            lookups = [d for d in defs if isinstance(d, ast.Call) and call_name(d) == 'self.buffers.get'
                       and len(d.args) == 1 and norm(d.args[0]) == bname]
            # the name holds the cached entry (None when absent) or, later, the entry just stored
            others = [d for d in defs if d not in lookups]
            if lookups and all(isinstance(d, ast.Call) and call_name(d) == 'Buffer' for d in others):
                goals.append(('atom', f'{v} is None'))
        goal = f_or(*goals) if len(goals) > 1 else goals[0]
        verdicts = []

        def on_fill(st, states, _v=verdicts, _goal=goal):
            if isinstance(st, (ast.If, ast.While, ast.For, ast.With, ast.Try)):
                return
            reads = any(isinstance(c, ast.Call) and call_name(c) == 'self.reader.read' for c in ast.walk(st))
            stores = isinstance(st, ast.Assign) and isinstance(st.targets[0], ast.Subscript) \
                and norm(st.targets[0].value) == 'self.buffers'
            # a store that follows the read in the same block is reached only through it
            if stores and any(any(x is st for x in blk[i_ + 1:]) for blk in _blocks for i_, r_ in enumerate(blk)
                              if any(isinstance(c, ast.Call) and call_name(c) == 'self.reader.read' for c in ast.walk(r_))
                              and not isinstance(r_, (ast.If, ast.While, ast.For, ast.With, ast.Try))):
                return
            if reads or stores:
                for x in states:
                    _v.append((pc_entails(x[0], _goal) is True, pc_show(x[0]), st))
        _blocks = blocks
        Flow(Disjunctive(PathCond(), cap=256), on_stmt=on_fill).run(fn, [PathCond.initial()])
        if not verdicts:
            raise AnalysisError(f'{fn.name}(): no bucket fill found')
        badv = [v for v in verdicts if not v[0]]
        if not badv:
            rep.ok(rid, construct, 'cached bucket is reused', f'every path to the fill implies `{bname} not in self.buffers`')
        else:
            rep.fail(rid, construct, 'cached bucket is reused',
                     f'the bucket is read and stored on a path that does not imply `{bname} not in self.buffers` '
                     f'(path condition: {badv[0][1][:120]}): a cached bucket is fetched again', badv[0][2])
    # bucket keys handed to cache() are multiples of buffersize
    for m in methods(rep, cls):
        calls = [c for c in ast.walk(m) if isinstance(c, ast.Call) and call_name(c) == 'self.cache']
        params_m = {a_.arg for a_ in m.args.args}
        own_fills = [f_ for f_ in _fills(m) if norm(f_.targets[0].slice) not in params_m] if m in fill_methods else []
        if not calls and not own_fills:
            continue
        mconstruct = f'{BR}::BufferedReader.{m.name}'

        def gen(st):
            return []

        B = 'self.buffersize'

        def aligned(e: ast.AST, s) -> bool:
            """is e a multiple of buffersize, given the names known to be? (congruence mod B)"""
            if isinstance(e, ast.Constant):
                return e.value == 0 and not isinstance(e.value, bool)
            if isinstance(e, ast.Name):
                return ('aligned', e.id) in s
            if isinstance(e, ast.BinOp):
                if isinstance(e.op, ast.Mult):
                    return norm(e.left) == B or norm(e.right) == B or aligned(e.left, s) or aligned(e.right, s)
                if isinstance(e.op, (ast.Add, ast.Sub)):
                    if aligned(e.left, s) and aligned(e.right, s):
                        return True
                    # x - x % B
                    if isinstance(e.op, ast.Sub) and isinstance(e.right, ast.BinOp) \
                            and isinstance(e.right.op, ast.Mod) and norm(e.right.left) == norm(e.left) \
                            and norm(e.right.right) == B:
                        return True
            if norm(e) == B:
                return True
            return False

        class Al(MustFacts):
            def transfer(self, st, s):
                s = set(s)
                pairs: list[tuple[str, ast.AST | None]] = []
                if isinstance(st, (ast.Assign, ast.AnnAssign)) and getattr(st, 'value', None) is not None:
                    tgts = st.targets if isinstance(st, ast.Assign) else [st.target]
                    for t in tgts:
                        if isinstance(t, ast.Name):
                            pairs.append((t.id, st.value))
                        elif isinstance(t, (ast.Tuple, ast.List)):
                            vals = st.value.elts if isinstance(st.value, (ast.Tuple, ast.List)) \
                                and len(st.value.elts) == len(t.elts) else [None] * len(t.elts)
                            for te, ve in zip(t.elts, vals):
                                if isinstance(te, ast.Name):
                                    pairs.append((te.id, ve))
                    verdicts_ = [(v, val is not None and aligned(val, s)) for v, val in pairs]
                    for v, ok_ in verdicts_:
                        s = {f for f in s if f[1] != v}
                    for v, ok_ in verdicts_:
                        if ok_:
                            s.add(('aligned', v))
                elif isinstance(st, ast.AugAssign) and isinstance(st.target, ast.Name):
                    v = st.target.id
                    had_a = ('aligned', v) in s
                    keep = False
                    if isinstance(st.op, ast.Mult) and (norm(st.value) == B or aligned(st.value, s) or had_a):
                        keep = True
                    if isinstance(st.op, (ast.Add, ast.Sub)) and had_a and aligned(st.value, s):
                        keep = True
                    s = {f for f in s if f[1] != v}
                    if keep:
                        s.add(('aligned', v))
                elif isinstance(st, ast.For):
                    for x in ast.walk(st.target):
                        if isinstance(x, ast.Name):
                            s = {f for f in s if f[1] != x.id}
                return frozenset(s)

        def on_stmt(st, s, _m=m, _c=mconstruct):
            if isinstance(st, (ast.If, ast.While, ast.For, ast.With, ast.Try)):
                return
            if any(st is f_ for f_ in own_fills):
                a = st.targets[0].slice
                if aligned(a, s):
                    rep.ok(rid, _c, f'buffers[{norm(a)}]')
                else:
                    rep.fail(rid, _c, f'buffers[{norm(a)}]',
                             'bucket key is not provably a multiple of buffersize '
                             '(overlapping or misaligned cache entries)', st)
            for c in ast.walk(st):
                if isinstance(c, ast.Call) and call_name(c) == 'self.cache':
                    a = c.args[0]
                    key = f'cache({norm(a)})'
                    if aligned(a, s):
                        rep.ok(rid, _c, key)
                    else:
                        rep.fail(rid, _c, key,
                                 'bucket key is not provably a multiple of buffersize '
                                 '(overlapping or misaligned cache entries)', c)

        Flow(Al(gen), on_stmt=on_stmt).run(m, frozenset())
        # the bucket looked up after cache() is the same key
        for sub in ast.walk(m):
            if isinstance(sub, ast.Subscript) and norm(sub.value) == 'self.buffers' \
                    and isinstance(sub.ctx, ast.Load):
                arg_names = {norm(c.args[0]) for c in calls}
                if norm(sub.slice) in arg_names:
                    rep.ok(rid, mconstruct, f'lookup {norm(sub)}')
                else:
                    rep.fail(rid, mconstruct, f'lookup {norm(sub)}',
                             'bucket read from the cache is not the key that was cached', sub)


def r20_7(rep: Report, cls: ast.ClassDef) -> None:
    """a bucket is filled from the file position it stands for: every path of cache() to the read that
    fills the bucket either passed `self.reader.seek(bucket + self.offset)` or implies that the
    underlying reader already is there (`self.reader.tell() == bucket + self.offset`).  Any other
    reason to skip the seek (remembered positions, flags) is a belief about the file position that a
    cache hit, a seek of the window or another reader of the same file can falsify."""
    from ..pathcond import PathCond, atoms_of, entails as pc_entails, f_not, show as pc_show, sym_values
    rid = 'R20.7'
    need(find_func(cls, 'cache'), f'{BR}::BufferedReader.cache')
    fill_methods = [m for m in methods(rep, cls) if _fills(m) and any(
        isinstance(c, ast.Call) and call_name(c) == 'self.reader.read' for c in ast.walk(m))]
    if not fill_methods:
        raise AnalysisError('BufferedReader: no method fills a bucket from the underlying reader')
    for fn in fill_methods:
        construct = f'{BR}::BufferedReader.{fn.name}'
        keys = {norm(f_.targets[0].slice) for f_ in _fills(fn)}
        if len(keys) != 1:
            raise AnalysisError(f'{fn.name}(): buckets stored under several keys {sorted(keys)}')
        bname = next(iter(keys))
        want_e = ast.parse(f'{bname} + self.offset', mode='eval').body

        def is_want(state, e: ast.AST, _w=want_e) -> bool:
            a_ = lin(resolve(state, e, calls=False), opaque=True)
            return a_ is not None and a_ == lin(resolve(state, _w, calls=False), opaque=True)

        sym_upd, resolve = sym_values(subst_calls=False)

        def upd(st, facts):
            facts = set(sym_upd(st, frozenset(facts)))
            for c in ast.walk(st) if not isinstance(st, (ast.If, ast.While, ast.For, ast.With, ast.Try)) else []:
                if isinstance(c, ast.Call) and call_name(c) == 'self.reader.seek' and c.args:
                    whence = c.args[1] if len(c.args) > 1 else next((k.value for k in c.keywords if k.arg == 'whence'), None)
                    if is_want((None, None, frozenset(facts)), c.args[0]) and (whence is None or norm(whence).endswith('SEEK_SET')
                                                                      or norm(whence) == '0'):
                        facts.add('at-bucket')
                    else:
                        facts.discard('at-bucket')
                elif isinstance(c, ast.Call) and (call_name(c) or '').startswith('self.reader.') \
                        and call_name(c) not in ('self.reader.tell',):
                    facts.discard('at-bucket')
                    facts = {f_ for f_ in facts if not f_.startswith('tell:')}
            # here = self.reader.tell(): the local is the reader position until the reader is used again
            if isinstance(st, ast.Assign) and len(st.targets) == 1 and isinstance(st.targets[0], ast.Name):
                facts.discard(f'tell:{st.targets[0].id}')
                if isinstance(st.value, ast.Call) and call_name(st.value) == 'self.reader.tell':
                    facts.add(f'tell:{st.targets[0].id}')
            return frozenset(facts)
        verdicts = []

        def on_stmt(st, states):
            if isinstance(st, (ast.If, ast.While, ast.For, ast.With, ast.Try)):
                return
            if any(isinstance(c, ast.Call) and call_name(c) == 'self.reader.read' for c in ast.walk(st)):
                for x in states:
                    goals = []
                    for t in atoms_of(x[0]):
                        try:
                            e = ast.parse(t, mode='eval').body
                        except SyntaxError:
                            continue
                        if not (isinstance(e, ast.Compare) and len(e.ops) == 1 and isinstance(e.ops[0], (ast.Eq, ast.NotEq))):
                            continue
                        sides = [e.left, e.comparators[0]]
                        tells = [i for i, sd in enumerate(sides) if (isinstance(sd, ast.Call)
                                 and call_name(sd) == 'self.reader.tell') or (
                                     isinstance(sd, ast.Name) and f'tell:{sd.id}' in x[2])]
                        if len(tells) != 1:
                            continue
                        if is_want(x, sides[1 - tells[0]]):
                            goals.append(('atom', t) if isinstance(e.ops[0], ast.Eq) else f_not(('atom', t)))
                    ok_ = 'at-bucket' in x[2] or any(pc_entails(x[0], g) is True for g in goals)
                    verdicts.append((ok_, pc_show(x[0]), st))
        Flow(Disjunctive(PathCond(upd=upd), cap=256), on_stmt=on_stmt).run(fn, [PathCond.initial()])
        if not verdicts:
            raise AnalysisError(f'{fn.name}(): no bucket fill found')
        badv = [v for v in verdicts if not v[0]]
        if not badv:
            rep.ok(rid, construct, 'fill reads at bucket + offset', f'{len(verdicts)} path(s) to the fill')
        else:
            rep.fail(rid, construct, 'fill reads at bucket + offset',
                     f'the bucket is filled on a path that neither seeks the underlying reader to `{bname} + self.offset` '
                     f'nor implies it already is there (path condition: {badv[0][1][:140]}): the bytes cached under this '
                     'key can come from another part of the file', badv[0][2])


def r20_5(rep: Report) -> None:
    rid = 'R20.5'
    n_sites = 0
    for rel in rep.repo.py_files('dashlive'):
        if rel == BR:
            continue
        tree = rep.repo.tree(rel)
        for n in ast.walk(tree):
            if not (isinstance(n, ast.Call) and call_name(n) == 'BufferedReader'):
                continue
            kw = {k.arg: k.value for k in n.keywords if k.arg}
            if 'offset' not in kw and 'size' not in kw:
                continue
            n_sites += 1
            fn = enclosing_function(n)
            construct = f'{rel}::{fn.name if fn else "?"}'
            key = f'BufferedReader({", ".join(f"{k}={norm(v)}" for k, v in sorted(kw.items()) if k in ("offset", "size"))})'
            if 'offset' in kw and 'size' in kw:
                o, s = dotted(kw['offset']), dotted(kw['size'])
                if o and s and o.rsplit('.', 1)[0] == s.rsplit('.', 1)[0] \
                        and o.endswith('.pos') and s.endswith('.size'):
                    rep.ok(rid, construct, key)
                else:
                    rep.fail(rid, construct, key,
                             'window offset and size are not the pos/size of one segment object', n)
            elif 'offset' in kw:
                rep.fail(rid, construct, key, 'window offset without a size', n)
            else:
                rep.ok(rid, construct, key, 'size only: window starts at 0')


def analyse(rep: Report) -> None:
    rep.explanation = (
        'Structural window discipline of dashlive.utils.buffered_reader.BufferedReader: linear '
        'normal forms of every position handed to / taken from the underlying reader, must-fact '
        'data-flow (clamped counts) for every returned byte string, zone-domain proof of the '
        'seek clamps on every exit, pairing rules for the bucket cache. Decides necessary '
        'conditions of C20 for all operation sequences; equivalence with BytesIO is not decided.')
    tree = rep.repo.tree(BR)
    cls = need(find_class(tree, 'BufferedReader'), f'{BR}::BufferedReader')
    rep.rule('R20.1', 'positions exchanged with the underlying reader are window-translated', floor=4)
    rep.rule('R20.2', 'returned byte strings are bounded by the window when its size is known', floor=5)
    rep.rule('R20.3', 'seek clamps pos into [0, size]; read advances by the length returned', floor=4)
    rep.rule('R20.4', 'cache eviction/insertion keep the counter paired; bucket keys are aligned', floor=4)
    rep.rule('R20.6', 'the optional window size is tested with `is None`, never by truthiness', floor=3)
    rep.rule('R20.7', 'a bucket is filled from the file position bucket + offset on every path', floor=1)
    rep.rule('R20.5', 'windowing call sites pass pos and size of one segment', floor=3)
    rep.rule('R20.9', 'read / readall / peek return byte strings, also at the end of the window', floor=1)
    rep.rule('R20.8', 'seek moves to offset / pos + offset / size + offset before clamping', floor=3)
    r20_1(rep, cls)
    r20_2(rep, cls)
    r20_3(rep, cls)
    r20_8(rep, cls)
    r20_9(rep, cls)
    r20_4(rep, cls)
    r20_6(rep, cls)
    r20_7(rep, cls)
    r20_5(rep)

"""C05 - every manifest response is well-formed, structurally valid DASH (partial).

Templates are *parsed* (Jinja2 AST + an XML tokenizer over the literal text),
never rendered.

R05.0  escaping machinery: xmlSafe's strength is read from its body; the
       formatter filters used as "XML-inert" are registered; *.mpd templates are
       not autoescaped while *.xml ones are (Flask's rule restated).
R05.1  no string that can carry stored/requested text reaches an XML sink of a
       non-autoescaped template without a sanitiser that neutralises what the
       lexical context needs (element content: & <; double-quoted attribute:
       & < ");  |safe in autoescaped templates only on safe producers.
R05.2  typed attributes go through their lexical formatter (xs:duration,
       xs:dateTime, unsigned integers).
R05.3  attributes required for MPD@type are present on every branch of the
       template's own mode test.
R05.4  URL templates only use $RepresentationID$ $Number$ $Time$ $Bandwidth$ $$.
R05.5  the URL/query text of init, media, base, location, patch and time-source
       URLs passes a sanitiser covering & (joint with C07).
"""
from __future__ import annotations

import ast
import re

from ..core import (AnalysisError, Report, call_name, find_func, need, norm, short)
from ..templates import (ATTR_DQ, ATTR_SQ, CONTENT, TAG, Sink, TemplateSet, collect_tags)

TAGS = 'dashlive/server/template_tags.py'
MANIFESTS = ['hand_made.mpd', 'manifest_a.mpd', 'manifest_b.mpd', 'manifest_e.mpd',
             'manifest_ef.mpd', 'manifest_h.mpd', 'manifest_i.mpd', 'manifest_n.mpd',
             'manifest_vod_aiv.mpd']
PATCHES = ['hand_made.xml']

NEEDS = {CONTENT: {'&', '<'}, ATTR_DQ: {'&', '<', '"'}, ATTR_SQ: {'&', '<', "'"}}

# filters that map escaped text to escaped text (entities produced by html.escape are lower-case)
ESCAPE_PRESERVING = {'lower', 'trim', 'default', 'd', 'string'}

# filters whose *output alphabet* cannot contain & < > " ' whatever the input
INERT_FILTERS = {
    'isoDateTime': 'digits, - : . T Z +',
    'isoDuration': 'P T digits . H M S',
    'base64': 'base64 alphabet',
    'uuid': 'hex digits and -',
    'trueFalse': 'literal true/false',
    'frameRateFraction': 'digits and /',
    'length': 'an int',
    'int': 'an int',
    'float': 'a float',
}

# ---------------------------------------------------------------------------
# classification of expression roots.  kinds: 'num' (int/float/bool), 'enum'
# (fixed server-side vocabulary), 'file' (derived from parsed media: fourcc/hex
# codec strings, ISO-639 language packed in 15 bits, secure_filename() stems),
# 'T1' (stored or requested free text - must be sanitised)
# ---------------------------------------------------------------------------
ROOT_CLASS = {
    'adp': 'AdaptationSet', 'audio': 'AdaptationSet', 'mpd.video': 'AdaptationSet',
    'video': 'AdaptationSet',
    'rep': 'Representation', 'period': 'Period', 'mpd.period': 'Period', 'mpd': 'ManifestContext',
    'stream': 'EventStream', 'event': 'DashEvent', 'seg': 'Segment', 'segList': 'SegmentIndexList',
    'segList.init': 'SegmentPosition', 'segTimeline': 'list', 'kid': 'KeyMaterial',
    'mpd.timeSource': 'TimeSourceContext', 'mpd.patch': 'PatchLocation',
    'adp.contentComponent': 'ContentComponent', 'adp.accessibility': 'dict',
    'DRM.playready': 'DrmManifestContext', 'DRM.clearkey': 'DrmManifestContext',
    'DRM.marlin': 'DrmManifestContext', 'loop': 'jinja-loop',
    'segDurations': 'SegmentDurations',
}

_INDEX = None


def infer_numeric(cls_name: str, attr: str) -> bool:
    """annotation `attr: int|float|bool`, a property `-> int|float|bool`, or a numeric
    DEFAULT_VALUES entry on a class of that name under dashlive/mpeg/dash"""
    if _INDEX is None:
        return False
    for q, c in _INDEX.classes.items():
        if c.name != cls_name or not c.rel.startswith('dashlive/mpeg/dash/'):
            continue
        for k in _INDEX.mro(c):
            for b in k.node.body:
                if isinstance(b, ast.AnnAssign) and isinstance(b.target, ast.Name) \
                        and b.target.id == attr and norm(b.annotation) in ('int', 'float', 'bool'):
                    return True
                if isinstance(b, ast.FunctionDef) and b.name == attr and b.returns is not None \
                        and norm(b.returns) in ('int', 'float', 'bool') \
                        and any('property' in norm(d) for d in b.decorator_list):
                    return True
            dv = k.attrs.get('DEFAULT_VALUES')
            if isinstance(dv, ast.Dict):
                for kk, vv in zip(dv.keys, dv.values):
                    if isinstance(kk, ast.Constant) and kk.value == attr \
                            and isinstance(vv, ast.Constant) \
                            and isinstance(vv.value, (int, float)) and vv.value is not None:
                        return True
    return False

FIELDS: dict[tuple[str, str], tuple[str, str]] = {
    # AdaptationSet
    ('AdaptationSet', 'id'): ('num', 'track id (int) or get_next_id()'),
    ('AdaptationSet', 'timescale'): ('num', ''), ('AdaptationSet', 'start_number'): ('num', ''),
    ('AdaptationSet', 'segment_duration'): ('num', ''),
    ('AdaptationSet', 'presentationTimeOffset'): ('num', ''),
    ('AdaptationSet', 'maxWidth'): ('num', ''), ('AdaptationSet', 'maxHeight'): ('num', ''),
    ('AdaptationSet', 'minWidth'): ('num', ''), ('AdaptationSet', 'minHeight'): ('num', ''),
    ('AdaptationSet', 'minBitrate'): ('num', ''), ('AdaptationSet', 'maxBitrate'): ('num', ''),
    ('AdaptationSet', 'numChannels'): ('num', ''), ('AdaptationSet', 'startWithSAP'): ('num', ''),
    ('AdaptationSet', 'maxFrameRate'): ('num', ''),
    ('AdaptationSet', 'mimeType'): ('enum', 'content_type_to_mime_type table'),
    ('AdaptationSet', 'content_type'): ('enum', "one of video/audio/text (handler checks)"),
    ('AdaptationSet', 'role'): ('enum', 'ContentRole names / literals'),
    ('AdaptationSet', 'par'): ('enum', 'literal "16:9"'),
    ('AdaptationSet', 'lang'): ('file', 'language of the representations'),
    ('AdaptationSet', 'language'): ('file', ''),
    ('AdaptationSet', 'codecs'): ('file', ''),
    ('AdaptationSet', 'initURL'): ('T1', 'carries the forwarded query string (option text)'),
    ('AdaptationSet', 'mediaURL'): ('T1', 'carries the forwarded query string (option text)'),
    # Representation
    ('Representation', 'id'): ('file', 'media file name (secure_filename stem)'),
    ('Representation', 'codecs'): ('file', 'fourcc + hex profile/level'),
    ('Representation', 'lang'): ('file', ''), ('Representation', 'language'): ('file', ''),
    ('Representation', 'bitrate'): ('num', ''), ('Representation', 'width'): ('num', ''),
    ('Representation', 'height'): ('num', ''), ('Representation', 'sampleRate'): ('num', ''),
    ('Representation', 'numChannels'): ('num', ''), ('Representation', 'startWithSAP'): ('num', ''),
    ('Representation', 'start_number'): ('num', ''), ('Representation', 'timescale'): ('num', ''),
    ('Representation', 'segment_duration'): ('num', ''), ('Representation', 'frameRate'): ('num', ''),
    ('Representation', 'sar'): ('enum', 'literal "1:1" / parsed ints'),
    ('Representation', 'scanType'): ('enum', 'literal "progressive"'),
    ('Representation', 'baseURL'): ('T1', 'base URL contains the stream directory'),
    # Period
    ('Period', 'id'): ('T1', 'Period.pid of a multi-period stream is free text (p0 otherwise)'),
    ('Period', 'baseURL'): ('T1', 'request Host header + stream directory / multi-period name'),
    # ManifestContext
    ('ManifestContext', 'mpd_id'): ('T1', 'Stream.directory / MultiPeriodStream.name'),
    ('ManifestContext', 'locationURL'): ('T1', 'request URL + query string'),
    ('ManifestContext', 'profiles'): ('enum', 'constants from primary_profiles/additional_profiles'),
    # others
    ('TimeSourceContext', 'schemeIdUri'): ('enum', 'literal urn per method (method validated)'),
    ('TimeSourceContext', 'value'): ('T1', 'option text (time_value, ntp_servers) or Host header '
                                            '+ query string'),
    ('PatchLocation', 'location'): ('T1', 'url_for + query string'),
    ('PatchLocation', 'ttl'): ('num', ''),
    ('ContentComponent', 'id'): ('num', ''), ('ContentComponent', 'content_type'): ('enum', ''),
    ('dict', 'schemeIdUri'): ('enum', 'literal in manifest_context'),
    ('dict', 'value'): ('num', 'literal 1/2 in manifest_context'),
    ('EventStream', 'schemeIdUri'): ('enum', 'class constant of the event generator'),
    ('EventStream', 'timescale'): ('num', ''), ('EventStream', 'presentationTimeOffset'): ('num', ''),
    ('EventStream', 'value'): ('T1', 'ping__value / scte35__value option text'),
    ('DashEvent', 'duration'): ('num', ''), ('DashEvent', 'id'): ('num', ''),
    ('DashEvent', 'presentationTime'): ('num', ''),
    ('DashEvent', 'contentEncoding'): ('enum', ''), ('DashEvent', 'messageData'): ('enum', ''),
    ('Segment', 'duration'): ('num', ''), ('Segment', 'repeat'): ('num', ''),
    ('Segment', 'start'): ('num', ''), ('Segment', 'end'): ('num', ''), ('Segment', 'count'): ('num', ''),
    ('SegmentIndexList', 'timescale'): ('num', ''), ('SegmentIndexList', 'duration'): ('num', ''),
    ('SegmentPosition', 'start'): ('num', ''), ('SegmentPosition', 'end'): ('num', ''),
    ('KeyMaterial', 'hex'): ('enum', 'hex digits'),
    ('DrmManifestContext', 'scheme_id'): ('enum', 'urn:uuid constant of the DRM system'),
    ('DrmManifestContext', 'laurl'): ('T1', 'licence URL from the request, an option or the stream'),
    ('jinja-loop', 'index'): ('num', ''),
}
BARE = {
    'title': ('T1', 'Stream.title / MultiPeriodStream.title'),
    'request_uri': ('T1', 'flask.request.url'),
}

SAFE_PRODUCERS = {'event.data': 'XML rendered from the autoescaped events/scte35_xml_bin_event.xml '
                                '(base64 payload)'}

DURATION_ATTRS = {'mediaPresentationDuration', 'minBufferTime', 'minimumUpdatePeriod',
                  'timeShiftBufferDepth', 'suggestedPresentationDelay', 'maxSegmentDuration',
                  'maxSubsegmentDuration'}
PERIOD_DURATION_ATTRS = {'start', 'duration'}
DATETIME_ATTRS = {'availabilityStartTime', 'publishTime', 'originalPublishTime',
                  'availabilityEndTime'}
UINT_ATTRS = {
    'SegmentTemplate': {'timescale', 'startNumber', 'duration', 'presentationTimeOffset'},
    'SegmentList': {'timescale', 'duration'}, 'SegmentDurations': {'timescale'},
    'S': {'t', 'd', 'r'}, 'Representation': {'bandwidth', 'width', 'height', 'startWithSAP'},
    'AdaptationSet': {'maxWidth', 'maxHeight', 'minWidth', 'minHeight', 'minBandwidth',
                      'maxBandwidth', 'startWithSAP', 'group'},
    'PatchLocation': {'ttl'}, 'EventStream': {'timescale', 'presentationTimeOffset'},
    'InbandEventStream': {'timescale', 'presentationTimeOffset'},
    'Event': {'presentationTime', 'duration', 'id'},
}
XS_DURATION_RE = re.compile(r'^-?P(\d+Y)?(\d+M)?(\d+D)?(T(\d+H)?(\d+M)?(\d+(\.\d+)?S)?)?$')


def classify(expr: str) -> tuple[str, str]:
    """('num'|'enum'|'file'|'T1'|'unknown', reason)"""
    if expr in BARE:
        return BARE[expr]
    e = expr
    m = re.match(r"^(.*)\.replace\('\$RepresentationID\$', rep\.id\)$", e)
    if m:
        return classify(m.group(1))
    if re.fullmatch(r'[\w.]+ - \d+', e):
        return classify(e.split(' - ')[0])
    if '.' not in e:
        return ('unknown', 'bare name not in the table')
    root, attr = e.rsplit('.', 1)
    cls = ROOT_CLASS.get(root)
    if cls is None:
        return ('unknown', f'root `{root}` is not typed')
    row = FIELDS.get((cls, attr))
    if row is None:
        if infer_numeric(cls, attr):
            return ('num', f'{cls}.{attr} is declared numeric')
        return ('unknown', f'{cls}.{attr} is not in the field table')
    return row


def sanitiser_strength(rep: Report) -> dict[str, set[str]]:
    tree = rep.repo.tree(TAGS)
    fn = need(find_func(tree, 'xmlSafe'), f'{TAGS}::xmlSafe')
    construct = f'{TAGS}::xmlSafe'
    ents = {'&': ('&amp;',), '<': ('&lt;',), '>': ('&gt;',), '"': ('&quot;', '&#34;', '&#x22;'),
            "'": ('&#x27;', '&apos;', '&#39;')}
    FULL = {'&', '<', '>', '"', "'"}
    params = [a.arg for a in fn.args.args]
    if not params:
        raise AnalysisError('xmlSafe has no parameter')
    # strength of an expression: the characters neutralised in *the whole value* it derives from the
    # parameter (None: not derived from the parameter)
    env: dict[str, set[str] | None] = {params[0]: set()}

    def html_escape_of_const(call: ast.AST, binding: dict[str, str]) -> str | None:
        if isinstance(call, ast.Constant) and isinstance(call.value, str):
            return call.value
        if isinstance(call, ast.Call) and call_name(call) in ('html.escape', 'escape') and call.args:
            a = call.args[0]
            txt = binding.get(a.id) if isinstance(a, ast.Name) else (
                a.value if isinstance(a, ast.Constant) and isinstance(a.value, str) else None)
            if txt is None:
                return None
            q = True
            for k in call.keywords:
                if k.arg == 'quote' and isinstance(k.value, ast.Constant):
                    q = bool(k.value.value)
            import html as _html
            return _html.escape(txt, quote=q)
        return None

    def strength_of(e: ast.AST, binding: dict[str, str]) -> set[str] | None:
        if isinstance(e, ast.Name):
            return env.get(e.id)
        if isinstance(e, ast.Call):
            cn = call_name(e) or ''
            if cn in ('html.escape', 'escape', 'markupsafe.escape') and e.args:
                inner = strength_of(e.args[0], binding)
                if inner is None:
                    return None
                q = True
                for k in e.keywords:
                    if k.arg == 'quote' and isinstance(k.value, ast.Constant):
                        q = bool(k.value.value)
                if len(e.args) > 1 and isinstance(e.args[1], ast.Constant):
                    q = bool(e.args[1].value)
                return inner | {'&', '<', '>'} | ({'"', "'"} if q else set())
            if cn in ('Markup', 'markupsafe.Markup', 'str') and e.args:
                return strength_of(e.args[0], binding)
            if isinstance(e.func, ast.Attribute) and e.func.attr == 'replace' and len(e.args) == 2:
                inner = strength_of(e.func.value, binding)
                if inner is None:
                    return None
                a0 = e.args[0]
                ch = binding.get(a0.id) if isinstance(a0, ast.Name) else (
                    a0.value if isinstance(a0, ast.Constant) else None)
                ent = html_escape_of_const(e.args[1], binding)
                if isinstance(ch, str) and ent is not None and ent in ents.get(ch, ()):
                    return inner | {ch}
                return inner
            # any other call on the value (regex substitution, conditional rewriting, slicing
            # helpers) keeps what was established and adds nothing
            for a in list(e.args) + ([e.func.value] if isinstance(e.func, ast.Attribute) else []):
                inner = strength_of(a, binding)
                if inner is not None:
                    return set() if cn.endswith(('.sub', '.subn')) and '&' in inner else inner
            return None
        return None

    returns: list[set[str]] = []

    def run(stmts: list[ast.stmt], binding: dict[str, str]) -> None:
        for st in stmts:
            if isinstance(st, ast.Assign) and len(st.targets) == 1 and isinstance(st.targets[0], ast.Name):
                env[st.targets[0].id] = strength_of(st.value, binding)
            elif isinstance(st, ast.AnnAssign) and isinstance(st.target, ast.Name) and st.value is not None:
                env[st.target.id] = strength_of(st.value, binding)
            elif isinstance(st, ast.For) and isinstance(st.target, ast.Name) \
                    and isinstance(st.iter, ast.Constant) and isinstance(st.iter.value, str):
                for chx in st.iter.value:
                    run(st.body, {**binding, st.target.id: chx})
            elif isinstance(st, ast.If):
                run(st.body, binding)
                run(st.orelse, binding)
            elif isinstance(st, ast.Return) and st.value is not None:
                if isinstance(st.value, ast.Constant):
                    continue
                got = strength_of(st.value, binding)
                returns.append(got if got is not None else set())
    run(fn.body, {})
    if not returns:
        raise AnalysisError('xmlSafe returns nothing derived from its argument')
    strength: set[str] = set(FULL)
    for r in returns:
        strength &= r
    # '&' must be replaced first when replace() chains are used
    from ..core import template_filters as _tf
    registered = any(v[0] is fn or getattr(v[0], 'name', None) == fn.name for v in _tf(rep.repo, TAGS).values())
    if not registered:
        rep.fail('R05.0', construct, 'registered', 'xmlSafe is not registered as a template filter', fn)
    if '&' in strength:
        rep.ok('R05.0', construct, 'strength', f'neutralises {sorted(strength)}')
    else:
        rep.fail('R05.0', construct, 'strength', 'xmlSafe does not even neutralise &', fn)
    rep.extra['xmlSafe_strength'] = sorted(strength)
    out = {'xmlSafe': strength, 'e': {'&', '<', '>', '"', "'"}, 'escape': {'&', '<', '>', '"', "'"},
           'forceescape': {'&', '<', '>', '"', "'"}}
    # the inert filters must exist and be registered
    for f in sorted(INERT_FILTERS):
        if f in ('int', 'float', 'length'):
            continue
        from ..core import template_filters
        regs = template_filters(rep.repo, TAGS)
        fnode = regs[f][0] if f in regs else None
        if fnode is None:
            rep.fail('R05.0', f'{TAGS}::{f}', 'exists', f'filter {f} used as XML-inert vanished')
        else:
            rep.ok('R05.0', f'{TAGS}::{fnode.name}', 'registered')
    return out


def r05_1(rep: Report, ts: TemplateSet, strength: dict[str, set[str]]) -> None:
    rid = 'R05.1'
    seen_expr: dict[str, set[str]] = {}
    for s in ts.sinks:
        construct = f'templates/{s.template}'
        key = f'{s.expr}|{"|".join(s.filters)} @{s.mode}' + (f' {s.tag}@{s.attr}' if s.attr and s.mode != CONTENT else '')
        if s.mode == TAG:
            rep.fail(rid, construct, key,
                     f'expression `{s.expr}` is written inside a tag outside any attribute value '
                     '(it could add attributes)')
            continue
        if s.mode not in NEEDS:
            rep.fail(rid, construct, key, f'expression inside `{s.mode}`')
            continue
        kind, why = classify(s.expr)
        seen_expr.setdefault(s.expr, set()).add('|'.join(s.filters) or '-')
        last = s.filters[-1] if s.filters else None
        if s.autoescape:
            if 'safe' in s.filters:
                if s.expr in SAFE_PRODUCERS:
                    rep.ok(rid, construct, key, SAFE_PRODUCERS[s.expr])
                else:
                    rep.fail(rid, construct, key,
                             f'`|safe` switches autoescaping off for `{s.expr}`, which is not a '
                             'known producer of well-formed XML')
            else:
                rep.ok(rid, construct, key, 'autoescaped file')
            continue
        # non-autoescaped (.mpd) file
        if last in INERT_FILTERS:
            rep.ok(rid, construct, key, f'{last}: {INERT_FILTERS[last]}')
            continue
        # strength accumulated along the chain; a filter applied *after* an escaper that cuts,
        # re-cases or rewrites text (truncate, upper, replace, ...) can split `&amp;` or re-create
        # markup, so it discards what the escaper established
        got: set[str] = set()
        undone: str | None = None
        for f in s.filters:
            if f in strength:
                got |= strength[f]
            elif f in ESCAPE_PRESERVING:
                pass
            elif got:
                undone = f
                got = set()
        need_set = NEEDS[s.mode]
        if undone and not need_set <= got:
            where = 'element content' if s.mode == CONTENT else f'attribute {s.tag}@{s.attr}'
            rep.fail(rid, construct, key,
                     f'`{s.expr}` is escaped and then passed through `|{undone}`, which is not an '
                     f'escape-preserving filter ({sorted(ESCAPE_PRESERVING)}): cutting or rewriting escaped '
                     f'text can leave a bare `&` or split an entity in {where}')
            continue
        if kind in ('num', 'enum', 'file') and not s.filters:
            rep.ok(rid, construct, key, f'{kind}: {why}'.rstrip(': '))
            continue
        if kind in ('num', 'enum', 'file') and s.filters:
            if all(f in strength or f in ('default', 'join', 'lower', 'upper') for f in s.filters):
                rep.ok(rid, construct, key, f'{kind}')
                continue
        if need_set <= got:
            rep.ok(rid, construct, key, f'sanitised: {sorted(got)} covers {sorted(need_set)}')
            continue
        where = 'element content' if s.mode == CONTENT else f'attribute {s.tag}@{s.attr}'
        if kind == 'T1':
            rep.fail(rid, construct, key,
                     f'`{s.expr}` ({why}) is written into {where} of a template that is not '
                     f'autoescaped; its filters {s.filters or "none"} neutralise {sorted(got)} but '
                     f'this context needs {sorted(need_set)}: the text can break or inject markup')
        else:
            rep.fail(rid, construct, key,
                     f'`{s.expr}` cannot be shown to be XML-inert ({why}) and is written into '
                     f'{where} of a non-autoescaped template without a sufficient sanitiser')


def _mode_eval(guard: str, mode: str) -> bool | None:
    g = guard.strip()
    m = re.fullmatch(r"not \((.*)\)", g)
    if m:
        v = _mode_eval(m.group(1), mode)
        return None if v is None else not v
    m = re.fullmatch(r"mode (==|!=|eq|ne) '(\w+)'", g)
    if m:
        eq = (mode == m.group(2))
        return eq if m.group(1) in ('==', 'eq') else not eq
    return None


def supported_modes(rep: Report, root: str) -> list[str]:
    """restrictions['mode'] of the manifest in dashlive/server/manifests.py (all three modes
    when unrestricted)"""
    tree = rep.repo.tree('dashlive/server/manifests.py')
    name = root.split('/')[-1]
    for n in ast.walk(tree):
        if isinstance(n, ast.Dict):
            for k, v in zip(n.keys, n.values):
                if isinstance(k, ast.Constant) and k.value == name and isinstance(v, ast.Call):
                    for kw in v.keywords:
                        if kw.arg == 'restrictions' and isinstance(kw.value, ast.Dict):
                            for rk, rv in zip(kw.value.keys, kw.value.values):
                                if isinstance(rk, ast.Constant) and rk.value == 'mode':
                                    try:
                                        return sorted(ast.literal_eval(rv))
                                    except Exception:
                                        pass
    return ['live', 'odvod', 'vod']


def r05_2_3(rep: Report, ts: TemplateSet, root: str) -> None:
    tags = collect_tags(ts, root)
    construct = f'templates/{root}'
    is_patch = root.startswith('patches/')

    def value_kind(a) -> tuple[str, str]:
        if a.value_literal is not None:
            return ('literal', a.value_literal)
        if len(a.value_exprs) == 1:
            s = a.value_exprs[0]
            last = s.filters[-1] if s.filters else ''
            return ('expr', f'{s.expr}|{last}' if last else s.expr)
        return ('mixed', ' '.join(s.expr for s in a.value_exprs))

    for t in tags:
        for a in t.attrs:
            kind, val = value_kind(a)
            key = f'{t.name}@{a.name}={val}'
            want = None
            if a.name in DATETIME_ATTRS:
                want = 'dateTime'
            elif a.name in DURATION_ATTRS or (t.name == 'Period' and a.name in PERIOD_DURATION_ATTRS):
                want = 'duration'
            elif a.name in UINT_ATTRS.get(t.name, ()):
                want = 'uint'
            if want is None:
                continue
            ok = False
            why = ''
            if want == 'dateTime':
                ok = kind == 'expr' and val.endswith('|isoDateTime')
                why = 'an xs:dateTime attribute must be rendered through isoDateTime'
            elif want == 'duration':
                ok = (kind == 'expr' and val.endswith('|isoDuration')) or \
                     (kind == 'literal' and bool(XS_DURATION_RE.match(val)) and val not in ('P', 'PT'))
                why = 'an xs:duration attribute must be rendered through isoDuration or be a literal PT..S'
            else:
                if kind == 'literal':
                    ok = bool(re.fullmatch(r'\d+', val))
                    why = f'literal `{val}` is not an unsigned integer'
                elif kind == 'expr':
                    base = val.split('|')[0]
                    k, _ = classify(base)
                    ok = k == 'num' or val.endswith('|int') or val.endswith('|length')
                    why = f'`{base}` is not known to be an integer'
                else:
                    why = 'mixed literal/expression value'
            rule = 'R05.2'
            if ok:
                rep.ok(rule, f'templates/{a.template}', key)
            else:
                rep.fail(rule, f'templates/{a.template}', key,
                         f'{t.name}@{a.name}: {why} (found `{val}`)')
    if is_patch:
        return
    # R05.3 required attributes of the root MPD tag
    mpd = [t for t in tags if t.name == 'MPD']
    if len(mpd) != 1:
        raise AnalysisError(f'{root}: expected exactly one <MPD start tag, found {len(mpd)}')
    mpd = mpd[0]
    periods = [t for t in tags if t.name == 'Period']
    for mode in supported_modes(rep, root):
        present: dict[str, str] = {}
        for a in mpd.attrs:
            vals = [_mode_eval(g, mode) for g in a.guards]
            if any(v is False for v in vals):
                continue
            other = [g for g, v in zip(a.guards, vals) if v is None]
            present[a.name] = 'always' if not other else 'if ' + ' and '.join(other)
        # which type is rendered on this branch?
        typ = None
        for a in mpd.attrs:
            if a.name == 'type' and a.name in present:
                vals = [_mode_eval(g, mode) for g in a.guards]
                if not any(v is False for v in vals):
                    typ = a.value_literal if a.value_literal is not None else typ
        if typ is None:
            raise AnalysisError(f'{root}: MPD@type not determined for mode={mode}')
        required = ['type', 'profiles', 'minBufferTime']
        if typ == 'dynamic':
            required += ['availabilityStartTime', 'publishTime']
        for name in required:
            key = f'mode={mode}: MPD@{name}'
            if present.get(name) == 'always':
                rep.ok('R05.3', construct, key)
            elif name in present and present[name] == f'if mpd.{name}' and name in (
                    'availabilityStartTime', 'publishTime'):
                rep.ok('R05.3', construct, key,
                       f'guarded by the truthiness of mpd.{name}, a datetime (never falsy)')
            elif name in present:
                # guarded by something else than the mode
                rep.fail('R05.3', construct, key,
                         f'required attribute MPD@{name} is only emitted {present[name]}')
            else:
                rep.fail('R05.3', construct, key,
                         f'MPD@type="{typ}" on the mode={mode} branch but MPD@{name} is not emitted')
        if typ == 'static':
            key = f'mode={mode}: mediaPresentationDuration or Period@duration'
            if present.get('mediaPresentationDuration') == 'always':
                rep.ok('R05.3', construct, key)
            else:
                all_p = periods and all(
                    any(a.name == 'duration' and all(_mode_eval(g, mode) is not False and
                                                     _mode_eval(g, mode) is not None or
                                                     _mode_eval(g, mode) is True for g in a.guards
                                                     if not g.startswith('for '))
                        for a in p.attrs) for p in periods)
                if all_p:
                    rep.ok('R05.3', construct, key, 'every Period carries duration')
                else:
                    rep.fail('R05.3', construct, key,
                             'static MPD without mediaPresentationDuration and without an '
                             'unconditional Period@duration')


ALLOWED_IDENT = {'$RepresentationID$', '$Number$', '$Time$', '$Bandwidth$', '$$'}


def r05_4(rep: Report, ts: TemplateSet) -> None:
    rid = 'R05.4'
    rel = 'dashlive/mpeg/dash/adaptation_set.py'
    tree = rep.repo.tree(rel)
    n = 0
    for node in ast.walk(tree):
        if isinstance(node, ast.Constant) and isinstance(node.value, str) and '$' in node.value:
            n += 1
            toks = re.findall(r'\$[A-Za-z]*\$', node.value)
            rest = re.sub(r'\$[A-Za-z]*\$', '', node.value)
            key = node.value
            if '$' in rest:
                rep.fail(rid, f'{rel}::AdaptationSet', key, f'unbalanced $ in URL template `{key}`', node)
            elif set(toks) <= ALLOWED_IDENT:
                rep.ok(rid, f'{rel}::AdaptationSet', key)
            else:
                rep.fail(rid, f'{rel}::AdaptationSet', key,
                         f'URL template uses identifiers {sorted(set(toks) - ALLOWED_IDENT)} that '
                         'DASH does not define', node)
    if n < 3:
        raise AnalysisError('URL template constants not found in adaptation_set.py')
    for lit in ts.literals:
        for m in re.finditer(r'(media|initialization|index)="([^"{]*\$[^"]*)"', lit.text):
            toks = re.findall(r'\$[A-Za-z]*\$', m.group(2))
            key = m.group(0)
            if set(toks) <= ALLOWED_IDENT:
                rep.ok(rid, f'templates/{lit.template}', key)
            else:
                rep.fail(rid, f'templates/{lit.template}', key,
                         f'identifiers {sorted(set(toks) - ALLOWED_IDENT)} are not DASH identifiers')


URLISH = re.compile(r'(initURL|mediaURL|rep\.baseURL|locationURL|patch\.location|timeSource\.value|'
                    r'request_uri|laurl)')


def r05_5(rep: Report, ts: TemplateSet, strength: dict[str, set[str]]) -> None:
    rid = 'R05.5'
    n = 0
    for s in ts.sinks:
        if not URLISH.search(s.expr):
            continue
        n += 1
        construct = f'templates/{s.template}'
        key = f'{s.expr}|{"|".join(s.filters)}'
        got: set[str] = set()
        for f in s.filters:
            got |= strength.get(f, set())
        if s.autoescape and 'safe' not in s.filters:
            rep.ok(rid, construct, key, 'autoescaped once')
        elif '&' in got:
            rep.ok(rid, construct, key, 'sanitised once')
        else:
            rep.fail(rid, construct, key,
                     f'URL text `{s.expr}` (query parameters are joined with &) is written without '
                     'escaping &: two or more parameters make the document ill-formed')
    if n < 20:
        raise AnalysisError(f'only {n} URL-bearing template expressions found')


def r05_6(rep: Report) -> None:
    """required numeric attributes rendered from optional fields: `<S d="{{seg.duration}}">` is
    written for every element of the lists built by Representation.generateSegmentTimeline /
    generateSegmentDurations, and SegmentTimelineElement.duration defaults to None.  Every
    `<list>.append(x)` in those producers is therefore reached only with x.duration assigned since x
    was created, or on a path whose condition implies `x.duration is not None` - otherwise the
    manifest carries d="None"."""
    from ..core import find_class as _fc, find_func as _ff, short as _short
    from ..flow import Disjunctive, Flow
    from ..pathcond import PathCond, entails as pc_entails, f_not, show as pc_show, sym_values
    rid = 'R05.6'
    rel = 'dashlive/mpeg/dash/representation.py'
    tree = rep.repo.tree(rel)
    elt = _fc(tree, 'SegmentTimelineElement')
    if elt is None:
        raise AnalysisError('SegmentTimelineElement vanished')
    optional = {x.target.id for x in elt.body if isinstance(x, ast.AnnAssign) and isinstance(x.target, ast.Name)
                and 'None' in ast.unparse(x.annotation)}
    # which optional fields do the templates print without a guard?
    unguarded: set[str] = set()
    for t in ('templates/segment/timeline.xml', 'templates/segment/durations.xml'):
        src = rep.repo.source(t)
        for m in re.finditer(r'\{\{\s*seg\.(\w+)\s*\}\}', src):
            f_ = m.group(1)
            before = src[:m.start()]
            last_if = before.rfind('{%- if seg.' + f_)
            last_if = max(last_if, before.rfind('{% if seg.' + f_))
            last_end = max(before.rfind('endif'), 0)
            if f_ in optional and not (last_if > last_end):
                unguarded.add(f_)
    if 'duration' not in unguarded:
        raise AnalysisError('S@d is no longer rendered from seg.duration without a guard (template changed)')
    cls = _fc(tree, 'Representation')
    n_appends = 0
    for name in ('generateSegmentTimeline', 'generateSegmentDurations'):
        fn = _ff(cls, name)
        if fn is None:
            raise AnalysisError(f'Representation.{name} vanished')
        construct = f'{rel}::Representation.{name}'

        sym_upd, _res = sym_values()

        def upd(st, facts):
            facts = set(sym_upd(st, frozenset(facts)))
            tgts = st.targets if isinstance(st, ast.Assign) else (
                [st.target] if isinstance(st, (ast.AnnAssign, ast.AugAssign)) else [])
            for t in tgts:
                if isinstance(t, ast.Name):
                    facts.discard(f'dur:{t.id}')
                    v = getattr(st, 'value', None)
                    if isinstance(v, ast.Call) and any(k.arg == 'duration' and not (
                            isinstance(k.value, ast.Constant) and k.value.value is None) for k in v.keywords):
                        facts.add(f'dur:{t.id}')
                elif isinstance(t, ast.Attribute) and t.attr == 'duration' and isinstance(t.value, ast.Name):
                    v = getattr(st, 'value', None)
                    if isinstance(v, ast.Constant) and v.value is None:
                        facts.discard(f'dur:{t.value.id}')
                    else:
                        facts.add(f'dur:{t.value.id}')
            return frozenset(facts)
        bad: list = []
        seen = [0]
        # lists that are handed out as they are; a list that is only read through a comprehension which
        # keeps the entries with a duration (`[r for r in runs if r.duration is not None]`) is not
        filtered: set[str] = set()
        for n_ in ast.walk(fn):
            if isinstance(n_, (ast.ListComp, ast.GeneratorExp)) and len(n_.generators) == 1 \
                    and isinstance(n_.generators[0].iter, ast.Name) and isinstance(n_.generators[0].target, ast.Name):
                v_ = n_.generators[0].target.id
                if any(norm(i_) in (f'{v_}.duration is not None', f'{v_}.duration != None') for i_ in n_.generators[0].ifs):
                    src_ = n_.generators[0].iter.id
                    other = [x_ for x_ in ast.walk(fn) if isinstance(x_, ast.Name) and x_.id == src_
                             and isinstance(x_.ctx, ast.Load) and x_ is not n_.generators[0].iter
                             and not (isinstance(getattr(x_, '_parent', None), ast.Attribute)
                                      and getattr(x_._parent, 'attr', '') == 'append')]
                    if not other:
                        filtered.add(src_)

        def on_stmt(st, states):
            if isinstance(st, (ast.If, ast.While, ast.For, ast.With, ast.Try)):
                return
            for c in ast.walk(st):
                if isinstance(c, ast.Call) and isinstance(c.func, ast.Attribute) and c.func.attr == 'append' \
                        and c.args and isinstance(c.args[0], ast.Name):
                    if isinstance(c.func.value, ast.Name) and c.func.value.id in filtered:
                        seen[0] += 1
                        continue
                    x = c.args[0].id
                    seen[0] += 1
                    for state in states:
                        if f'dur:{x}' in state[2]:
                            continue
                        if pc_entails(state[0], f_not(('atom', f'{x}.duration is None'))) is True:
                            continue
                        bad.append((c, x, pc_show(state[0])))
        Flow(Disjunctive(PathCond(upd=upd, decide=sym_upd.decide), cap=256), on_stmt=on_stmt).run(
            fn, [PathCond.initial()])
        n_appends += seen[0]
        if not seen[0]:
            raise AnalysisError(f'{name}: no S entry is appended')
        if not bad:
            rep.ok(rid, construct, 'listed S entries have a duration', f'{seen[0]} append site(s)')
        else:
            c, x, pc = bad[0]
            rep.fail(rid, construct, 'listed S entries have a duration',
                     f'`{_short(c, 50)}` lists `{x}` on a path ({pc[:90] or "entry"}) where {x}.duration was neither '
                     'assigned nor tested: when the loop body never runs (an empty time-shift window) the manifest '
                     'contains <S d="None"/>, which is not an unsigned integer', c)


def r05_7(rep: Report) -> None:
    """unsigned-integer attributes (`S@d`, `S@t`, `@timescale`, `@duration`, `@startNumber` ..) are
    rendered from Python values without a formatter, so a float prints as `176800.0`.  The values come
    from the arithmetic of dashlive/mpeg/dash and dashlive/utils; rule: a function there that is declared
    to return `int` returns no expression that is *definitely* a float (a `/` division, a float literal,
    `float(..)`, `.total_seconds()`, a call of a function declared `-> float`, or sums / products /
    floor divisions with such an operand - `7 // 2.0` is `3.0`).  Flow-insensitive over local names;
    unknown is not reported."""
    from ..index import Index
    rid = 'R05.7'
    idx = Index(rep.repo, 'dashlive')
    declared: dict[str, set[str]] = {}
    for q, f in idx.functions.items():
        if f.node.returns is not None:
            declared.setdefault(f.name, set()).add(norm(f.node.returns))

    def infer(e: ast.AST, fn: ast.AST, depth: int = 0) -> str:
        if depth > 5:
            return '?'
        if isinstance(e, ast.Constant):
            if isinstance(e.value, bool) or (isinstance(e.value, int)):
                return 'int'
            return 'float' if isinstance(e.value, float) else '?'
        if isinstance(e, ast.BinOp):
            if isinstance(e.op, ast.Div):
                return 'float'
            a, b = infer(e.left, fn, depth + 1), infer(e.right, fn, depth + 1)
            if isinstance(e.op, (ast.Add, ast.Sub, ast.Mult, ast.FloorDiv, ast.Mod)):
                if 'float' in (a, b):
                    return 'float'
                if a == b == 'int':
                    return 'int'
            return '?'
        if isinstance(e, ast.UnaryOp) and isinstance(e.op, (ast.USub, ast.UAdd)):
            return infer(e.operand, fn, depth + 1)
        if isinstance(e, ast.Call):
            name = e.func.id if isinstance(e.func, ast.Name) else (e.func.attr if isinstance(e.func, ast.Attribute) else None)
            if name in ('int', 'len', 'floor', 'ceil') or (name == 'round' and len(e.args) == 1):
                return 'int'
            if name in ('float', 'total_seconds'):
                return 'float'
            if name in declared and declared[name] == {'float'}:
                return 'float'
            if name in declared and declared[name] == {'int'}:
                return 'int'
            return '?'
        if isinstance(e, ast.IfExp):
            a, b = infer(e.body, fn, depth + 1), infer(e.orelse, fn, depth + 1)
            return 'float' if 'float' in (a, b) else (a if a == b else '?')
        if isinstance(e, ast.Name):
            ts_: set[str] = set()
            for n in ast.walk(fn):
                if isinstance(n, (ast.Assign, ast.AnnAssign)) and getattr(n, 'value', None) is not None:
                    tg = n.targets[0] if isinstance(n, ast.Assign) else n.target
                    if isinstance(tg, ast.Name) and tg.id == e.id:
                        ts_.add(infer(n.value, fn, depth + 1))
                if isinstance(n, ast.AugAssign) and isinstance(n.target, ast.Name) and n.target.id == e.id:
                    ts_.add('float' if isinstance(n.op, ast.Div) else infer(n.value, fn, depth + 1))
            if 'float' in ts_:
                return 'float'
            return 'int' if ts_ == {'int'} else '?'
        return '?'
    n = 0
    for q, f in sorted(idx.functions.items()):
        if not (f.rel.startswith('dashlive/mpeg/dash/') or f.rel.startswith('dashlive/utils/')) \
                or '/validator/' in f.rel:
            continue
        if f.node.returns is None or norm(f.node.returns) != 'int':
            continue
        inner = {id(x) for d in ast.walk(f.node) if isinstance(d, (ast.FunctionDef, ast.Lambda)) and d is not f.node
                 for x in ast.walk(d)}
        for rt in ast.walk(f.node):
            if isinstance(rt, ast.Return) and rt.value is not None and id(rt) not in inner:
                n += 1
                t = infer(rt.value, f.node)
                key = f'return {short(rt.value, 50)}'
                if t == 'float':
                    rep.fail(rid, f.construct(), key,
                             f'`{f.name}` is declared to return int and returns the float-valued `{short(rt.value, 70)}`: '
                             'the value is used in the arithmetic of segment times and durations and rendered without '
                             'a formatter (`<S d="176800.0">` is not a valid unsignedInt)', rt, file=f.rel)
                else:
                    rep.ok(rid, f.construct(), key, f'inferred {t}')
    if n < 8:
        raise AnalysisError(f'only {n} returns of int-declared functions found')


def r05_10(rep: Report) -> None:
    """no AdaptationSet is empty because of a stale read: `mf.parse_media_file()` indexes a media file during the
    request and REPLACES what `mf.representation` returns.  A local that was given `mf.representation` before
    that call still holds the old value (None for a file that was not indexed) - testing or listing it afterwards
    leaves the freshly indexed file out of the AdaptationSet.  May-analysis per function: a local assigned from
    `<x>.representation` becomes stale at `<x>.parse_media_file(..)` (also `modify_media_file`, the
    `representation` setter) and must not be read before it is assigned again."""
    from ..flow import Flow, MayFacts
    rid = 'R05.10'
    mutators = ('parse_media_file', 'modify_media_file', 'set_representation')
    n_calls = 0
    for rel in rep.repo.py_files('dashlive/server'):
        src = rep.repo.source(rel)
        if not any(m_ + '(' in src for m_ in mutators):
            continue
        for cls_, fn in rep.repo.expanded_functions(rel):
            calls = [c for c in ast.walk(fn) if isinstance(c, ast.Call) and isinstance(c.func, ast.Attribute)
                     and c.func.attr in mutators and isinstance(c.func.value, ast.Name)]
            if not calls:
                continue
            n_calls += len(calls)
            construct = f'{rel}::{(cls_.name + ".") if cls_ else ""}{fn.name}'

            def simple(st):
                return not isinstance(st, (ast.If, ast.For, ast.While, ast.Try, ast.With))

            def gen(st):
                out = []
                if isinstance(st, (ast.Assign, ast.AnnAssign)) and getattr(st, 'value', None) is not None:
                    tg = st.targets[0] if isinstance(st, ast.Assign) else st.target
                    v = st.value
                    if isinstance(tg, ast.Name) and isinstance(v, ast.Attribute) and v.attr == 'representation' \
                            and isinstance(v.value, ast.Name):
                        out.append(('cap', tg.id, v.value.id))
                return out

            def kill(st, facts):
                dead = []
                stored = {x.id for x in ast.walk(st) if isinstance(x, ast.Name) and isinstance(x.ctx, ast.Store)} if simple(st) else set()
                if isinstance(st, ast.For):
                    stored = {x.id for x in ast.walk(st.target) if isinstance(x, ast.Name)}
                for f in facts:
                    if f[1] in stored or (f[0] == 'cap' and f[2] in stored):
                        dead.append(f)
                return dead

            class D(MayFacts):
                def transfer(self, stmt, s):
                    s = super().transfer(stmt, s)
                    if simple(stmt):
                        for c in ast.walk(stmt):
                            if isinstance(c, ast.Call) and isinstance(c.func, ast.Attribute) and c.func.attr in mutators \
                                    and isinstance(c.func.value, ast.Name):
                                s = s | frozenset(('stale', f[1], f[2]) for f in s if f[0] == 'cap' and f[2] == c.func.value.id)
                    return s

                def assume(self, test, s, truth):
                    # `if x.parse_media_file():` - the call happens while the test is evaluated
                    for c in ast.walk(test):
                        if isinstance(c, ast.Call) and isinstance(c.func, ast.Attribute) and c.func.attr in mutators \
                                and isinstance(c.func.value, ast.Name):
                            s = s | frozenset(('stale', f[1], f[2]) for f in s if f[0] == 'cap' and f[2] == c.func.value.id)
                    return s
            hits: dict[str, ast.AST] = {}

            def on_stmt(st, s):
                reads = st.test if isinstance(st, (ast.If, ast.While)) else st.iter if isinstance(st, ast.For) else \
                    st if simple(st) else None
                if reads is None:
                    return
                for x in ast.walk(reads):
                    if isinstance(x, ast.Name) and isinstance(x.ctx, ast.Load):
                        for f in s:
                            if f[0] == 'stale' and f[1] == x.id:
                                hits.setdefault(f'{x.id} after {f[2]}.parse_media_file()', st)
            Flow(D(gen, kill), on_stmt=on_stmt).run(fn, frozenset())
            if hits:
                for key, st in hits.items():
                    name = key.split(' ', 1)[0]
                    rep.fail(rid, construct, key,
                             f'`{name}` was read from `.representation` before the media file was indexed and is used again at '
                             f'`{norm(st)[:70]}` after the call that replaces it: a file indexed during this request still looks '
                             'un-indexed (None) and is left out - an AdaptationSet without Representations on the first '
                             'request after an upload', st)
            else:
                rep.ok(rid, construct, f'{len(calls)} indexing call(s)', 'no local holds the representation across the call')
    if n_calls < 2:
        raise AnalysisError(f'only {n_calls} indexing call(s) (parse_media_file) found under dashlive/server')


def analyse(rep: Report) -> None:
    rep.explanation = (
        'Every manifest-side template (9 .mpd, the patch template and the 17 files they include) '
        'is parsed with the Jinja2 parser; an XML tokenizer over the literal template text gives '
        'each output expression its lexical context (element content / quoted attribute / inside '
        'tag), its filter chain and guard stack. Rules over these facts decide, for every stored '
        'string and request at once, that text which can carry user input reaches XML only '
        'through a sanitiser strong enough for its context, that typed attributes use their '
        'lexical formatter, that the attributes required for MPD@type exist on every mode branch '
        'and that URL templates use DASH identifiers only. Id uniqueness, non-empty '
        'AdaptationSets and non-negativity are run-time facts and not decided.')
    rep.rule('R05.0', 'xmlSafe neutralises at least &, inert formatter filters are registered', floor=6)
    rep.rule('R05.1', 'text that may carry stored/requested strings is sanitised for its XML context',
             floor=100)
    rep.rule('R05.2', 'typed attributes use their lexical formatter', floor=100)
    rep.rule('R05.3', 'attributes required for MPD@type are present on every supported mode branch', floor=50)
    rep.rule('R05.4', 'URL templates use only DASH identifiers', floor=3)
    rep.rule('R05.5', 'URL/query text is escaped exactly once on its way into XML', floor=20)
    rep.rule('R05.6', 'S entries are listed only with a duration (S@d is rendered without a guard)', floor=2)
    rep.rule('R05.7', 'functions declared to return int return no float-valued expression', floor=8)
    rep.rule('R05.8', 'the formatters behind isoDateTime / isoDuration keep the xs:dateTime / xs:duration lexical form (rules of C19)', floor=1)
    rep.rule('R05.10', 'a representation read before a media file is indexed is not used after the indexing call', floor=2)
    rep.rule('R05.9', 'durations handed to isoDuration are non-negative (timeShiftBufferDepth: rules of C08)', floor=1)
    global _INDEX
    from ..index import Index
    _INDEX = Index(rep.repo, 'dashlive/mpeg/dash')
    strength = sanitiser_strength(rep)
    ts = TemplateSet(rep.repo)
    roots = [f'manifests/{m}' for m in MANIFESTS] + [f'patches/{p}' for p in PATCHES]
    for r in roots:
        if not rep.repo.exists(f'templates/{r}'):
            raise AnalysisError(f'template {r} vanished')
        ts.analyse_root(r)
    # all manifest templates on disk are analysed (a new one must not escape the check)
    on_disk = {p.split('templates/manifests/')[1] for p in rep.repo.files('templates/manifests', ('.mpd',))}
    if on_disk - set(MANIFESTS):
        for extra in sorted(on_disk - set(MANIFESTS)):
            ts.analyse_root(f'manifests/{extra}')
            roots.append(f'manifests/{extra}')
    rep.extra['templates_analysed'] = sorted({s.template for s in ts.sinks} | set(roots))
    rep.extra['output_expressions'] = len(ts.sinks)
    rep.extra['distinct_expressions'] = len({(s.expr, tuple(s.filters)) for s in ts.sinks})
    r05_1(rep, ts, strength)
    for r in roots:
        r05_2_3(rep, ts, r)
    r05_4(rep, ts)
    r05_5(rep, ts, strength)
    r05_6(rep)
    r05_7(rep)
    r05_10(rep)
    from .c19 import lift_into
    lift_into(rep, 'R05.8', ('R19.1', 'R19.3', 'R19.4', 'R19.5'), 'date-time and duration formatters')
    from ..core import lift
    from . import c08 as _c08
    lift(rep, 'R05.9', 'C08', _c08.analyse, ('R08.3', 'R08.4'), 'dashlive/mpeg/dash/timing.py::DashTiming.calculate_live_params',
         'timeShiftBufferDepth >= 0 on every path', only=lambda f: f.key.startswith(('depth>=0', 'first')))
    rep.assumptions = [
        'Flask autoescapes templates named .html .htm .xml .xhtml .svg and nothing else',
        'field table: which expressions are numeric / fixed vocabulary / file-derived / free text '
        '(confirmed by reading the context classes); an expression that is not in the table is '
        'treated as free text',
        'file-derived strings (codec strings, packed ISO-639 language, secure_filename stems) use '
        'XML-inert alphabets',
    ]

"""E6 - Jinja2 template analyser (parser only: nothing is rendered).

For every template reachable from a root template through literal
{% include %}, walks the Jinja AST in document order while a small XML
tokenizer runs over the literal template data, so that each output expression
is recorded with

  * the template file it is written in and that file's autoescape status
    (Flask's rule: .html .htm .xml .xhtml .svg on, everything else off),
  * its filter chain, the stack of enclosing {% if %}/{% for %}/{% with %} tests,
  * its lexical XML context: element content, double/single quoted attribute
    value (with element and attribute name), or inside a tag.
"""
from __future__ import annotations

import re
from dataclasses import dataclass, field

import jinja2
from jinja2 import nodes

from .core import AnalysisError, Repo

AUTOESCAPE_EXT = ('.html', '.htm', '.xml', '.xhtml', '.svg')

CONTENT, TAG, ATTR_DQ, ATTR_SQ, COMMENT, PI, CLOSE = (
    'content', 'tag', 'attr-dq', 'attr-sq', 'comment', 'pi', 'close-tag')


@dataclass
class XState:
    mode: str = CONTENT
    tag: str = ''
    attr: str = ''
    stack: tuple = ()          # open elements
    pending_name: str = ''     # partial token

    def key(self):
        if self.mode in (ATTR_DQ, ATTR_SQ):
            return (self.mode, self.tag, self.attr)
        if self.mode == TAG:
            return (self.mode, self.tag, '')
        return (self.mode, '', '')

    def copy(self) -> 'XState':
        return XState(self.mode, self.tag, self.attr, self.stack, self.pending_name)


def feed(st: XState, text: str, opened: list | None = None) -> XState:
    """advance the XML tokenizer over literal text"""
    s = st.copy()
    i, n = 0, len(text)
    while i < n:
        c = text[i]
        if s.mode == CONTENT:
            j = text.find('<', i)
            if j < 0:
                break
            if text.startswith('<!--', j):
                s.mode = COMMENT
                i = j + 4
            elif text.startswith('<?', j):
                s.mode = PI
                i = j + 2
            elif text.startswith('</', j):
                s.mode = CLOSE
                i = j + 2
            else:
                m = re.match(r'<([A-Za-z_][\w:.\-]*)?', text[j:])
                s.mode = TAG
                s.tag = m.group(1) or ''
                s.attr = ''
                s.pending_name = ''
                if opened is not None:
                    opened.append(s.tag)
                i = j + len(m.group(0))
        elif s.mode == COMMENT:
            j = text.find('-->', i)
            if j < 0:
                break
            s.mode = CONTENT
            i = j + 3
        elif s.mode == PI:
            j = text.find('?>', i)
            if j < 0:
                break
            s.mode = CONTENT
            i = j + 2
        elif s.mode == CLOSE:
            j = text.find('>', i)
            if j < 0:
                break
            s.mode = CONTENT
            i = j + 1
        elif s.mode == TAG:
            if c == '>':
                s.mode = CONTENT
                i += 1
            elif c == '/' and text.startswith('/>', i):
                s.mode = CONTENT
                i += 2
            elif c == '"':
                s.mode = ATTR_DQ
                s.attr = s.pending_name
                s.pending_name = ''
                i += 1
            elif c == "'":
                s.mode = ATTR_SQ
                s.attr = s.pending_name
                s.pending_name = ''
                i += 1
            elif c.isspace():
                if s.pending_name and not s.pending_name.endswith('='):
                    pass
                i += 1
            elif c == '=':
                i += 1
            else:
                m = re.match(r'[\w:.\-]+', text[i:])
                if m:
                    if not s.tag and not s.attr and not s.pending_name and False:
                        pass
                    s.pending_name = m.group(0)
                    i += len(m.group(0))
                else:
                    i += 1
        elif s.mode == ATTR_DQ:
            j = text.find('"', i)
            if j < 0:
                break
            s.mode = TAG
            i = j + 1
        elif s.mode == ATTR_SQ:
            j = text.find("'", i)
            if j < 0:
                break
            s.mode = TAG
            i = j + 1
    return s


@dataclass
class Sink:
    template: str             # file the expression is written in
    root_template: str
    line: int
    expr: str                 # source-ish text of the expression without filters
    filters: list[str]
    node: nodes.Node
    guards: list[str]
    mode: str
    tag: str
    attr: str
    autoescape: bool
    literal_before: str = ''
    literal_after: str = ''


@dataclass
class Literal:
    template: str
    line: int
    text: str
    guards: list[str]


def expr_text(n: nodes.Node) -> str:
    if isinstance(n, nodes.Name):
        return n.name
    if isinstance(n, nodes.Getattr):
        return f'{expr_text(n.node)}.{n.attr}'
    if isinstance(n, nodes.Getitem):
        return f'{expr_text(n.node)}[{expr_text(n.arg)}]'
    if isinstance(n, nodes.Const):
        return repr(n.value)
    if isinstance(n, nodes.Call):
        args = ', '.join(expr_text(a) for a in n.args)
        return f'{expr_text(n.node)}({args})'
    if isinstance(n, nodes.Filter):
        args = ', '.join(expr_text(a) for a in n.args)
        inner = expr_text(n.node) if n.node is not None else ''
        return f'{inner}|{n.name}' + (f'({args})' if args else '')
    if isinstance(n, nodes.Compare):
        return expr_text(n.expr) + ''.join(f' {o.op} {expr_text(o.expr)}' for o in n.ops)
    if isinstance(n, nodes.Not):
        return f'not {expr_text(n.node)}'
    if isinstance(n, nodes.And):
        return f'{expr_text(n.left)} and {expr_text(n.right)}'
    if isinstance(n, nodes.Or):
        return f'{expr_text(n.left)} or {expr_text(n.right)}'
    if isinstance(n, nodes.BinExpr):
        return f'{expr_text(n.left)} {n.operator} {expr_text(n.right)}'
    if isinstance(n, nodes.Test):
        return f'{expr_text(n.node)} is {n.name}'
    if isinstance(n, nodes.CondExpr):
        return f'{expr_text(n.expr1)} if {expr_text(n.test)} else {expr_text(n.expr2)}'
    if isinstance(n, nodes.Concat):
        return ' ~ '.join(expr_text(x) for x in n.nodes)
    return type(n).__name__


def split_filters(n: nodes.Node) -> tuple[nodes.Node, list[str]]:
    filters: list[str] = []
    while isinstance(n, nodes.Filter):
        filters.append(n.name)
        n = n.node
    return n, list(reversed(filters))


class TemplateSet:
    def __init__(self, repo: Repo, base: str = 'templates') -> None:
        self.repo = repo
        self.base = base
        self.env = jinja2.Environment()
        self.sinks: list[Sink] = []
        self.literals: list[Literal] = []
        self.calls: list[tuple[str, str, list[str]]] = []     # (template, call text, guards)
        self.includes: dict[str, list[str]] = {}
        self.macros: dict[tuple[str, str], nodes.Macro] = {}
        self.sets: dict[tuple[str, str], tuple] = {}     # (template, name) -> (expression, filters) of {% set %}
        self.parsed: dict[str, nodes.Template] = {}
        self.tags: list[tuple[str, str, list[str], list[tuple[str, str]]]] = []

    def autoescape(self, name: str) -> bool:
        return name.endswith(AUTOESCAPE_EXT)

    def parse(self, name: str) -> nodes.Template:
        if name not in self.parsed:
            rel = f'{self.base}/{name}'
            try:
                self.parsed[name] = self.env.parse(self.repo.source(rel), name=name)
            except jinja2.TemplateSyntaxError as err:
                raise AnalysisError(f'template {name}: {err}')
        return self.parsed[name]

    def analyse_root(self, name: str) -> None:
        st = XState()
        end = self._walk_template(name, name, st, [], set())
        if end.mode != CONTENT:
            raise AnalysisError(f'template {name} ends inside `{end.mode}` (XML tokenizer lost sync)')

    def _walk_template(self, name: str, root: str, st: XState, guards: list[str],
                       active: set[str]) -> XState:
        if name in active:
            raise AnalysisError(f'recursive include of {name}')
        tree = self.parse(name)
        return self._walk(tree.body, name, root, st, guards, active | {name})

    def _walk(self, body, name: str, root: str, st: XState, guards: list[str],
              active: set[str]) -> XState:
        for n in body:
            st = self._node(n, name, root, st, guards, active)
        return st

    def _node(self, n, name: str, root: str, st: XState, guards: list[str],
              active: set[str]) -> XState:
        if isinstance(n, nodes.Output):
            items = n.nodes
            for i, item in enumerate(items):
                if isinstance(item, nodes.TemplateData):
                    self.literals.append(Literal(name, item.lineno, item.data, list(guards)))
                    st = feed(st, item.data)
                elif isinstance(item, nodes.Call) and isinstance(item.node, nodes.Name) \
                        and (name, item.node.name) in self.macros:
                    # {{ macro(args) }}: the macro body is written here, parameters bound like `with`
                    mac = self.macros[(name, item.node.name)]
                    params = [a.name for a in mac.args]
                    binds = ', '.join(f'{p_}={expr_text(a)}' for p_, a in zip(params, item.args))
                    binds += ''.join(f', {k.key}={expr_text(k.value)}' for k in item.kwargs)
                    if (name, item.node.name) in active:
                        raise AnalysisError(f'{name}:{item.lineno}: recursive macro {item.node.name}')
                    for c in item.find_all(nodes.Call):
                        if c is not item:
                            self.calls.append((name, expr_text(c), list(guards)))
                    st = self._walk(mac.body, name, root, st, guards + [f'with {binds}'],
                                    active | {(name, item.node.name)})
                else:
                    base, filters = split_filters(item)
                    if isinstance(base, nodes.Name) and (name, base.name) in self.sets:
                        sbase, sfilters = self.sets[(name, base.name)]
                        base, filters = sbase, list(sfilters) + list(filters)
                    before = items[i - 1].data if i > 0 and isinstance(items[i - 1], nodes.TemplateData) else ''
                    after = items[i + 1].data if i + 1 < len(items) and isinstance(
                        items[i + 1], nodes.TemplateData) else ''
                    self.sinks.append(Sink(name, root, item.lineno, expr_text(base), filters, item,
                                           list(guards), st.mode, st.tag, st.attr,
                                           self.autoescape(name), before[-60:], after[:30]))
                    for c in item.find_all(nodes.Call):
                        self.calls.append((name, expr_text(c), list(guards)))
            return st
        if isinstance(n, nodes.If):
            test = expr_text(n.test)
            ends = [self._walk(n.body, name, root, st.copy(), guards + [test], active)]
            for e in n.elif_:
                ends.append(self._walk(e.body, name, root, st.copy(),
                                       guards + [expr_text(e.test)], active))
            ends.append(self._walk(n.else_, name, root, st.copy(), guards + [f'not ({test})'], active)
                        if n.else_ else st.copy())
            keys = {e.key() for e in ends}
            if len(keys) > 1:
                raise AnalysisError(
                    f'{name}:{n.lineno}: branches of `if {test}` leave the XML tokenizer in '
                    f'different states {sorted(keys)}')
            return ends[0]
        if isinstance(n, nodes.For):
            it = f'for {expr_text(n.target)} in {expr_text(n.iter)}'
            end = self._walk(n.body, name, root, st.copy(), guards + [it], active)
            if end.key() != st.key():
                raise AnalysisError(f'{name}:{n.lineno}: loop body changes the XML state')
            if n.else_:
                self._walk(n.else_, name, root, st.copy(), guards, active)
            return st
        if isinstance(n, nodes.With):
            binds = ', '.join(f'{expr_text(t)}={expr_text(v)}' for t, v in zip(n.targets, n.values))
            for v in n.values:
                for c in v.find_all(nodes.Call):
                    self.calls.append((name, expr_text(c), list(guards)))
            return self._walk(n.body, name, root, st, guards + [f'with {binds}'], active)
        if isinstance(n, nodes.Include):
            if not isinstance(n.template, nodes.Const):
                raise AnalysisError(f'{name}:{n.lineno}: non-literal include')
            inc = n.template.value
            self.includes.setdefault(name, []).append(inc)
            if st.mode != CONTENT:
                raise AnalysisError(f'{name}:{n.lineno}: include inside `{st.mode}`')
            return self._walk_template(inc, root, st, guards, active)
        if isinstance(n, (nodes.Assign,)):
            for c in n.node.find_all(nodes.Call):
                self.calls.append((name, expr_text(c), list(guards)))
            # {% set x = expr|filters %}: a later {{ x }} writes that expression through those filters
            if isinstance(n.target, nodes.Name):
                base, filters = split_filters(n.node)
                self.sets[(name, n.target.name)] = (base, filters)
            return st
        if isinstance(n, nodes.Macro):
            if n.defaults:
                raise AnalysisError(f'{name}:{n.lineno}: macro {n.name} with default arguments')
            self.macros[(name, n.name)] = n
            return st
        if isinstance(n, (nodes.AssignBlock, nodes.FilterBlock, nodes.CallBlock,
                          nodes.Block, nodes.Extends, nodes.Import, nodes.FromImport)):
            raise AnalysisError(f'{name}:{n.lineno}: unsupported construct {type(n).__name__}')
        if isinstance(n, nodes.Scope):
            return self._walk(n.body, name, root, st, guards, active)
        return st

    def reachable(self, root: str) -> set[str]:
        out = {root}
        stack = [root]
        while stack:
            t = stack.pop()
            for i in self.includes.get(t, []):
                if i not in out:
                    out.add(i)
                    stack.append(i)
        return out


# --------------------------------------------------------------------------
# literal start-tags of a template (with the attributes and the guards under
# which each attribute is emitted) - used by the structural MPD rules
# --------------------------------------------------------------------------
@dataclass
class AttrOcc:
    name: str
    value_literal: str | None       # literal text if the whole value is literal
    value_exprs: list[Sink]
    guards: list[str]
    template: str
    line: int


@dataclass
class TagOcc:
    name: str
    template: str
    line: int
    guards: list[str]
    attrs: list[AttrOcc] = field(default_factory=list)


def collect_tags(ts: TemplateSet, root: str) -> list[TagOcc]:
    """second walk that groups attributes per start tag occurrence"""
    tags: list[TagOcc] = []

    class W:
        def __init__(self):
            self.st = XState()
            self.cur: TagOcc | None = None
            self.cur_attr: AttrOcc | None = None
            self.attr_text: list[str] = []

    w = W()

    def feed_text(text: str, name: str, line: int, guards: list[str]):
        # character-level replay so that tag/attribute boundaries are seen
        for ch_i in range(len(text)):
            prev = w.st
            nxt = feed(prev, text[ch_i], None) if False else None
        # (simple approach: use regex scanning on mode transitions)
        pos = 0
        while pos < len(text):
            st = w.st
            if st.mode == CONTENT:
                m = re.search(r'<(?![!?/])([A-Za-z_][\w:.\-]*)?', text[pos:])
                m2 = re.search(r'<!--|<\?|</', text[pos:])
                if m2 and (not m or m2.start() <= m.start()):
                    new = feed(st, text[pos:pos + m2.end()])
                    w.st = new
                    pos += m2.end()
                    continue
                if not m:
                    return
                w.st = feed(st, text[pos:pos + m.end()])
                w.cur = TagOcc(w.st.tag, name, line + text[:pos + m.start()].count('\n'),
                               list(guards))
                tags.append(w.cur)
                pos += m.end()
            elif st.mode in (COMMENT, PI, CLOSE):
                term = {'comment': '-->', 'pi': '?>', 'close-tag': '>'}[st.mode]
                j = text.find(term, pos)
                if j < 0:
                    return
                w.st = feed(st, text[pos:j + len(term)])
                pos = j + len(term)
            elif st.mode == TAG:
                m = re.match(r'\s*([\w:.\-]+)\s*=\s*(["\'])', text[pos:])
                if m:
                    w.st = feed(st, text[pos:pos + m.end()])
                    w.cur_attr = AttrOcc(m.group(1), '', [], list(guards), name,
                                         line + text[:pos].count('\n'))
                    w.attr_text = []
                    if w.cur is not None:
                        w.cur.attrs.append(w.cur_attr)
                    pos += m.end()
                    continue
                m = re.match(r'\s*(/?>)', text[pos:])
                if m:
                    w.st = feed(st, text[pos:pos + m.end()])
                    w.cur = None
                    pos += m.end()
                    continue
                m = re.match(r'\s+|[^\s>"\'=/]+|=|/', text[pos:])
                if not m:
                    pos += 1
                    continue
                w.st = feed(st, text[pos:pos + m.end()])
                pos += m.end()
            elif st.mode in (ATTR_DQ, ATTR_SQ):
                q = '"' if st.mode == ATTR_DQ else "'"
                j = text.find(q, pos)
                if j < 0:
                    w.attr_text.append(text[pos:])
                    w.st = feed(st, text[pos:])
                    return
                w.attr_text.append(text[pos:j])
                if w.cur_attr is not None:
                    if not w.cur_attr.value_exprs:
                        w.cur_attr.value_literal = ''.join(w.attr_text)
                    else:
                        w.cur_attr.value_literal = None
                w.st = feed(st, text[pos:j + 1])
                w.cur_attr = None
                pos = j + 1

    def walk(body, name, guards):
        for n in body:
            if isinstance(n, nodes.Output):
                for item in n.nodes:
                    if isinstance(item, nodes.TemplateData):
                        feed_text(item.data, name, item.lineno, guards)
                    else:
                        if isinstance(item, nodes.Call) and isinstance(item.node, nodes.Name) \
                                and (name, item.node.name) in ts.macros:
                            walk(ts.macros[(name, item.node.name)].body, name, guards)
                            continue
                        if w.st.mode in (ATTR_DQ, ATTR_SQ) and w.cur_attr is not None:
                            base, filters = split_filters(item)
                            if isinstance(base, nodes.Name) and (name, base.name) in ts.sets:
                                sbase, sfilters = ts.sets[(name, base.name)]
                                base, filters = sbase, list(sfilters) + list(filters)
                            w.cur_attr.value_exprs.append(
                                Sink(name, root, item.lineno, expr_text(base), filters, item,
                                     list(guards), w.st.mode, w.st.tag, w.st.attr,
                                     ts.autoescape(name)))
                            w.cur_attr.value_literal = None
            elif isinstance(n, nodes.If):
                test = expr_text(n.test)
                save = (w.st.copy(), w.cur, w.cur_attr)
                walk(n.body, name, guards + [test])
                for e in n.elif_:
                    w.st, w.cur, w.cur_attr = save[0].copy(), save[1], save[2]
                    walk(e.body, name, guards + [expr_text(e.test)])
                if n.else_:
                    w.st, w.cur, w.cur_attr = save[0].copy(), save[1], save[2]
                    walk(n.else_, name, guards + [f'not ({test})'])
                if w.st.mode == TAG and save[0].mode == TAG:
                    w.cur = save[1]
            elif isinstance(n, nodes.For):
                walk(n.body, name, guards + [f'for {expr_text(n.target)} in {expr_text(n.iter)}'])
            elif isinstance(n, nodes.With):
                walk(n.body, name, guards)
            elif isinstance(n, nodes.Include) and isinstance(n.template, nodes.Const):
                walk(ts.parse(n.template.value).body, n.template.value, guards)
            elif isinstance(n, nodes.Scope):
                walk(n.body, name, guards)

    walk(ts.parse(root).body, root, [])
    return tags

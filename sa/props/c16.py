"""C16 - no uncontrolled failure; injected errors fire exactly as asked (partial).

Entry points are the routed (handler class, verb) pairs.

R16.1  explicit `raise` signals that can escape an entry point (interprocedural
       escape analysis over the resolved call graph, handlers matched against
       the exception hierarchy) are either mapped to 4xx by an enclosing
       handler or listed in the triage table (finding / unreachable+invariant).
R16.2  assertions on request-controlled values are treated the same way.
R16.3  parser entry points fed with uploaded/remote bytes sit under a handler.
R16.4  while-loops on request paths whose counter advances by `v += e` have a
       provably positive step (constant, dominating guard, max(1, e)) or an
       entry in the confirmed table.
R16.6  definite conversion crashes: int(x, base) where x is known to be an int.
R16.7  synthetic errors are addressed by equality, counted only when matched,
       and literal 5xx responses exist only where the injected code is used.
R16.5  (thorough) definite-crash lint with mypy: attributes that do not exist
       on modules / builtin types at sites reachable from an entry point.
"""
from __future__ import annotations

import ast
import re

from ..core import (AnalysisError, Report, call_name, dotted, enclosing_class, enclosing_function, find_class,
                    find_func, need, norm, short, ancestors, parent, subst_locals)
from ..escape import Escapes, Signal
from ..flow import Flow, MustFacts
from ..index import CallGraph, FuncInfo, Index, read_routes, verb_methods

RH = 'dashlive/server/requesthandler'

# ---------------------------------------------------------------------------
# triage table for R16.1 / R16.2, confirmed by reading.  key = (origin function
# suffix, substring of the normalised statement).  'unreachable' rows carry the
# invariant that makes the signal impossible on a request path; everything not
# listed here is reported.
# ---------------------------------------------------------------------------
UNREACHABLE: list[tuple[str, str, str, str]] = [
    # (entry filter ('' = any), origin function suffix, needle in statement, invariant)
    ('', 'ManifestContext.__init__', 'Either Stream or MultiPeriodStream',
     'all construction sites pass a stream or a multi-period stream fetched by the route '
     'decorators'),
    ('', 'NavBarItem.__post_init__', 'href is required',
     'every NavBarItem construction passes href= or active=True (literal keyword arguments)'),
    ('', 'PlayReady.generate_content_key', 'KID should be a raw 16 byte',
     'callers pass KeyMaterial.raw, whose length KeyMaterial.__init__ has validated'),
    ('', 'PlayReady.generate_content_key', 'Key seed must be at least 30',
     'the seed is the class constant TEST_KEY_SEED'),
    ('', 'PlayReady.hex_to_le_guid', 'GUID should be',
     'callers pass KeyMaterial values of validated length'),
    ('', 'LiveMedia.calculate_media_segment_index', 'raise err',
     're-raise of the ValueError caught two lines above; the caller maps ValueError to 404'),
    ('', 'ServeMpsInitSeg.calculate_media_segment_index', 'Not applicable to init',
     'only generate_media_segment calls it and ServeMpsInitSeg.get never calls that'),
    ('IndexMediaFile.', 'KeyMaterial.__init__', 'raise ValueError',
     'parse_media_file builds KeyMaterial(raw=<16-byte content key from generate_content_key>)'),
    ('EditMedia.', 'KeyMaterial.__init__', 'raise ValueError',
     'parse_media_file builds KeyMaterial(raw=<16-byte content key from generate_content_key>)'),
    ('', 'MediaRequestBase.generate_media_segment', 'assert mod_segment is not None',
     'every calculate_media_segment_index implementation returns an int first component'),
    ('', 'MediaRequestBase.generate_media_segment', 'assert isinstance(mod_segment, int)',
     'every calculate_media_segment_index implementation returns an int first component'),
    ('', 'MediaRequestBase.generate_media_segment', 'assert origin_time is not None',
     'every calculate_media_segment_index implementation returns an int second component'),
    ('', 'MediaRequestBase.generate_media_segment', 'assert isinstance(origin_time, int)',
     'every calculate_media_segment_index implementation returns an int second component'),
    ('', 'MediaRequestBase.generate_media_segment', 'assert mod_segment >= 0 and',
     'LiveMedia: calculate_segment_number_and_time raises ValueError outside 1..n; ServeMpsMedia: '
     'get_segment_index returns >= 1, seg_num >= 0 by the int route converter, and the upper bound '
     'is tested explicitly before the return'),
    ('LiveMedia.', 'MediaRequestBase.generate_media_segment', 'assert sn is not None',
     'LiveMedia.calculate_media_segment_index returns the number computed by '
     'calculate_segment_number_and_time, never None'),
]

# signals that are unreachable *because an option parser validates the value* - only accepted
# while rule R16.8 (validator/consumer agreement) holds on the current tree
VALIDATED: list[tuple[str, str, str]] = [
    ('DrmContext.generate_drm_location_tuples', 'assert drm_name in DrmSystem.values()', 'drm'),
    ('TimeSourceContext.__init__', 'Unknown time method', 'time'),
]


def triage(sig: Signal, entry: str = '', validated_ok: set[str] | None = None
           ) -> tuple[str, str] | None:
    for ent, origin, needle, why in UNREACHABLE:
        if (not ent or ent in entry) and sig.origin.endswith(origin) and needle in sig.key:
            return ('unreachable', why)
    for origin, needle, opt in VALIDATED:
        if sig.origin.endswith(origin) and needle in sig.key and validated_ok \
                and opt in validated_ok:
            return ('unreachable', f'the `{opt}` option parser rejects every value this '
                                   f'consumer does not handle (R16.8 holds)')
    return None


def entry_points(idx: Index):
    seen = set()
    for r in read_routes(idx):
        if r.cls is None:
            continue
        for verb, m in verb_methods(idx, r.cls).items():
            if (r.cls.qual, m.qual) in seen:
                continue
            seen.add((r.cls.qual, m.qual))
            yield r, verb, m


# ---------------------------------------------------------------------------
# taint (R16.2)
# ---------------------------------------------------------------------------
SEED_PARAMS = {'options', 'opts', 'seg_num', 'seg_time', 'segment_num', 'segment_time',
               'publish'}


def tainted_names(fn: ast.FunctionDef) -> set[str]:
    """names that hold request text or a number computed from it.  Objects *constructed*
    from options (AdaptationSet(mode=options.mode)) are not request values; results of a
    call are tainted only when a tainted name is passed as a whole argument to a method of
    self (calculate_*/get_*) or to a builtin conversion."""
    t: set[str] = set()
    for a in fn.args.args + fn.args.kwonlyargs:
        if a.arg in SEED_PARAMS:
            t.add(a.arg)
    changed = True
    while changed:
        changed = False
        for n in ast.walk(fn):
            tgts = []
            val = None
            if isinstance(n, ast.Assign):
                tgts, val = n.targets, n.value
            elif isinstance(n, ast.AnnAssign) and n.value is not None:
                tgts, val = [n.target], n.value
            elif isinstance(n, (ast.For, ast.comprehension)):
                tgts, val = [n.target], n.iter
            if val is None:
                continue
            if _flows(val, t):
                for tg in tgts:
                    for nm in ast.walk(tg):
                        if isinstance(nm, ast.Name) and nm.id not in t:
                            t.add(nm.id)
                            changed = True
    return t


def _flows(e: ast.AST, t: set[str]) -> bool:
    if isinstance(e, ast.Name):
        return e.id in t
    if isinstance(e, ast.Attribute):
        d = dotted(e) or ''
        if d.startswith('flask.request') or d.startswith('self.options.'):
            return True
        return _flows(e.value, t)
    if isinstance(e, ast.Subscript):
        return _flows(e.value, t)
    if isinstance(e, (ast.Tuple, ast.List)):
        return any(_flows(x, t) for x in e.elts)
    if isinstance(e, ast.BinOp):
        return _flows(e.left, t) or _flows(e.right, t)
    if isinstance(e, ast.IfExp):
        return _flows(e.body, t) or _flows(e.orelse, t)
    if isinstance(e, ast.Call):
        cn = call_name(e) or ''
        whole = any(isinstance(a, ast.Name) and a.id in t and a.id not in ('options', 'opts')
                    for a in e.args)
        if cn in ('int', 'float', 'str', 'abs', 'min', 'max'):
            return any(_flows(a, t) for a in e.args)
        if cn.startswith('self.calculate_') or cn.startswith('self.get_'):
            return whole
        if isinstance(e.func, ast.Attribute) and _flows(e.func.value, t):
            return True
        return False
    return False


def _mentions(e: ast.AST, t: set[str]) -> bool:
    for n in ast.walk(e):
        if isinstance(n, ast.Name) and n.id in t and n.id not in ('options', 'opts'):
            return True
        if isinstance(n, ast.Attribute) and _flows(n, t):
            return True
    return False


# ---------------------------------------------------------------------------
PARSER_INTERNALS = ('dashlive/mpeg/mp4.py', 'dashlive/utils/fio/', 'dashlive/mpeg/nal.py',
                    'dashlive/utils/object_with_fields.py', 'dashlive/utils/list_of.py',
                    'dashlive/utils/binary.py', 'dashlive/mpeg/dash/representation.py')


def r16_1_2(rep: Report, idx: Index, cg: CallGraph, validated_ok: set[str]) -> None:
    esc = Escapes(idx, cg, with_asserts=True)
    n_entries = 0
    skipped_parser = 0
    for r, verb, m in entry_points(idx):
        n_entries += 1
        econstruct = f'{m.rel}::{r.cls.name}.{verb}'
        for sig, chain in sorted(esc.escapes(m, r.cls).items(),
                                 key=lambda kv: (kv[0].origin, kv[0].key)):
            f = idx.functions.get(sig.origin)
            origin_short = sig.origin.replace('dashlive.', '')
            if sig.rel.startswith(PARSER_INTERNALS) and sig.kind != 'assert' or (
                    sig.kind == 'assert' and sig.rel.startswith(PARSER_INTERNALS)):
                # signals raised inside the MP4 parser / field readers are decided at the
                # parser call sites (R16.3): stored, indexed media parsed again is trusted
                skipped_parser += 1
                continue
            if sig.kind == 'assert':
                node = None
                if f is not None:
                    for n in ast.walk(f.node):
                        if isinstance(n, ast.Assert) and short(n, 90) == sig.key:
                            node = n
                if f is None or node is None or not f.rel.startswith('dashlive/server/'):
                    continue
                if not _mentions(node.test, tainted_names(f.node)):
                    continue
                rid = 'R16.2'
                what = (f'`{sig.key}` in {origin_short} tests a request-controlled value; '
                        f'AssertionError is not mapped to a 4xx on the way out (500)')
            else:
                rid = 'R16.1'
                what = (f'`{sig.key}` ({sig.exc}) raised in {origin_short} can propagate out of '
                        f'this handler without being mapped to a 4xx response (500)')
            key = f'{sig.exc} <- {origin_short}: {sig.key}'
            tr = triage(sig, econstruct, validated_ok)
            if tr is not None:
                rep.ok(rid, econstruct, key, f'unreachable: {tr[1]}')
                continue
            rep.fail(rid, econstruct, key, what, m.node, path=list(chain))
    if n_entries < 60:
        raise AnalysisError(f'only {n_entries} entry points')
    rep.extra['entry_points'] = n_entries
    rep.extra['parser_internal_signals_deferred_to_R16_3'] = skipped_parser
    # the model instance of the rule: option parsing raises ValueError on malformed values and
    # every call site must sit under except ValueError
    stopped = 0
    for r, verb, m in entry_points(idx):
        for n in ast.walk(m.node):
            if isinstance(n, ast.Call) and call_name(n) == 'self.calculate_options':
                h = esc.caught_at(m, n, 'ValueError')
                construct = f'{m.rel}::{r.cls.name}.{verb}'
                if h is not None:
                    stopped += 1
                    rep.ok('R16.1', construct, 'calculate_options under except ValueError')
                else:
                    rep.fail('R16.1', construct, 'calculate_options under except ValueError',
                             'option parsing (ValueError on a malformed query value) is not inside '
                             'try/except ValueError -> 400', n)
    if stopped < 6:
        raise AnalysisError('calculate_options call sites not found')
    # direct conversions of request data in handler modules
    for rel in idx.repo.py_files(RH):
        mod = idx.by_rel[rel]
        for f in list(mod.functions.values()) + [mm for c in mod.classes.values()
                                                 for mm in c.methods.values()]:
            for n in ast.walk(f.node):
                if isinstance(n, ast.Call) and (call_name(n) or '').endswith(
                        ('convert_cgi_options', 'convert_short_name_options')) and n.args:
                    a0 = n.args[0]
                    if isinstance(a0, ast.Dict) and all(isinstance(v, ast.Constant) for v in a0.values):
                        rep.ok('R16.1', f.construct(), f'{short(n, 50)} (constant input)')
                        continue
                    if esc.caught_at(f, n, 'ValueError') is not None:
                        rep.ok('R16.1', f.construct(), f'{short(n, 50)} under except ValueError')
                    elif f.name == 'calculate_options':
                        rep.ok('R16.1', f.construct(), f'{short(n, 50)} (callers checked)')
                    else:
                        rep.fail('R16.1', f.construct(), f'{short(n, 50)} under except ValueError',
                                 'request data is converted by the option parsers outside '
                                 'try/except ValueError', n)


# ---------------------------------------------------------------------------
PARSERS = ('Mp4Atom.load', 'mp4.Mp4Atom.load', 'Representation.load', 'parse_media_file',
           'mf.parse_media_file', 'self.parse_media_file')


def r16_3(rep: Report, idx: Index, cg: CallGraph) -> None:
    rid = 'R16.3'
    esc = Escapes(idx, cg)
    mm = f'{RH}/media_management.py'
    mod = idx.by_rel[mm]
    n = 0
    for cname in ('InspectMediaFile', 'IndexMediaFile', 'UploadHandler', 'MediaSegmentInfo',
                  'SegmentInfoBase'):
        cls = mod.classes.get(cname)
        if cls is None:
            raise AnalysisError(f'{cname} vanished')
        for f in cls.methods.values():
            for c in ast.walk(f.node):
                if not isinstance(c, ast.Call):
                    continue
                cn = call_name(c) or ''
                if not (cn.endswith('Mp4Atom.load') or cn.endswith('parse_media_file')
                        or cn.endswith('Representation.load') or cn.endswith('.add_file')):
                    continue
                if cn.endswith('.add_file'):
                    continue
                n += 1
                h = esc.caught_at(f, c, 'ValueError')
                h2 = esc.caught_at(f, c, 'struct.error')
                key = f'{short(c, 60)}'
                if h is not None and h2 is not None:
                    rep.ok(rid, f.construct(), key)
                elif cname == 'MediaSegmentInfo':
                    rep.ok(rid, f.construct(), key,
                           'stored media that was indexed successfully (requires a representation)')
                else:
                    rep.fail(rid, f.construct(), key,
                             'bytes from an upload / URL / stored file are parsed outside any '
                             'handler for the parser\'s exceptions (ValueError, struct.error, '
                             'AssertionError ...): a truncated or corrupt MP4 becomes a 500', c)
    if n < 3:
        raise AnalysisError(f'only {n} parser call sites found in media_management')


# ---------------------------------------------------------------------------
SAFE_STEPS: list[tuple[str, str, str]] = [
    # (function suffix, pattern of the step once local copies are resolved, invariant) - the counter may
    # have any name; what is confirmed by reading is what it advances by
    ('Representation.generateSegmentTimeline', r'self\.segments\[\w+\]\.duration',
     'one full pass over the stored segments adds mediaDuration + drift = the timing-reference '
     'duration, which is > 0 (asserted in get_segment_index, enforced when a reference is chosen)'),
    ('Representation.get_segment_index', r'self\.segments\[\w+\]\.duration',
     'on wrap-around seg_start_tc restarts at origin_time, which advances by ref_duration_tc > 0 '
     '(asserted two lines above the loop); stored durations are >= 0'),
    ('Mp4Atom.load', r'atom\w*\.size',
     'atom.size is hdr["size"] (Box.parse returns initial_data); see the guard on hdr["size"]'),
]


def _step_base(loop: ast.While, e: ast.AST, depth: int = 4) -> str:
    """text of the step with names copied once per iteration replaced by their source (conditional
    `+=` corrections of the copy are part of the confirmed invariant, not of the base)"""
    from ..normalise import clone
    plain: dict[str, list[ast.AST]] = {}
    for n in ast.walk(loop):
        if isinstance(n, ast.Assign) and len(n.targets) == 1 and isinstance(n.targets[0], ast.Name):
            plain.setdefault(n.targets[0].id, []).append(n.value)
        elif isinstance(n, ast.AnnAssign) and isinstance(n.target, ast.Name) and n.value is not None:
            plain.setdefault(n.target.id, []).append(n.value)

    class T(ast.NodeTransformer):
        def __init__(self, d): self.d = d

        def visit_Name(self, node):
            vs = plain.get(node.id, [])
            if isinstance(node.ctx, ast.Load) and len(vs) == 1 and self.d > 0 and \
                    not any(isinstance(x, ast.Call) for x in ast.walk(vs[0])):
                return T(self.d - 1).visit(clone(vs[0]))
            return node
    return norm(T(depth).visit(clone(e)))


def _positive(step: ast.AST, loop: ast.While, fn: ast.FunctionDef) -> tuple[bool, str]:
    if isinstance(step, ast.Constant) and isinstance(step.value, (int, float)) and step.value > 0:
        return True, 'positive constant'
    if isinstance(step, ast.Call) and call_name(step) == 'max' and any(
            isinstance(a, ast.Constant) and isinstance(a.value, (int, float)) and a.value > 0
            for a in step.args):
        return True, 'max(positive, ..)'
    st = norm(step)
    KNOWN_POSITIVE = {"hdr['header_size']": 'bytes consumed by the box header (>= 8)'}
    for n in ast.walk(fn):
        if isinstance(n, ast.If) and isinstance(n.test, ast.Compare) and len(n.test.ops) == 1 \
                and n.lineno < getattr(step, 'lineno', 10 ** 9) \
                and isinstance(n.test.ops[0], (ast.Lt, ast.LtE)) and norm(n.test.left) == st \
                and norm(n.test.comparators[0]) in KNOWN_POSITIVE \
                and isinstance(n.body[-1], (ast.Raise, ast.Return, ast.Break)):
            return True, (f'guarded by `if {norm(n.test)}: raise` '
                          f'({KNOWN_POSITIVE[norm(n.test.comparators[0])]})')
    # dominating guard anywhere earlier in the function or loop body: if step <= 0: raise/return/break
    for n in ast.walk(fn):
        if isinstance(n, ast.If) and n.lineno < getattr(step, 'lineno', 10 ** 9):
            t = norm(n.test)
            if re.search(rf'\b{re.escape(st)}\b\s*(<=|<)\s*(0|1)\b', t) or \
                    re.search(rf'not {re.escape(st)}\b', t) or \
                    re.search(rf'\b{re.escape(st)}\b\s*==\s*0\b', t):
                if isinstance(n.body[-1], (ast.Raise, ast.Return, ast.Break, ast.Continue)):
                    return True, f'guarded by `if {t}`'
    return False, ''


def r16_4(rep: Report, idx: Index, cg: CallGraph) -> None:
    rid = 'R16.4'
    roots = [m for _r, _v, m in entry_points(idx)]
    reach: dict[str, FuncInfo] = {}
    for r, v, m in entry_points(idx):
        for q, (f, _p) in cg.reachable([m], self_cls=r.cls, skip_how=('by-name',)).items():
            reach[q] = f
    # template-called generators (render_template edges are not in the call graph)
    for q in ('dashlive.mpeg.dash.representation.Representation.generateSegmentTimeline',
              'dashlive.mpeg.dash.representation.Representation.generateSegmentDurations',
              'dashlive.mpeg.dash.representation.Representation.generateSegmentList'):
        if q in idx.functions:
            for qq, (f, _p) in cg.reachable([idx.functions[q]], skip_how=('by-name',)).items():
                reach[qq] = f
    # event generators are reached through the factory's class table (dynamic dispatch)
    for q, f in idx.functions.items():
        if f.rel.startswith('dashlive/server/events/') and f.name in (
                'create_emsg_boxes', 'create_manifest_context'):
            for qq, (g, _p) in cg.reachable([f], skip_how=('by-name',)).items():
                reach[qq] = g
    loops = 0
    listed = []
    for q, f in sorted(reach.items()):
        for loop in [n for n in ast.walk(f.node) if isinstance(n, ast.While)]:
            test_names = {norm(n) for n in ast.walk(loop.test)
                          if isinstance(n, (ast.Name, ast.Attribute))}
            steps = [n for n in ast.walk(loop) if isinstance(n, ast.AugAssign)
                     and isinstance(n.op, (ast.Add, ast.Sub)) and norm(n.target) in test_names]
            if not steps:
                listed.append(f'{f.construct()}: while {short(loop.test, 50)} (no += counter; '
                              'not judged)')
                continue
            for s in steps:
                loops += 1
                # the key names the bound and the step, not the counter (a renamed counter is the same loop)
                cname_ = norm(s.target)
                key = re.sub(rf'(?<![\w.]){re.escape(cname_)}(?![\w])', '<counter>',
                             f'while {short(loop.test, 40)}: {norm(s)}')
                # a local of an inlined helper (`period__create_period_at`) is the local it was in the helper
                key = re.sub(r'\b([A-Za-z]\w*?)_{2,3}[a-z]\w*\b', r'\1', key)
                ok, why = _positive(s.value, loop, f.node)
                if ok:
                    rep.ok(rid, f.construct(), key, why)
                    continue
                resolved = norm(subst_locals(f.node, ast.parse(_step_base(loop, s.value), mode='eval').body))
                row = next((r for r in SAFE_STEPS if q.endswith(r[0]) and re.fullmatch(r[1], resolved)), None)
                if row and row[0] == 'Mp4Atom.load':
                    # conditional on the guard for hdr['size'] in the same loop
                    g_ok, _ = _positive(ast.parse("hdr['size']", mode='eval').body, loop, f.node)
                    probe = ast.parse("hdr['size']", mode='eval').body
                    probe.lineno = s.lineno
                    g_ok, _ = _positive(probe, loop, f.node)
                    if not g_ok:
                        row = None
                if row:
                    rep.ok(rid, f.construct(), key, 'confirmed: ' + row[2])
                    continue
                rep.fail(rid, f.construct(), key,
                         f'the loop counter advances by `{norm(s.value)}`, which is not provably '
                         'positive (no constant, no dominating `<= 0` guard, no max(1, ..)): a zero '
                         'or negative step never terminates', s)
    rep.extra['loops_listed_not_judged'] = listed[:40]
    if loops < 3:
        raise AnalysisError(f'only {loops} counted while-loops on request paths')


# ---------------------------------------------------------------------------
def r16_6(rep: Report, idx: Index) -> None:
    """int(x, base) where x is known to be an int on that path -> TypeError"""
    rid = 'R16.6'
    checked = 0
    for rel in rep.repo.py_files('dashlive/server'):
        tree = rep.repo.tree(rel)
        for n in ast.walk(tree):
            if not (isinstance(n, ast.Call) and call_name(n) == 'int' and len(n.args) == 2):
                continue
            arg = norm(n.args[0])
            fn = enclosing_function(n)
            verdict = None
            child = n
            for a in ancestors(n):
                if isinstance(a, ast.If):
                    t = norm(a.test)
                    in_body = any(child is b or child in ast.walk(b) for b in a.body)
                    if t == f'isinstance({arg}, int)' and in_body:
                        verdict = f'`{norm(n)}` sits in the branch where isinstance({arg}, int) ' \
                                  'holds: int() with a base requires a string -> TypeError'
                if a is fn:
                    break
                child = a
            # annotation says int
            if verdict is None and fn is not None:
                for p in fn.args.args:
                    if p.arg == arg and p.annotation is not None and norm(p.annotation) == 'int':
                        verdict = f'`{norm(n)}`: parameter {arg} is annotated int'
            checked += 1
            construct = f'{rel}::{fn.name if fn else "<module>"}'
            if verdict:
                rep.fail(rid, construct, norm(n), verdict, n)
            else:
                rep.ok(rid, construct, norm(n))
    if checked < 5:
        raise AnalysisError('no int(x, base) conversions found')


# ---------------------------------------------------------------------------
def _synthetic_error_paths(rep: Report, rid: str, construct: str, fn: ast.FunctionDef, selection) -> None:
    """Path-condition form of the injected-error rules, independent of how the tests are written:
    * the synthetic response is returned only on paths that imply `selection` (the request is the one
      the rule addresses);
    * the failure counter is incremented only when the request is addressed, code >= 500 and a failure
      count is configured (`is not None`: a count of 0 is a count);
    * when the count is exceeded the counter is reset and no synthetic response is sent."""
    from ..pathcond import (PathCond, atoms_of, entails as pc_entails, f_and, f_not, f_or, parse as pc_parse,
                            show as pc_show)
    from ..flow import Disjunctive, Flow
    from ..core import subst_locals
    fc_names = {'options.failureCount'}
    for a in ast.walk(fn):
        if isinstance(a, (ast.Assign, ast.AnnAssign)) and a.value is not None and norm(a.value) == 'options.failureCount':
            fc_names.add(norm(a.targets[0] if isinstance(a, ast.Assign) else a.target))

    def is_inc(n):
        return isinstance(n, ast.Call) and (call_name(n) or '').endswith('increment_error_counter')

    inc_conds: list = []       # (node, formula)
    err_returns: list = []     # (stmt, state)
    resets: list = []

    def cond_at(test: ast.AST, env) -> list:
        """[(call, formula of the operands evaluated before it)] for increment calls inside a test"""
        out = []

        def walk(e, pre):
            if isinstance(e, ast.BoolOp) and isinstance(e.op, ast.And):
                acc = pre
                for v in e.values:
                    walk(v, acc)
                    acc = f_and(acc, pc_parse(v, env))
                return
            if isinstance(e, ast.UnaryOp):
                walk(e.operand, pre)
                return
            for c in ast.walk(e):
                if is_inc(c):
                    out.append((c, pre))
        walk(test, ('const', True))
        return out

    def on_stmt(st, states):
        if isinstance(st, ast.If):
            for x in states:
                for call, pre in cond_at(st.test, dict(x[1])):
                    inc_conds.append((call, f_and(x[0], pre)))
            return
        if isinstance(st, (ast.While, ast.For, ast.With, ast.Try)):
            return
        for c in ast.walk(st):
            if is_inc(c):
                for x in states:
                    inc_conds.append((c, x[0]))
            if isinstance(c, ast.Call) and (call_name(c) or '').endswith('reset_error_counter'):
                resets.extend(x for x in states)
        if isinstance(st, ast.Return) and isinstance(st.value, ast.Call) \
                and call_name(st.value) == 'flask.make_response':
            err_returns.extend((st, x) for x in states)
    Flow(Disjunctive(PathCond(), cap=1024), on_stmt=on_stmt).run(fn, [PathCond.initial()])
    if not err_returns:
        raise AnalysisError(f'{construct}: no synthetic response is returned')
    if not inc_conds:
        rep.fail(rid, construct, 'failure counter', 'the failure counter is never incremented', fn)
        return
    atoms: set[str] = set()
    for _st, x in err_returns:
        atoms |= atoms_of(x[0])
    for _c, f in inc_conds:
        atoms |= atoms_of(f)
    sel = selection(atoms)
    if sel is None:
        rep.fail(rid, construct, 'selected by equality',
                 'no test selects the addressed request (position compared with the request)', fn)
        return
    bad = [x for _st, x in err_returns if pc_entails(x[0], sel) is not True]
    if bad:
        rep.fail(rid, construct, 'selected by equality',
                 f'a synthetic response is returned on a path that does not imply `{pc_show(sel)[:100]}` '
                 f'(path: {pc_show(bad[0][0])[:120]}): requests that the rule does not address are answered '
                 'with the error', err_returns[0][0])
    else:
        rep.ok(rid, construct, 'selected by equality', pc_show(sel)[:100])
    ge = [t for t in atoms if t == 'code >= 500']
    present = [t for t in atoms if any(t == f'{n} is None' for n in fc_names)]
    truthy = [t for t in atoms if t in fc_names]
    need_f = f_and(('atom', 'code >= 500'), f_not(('atom', present[0]))) if ge and present else None
    bad_inc = [f for _c, f in inc_conds
               if need_f is None or pc_entails(f, need_f) is not True or pc_entails(f, sel) is not True]
    if bad_inc:
        rep.fail(rid, construct, 'counter only for the addressed request',
                 'the failure counter is incremented where the request is not known to be addressed, the code '
                 f'a 5xx and a failure count configured (condition: {pc_show(bad_inc[0])[:140]})', inc_conds[0][0])
    else:
        rep.ok(rid, construct, 'counter only for the addressed request')
    if truthy or not present:
        rep.fail(rid, construct, 'failure count of 0 is honoured',
                 f'the configured failure count is tested by truthiness (`{(truthy or ["?"])[0]}`): `failures=0` '
                 '(answer 5xx zero times) is treated like "no limit" and the error fires on every request', fn)
    else:
        rep.ok(rid, construct, 'failure count of 0 is honoured')
    # exceeded -> reset and no synthetic response
    exc_atoms = [t for t in atoms if 'increment_error_counter' in t and ' > ' in t]
    if not exc_atoms or need_f is None:
        rep.fail(rid, construct, 'counter reset when exceeded',
                 'the counter is not compared with the configured failure count', fn)
        return
    exceeded = f_and(need_f, ('atom', exc_atoms[0]))
    ok_reset = bool(resets) and all(pc_entails(x[0], exceeded) is True for x in resets)
    ok_noerr = all(pc_entails(x[0], f_not(exceeded)) is True for _st, x in err_returns)
    if ok_reset and ok_noerr:
        rep.ok(rid, construct, 'counter reset when exceeded')
    else:
        rep.fail(rid, construct, 'counter reset when exceeded',
                 'exceeding the failure count does not reset the counter and serve the request '
                 f'(reset only when exceeded: {ok_reset}; no synthetic response when exceeded: {ok_noerr})', fn)


def _counter_guard(rep: Report, rid: str, construct: str, fn: ast.FunctionDef, after_line: int) -> None:
    """`code >= 500 and <count> is not None and increment(..) > <count>` then reset + continue,
    where <count> is options.failureCount (possibly through a local alias)"""
    alias = {'options.failureCount'}
    for a in ast.walk(fn):
        if isinstance(a, (ast.Assign, ast.AnnAssign)) and a.value is not None \
                and norm(a.value) == 'options.failureCount':
            tg = a.targets[0] if isinstance(a, ast.Assign) else a.target
            alias.add(norm(tg))
    incs = [n for n in ast.walk(fn) if isinstance(n, ast.Call)
            and call_name(n) == 'self.increment_error_counter']
    if not incs:
        rep.fail(rid, construct, 'failure counter', 'the failure counter is never incremented', fn)
        return
    for n in incs:
        guard = None
        for a in ancestors(n):
            if isinstance(a, ast.If):
                guard = a
                break
        if guard is None or not isinstance(guard.test, ast.BoolOp) or not isinstance(guard.test.op, ast.And):
            rep.fail(rid, construct, 'counter only for the addressed request',
                     'the failure counter is not incremented inside the `code >= 500 and ...` guard', n)
            continue
        ops = guard.test.values
        texts = [norm(o) for o in ops]
        has_5xx = any(t == 'code >= 500' for t in texts)
        presence = [o for o in ops if any(al in norm(o) for al in alias)
                    and 'increment_error_counter' not in norm(o)]
        cmp_ok = any(isinstance(o, ast.Compare) and 'increment_error_counter' in norm(o.left)
                     and isinstance(o.ops[0], ast.Gt) and norm(o.comparators[0]) in alias for o in ops)
        after = n.lineno > after_line
        if has_5xx and cmp_ok and after:
            rep.ok(rid, construct, 'counter only for the addressed request')
        else:
            rep.fail(rid, construct, 'counter only for the addressed request',
                     f'counter guard is `{norm(guard.test)[:120]}`: expected `code >= 500 and <failureCount> '
                     'is not None and increment(..) > <failureCount>` after the selection test', n)
        if presence and all(isinstance(o, ast.Compare) and isinstance(o.ops[0], ast.IsNot)
                            and isinstance(o.comparators[0], ast.Constant)
                            and o.comparators[0].value is None for o in presence):
            rep.ok(rid, construct, 'failure count of 0 is honoured')
        else:
            rep.fail(rid, construct, 'failure count of 0 is honoured',
                     f'the configured failure count is tested by truthiness in `{norm(guard.test)[:100]}`: '
                     '`failures=0` (answer 5xx zero times) is treated like "no limit" and the error '
                     'fires on every request', guard)
        resets = any(isinstance(c, ast.Call) and call_name(c) == 'self.reset_error_counter'
                     for c in ast.walk(guard))
        cont = isinstance(guard.body[-1], ast.Continue)
        if resets and cont:
            rep.ok(rid, construct, 'counter reset when exceeded')
        else:
            rep.fail(rid, construct, 'counter reset when exceeded',
                     'exceeding the failure count does not reset the counter and serve the request', guard)


def r16_7(rep: Report, idx: Index) -> None:
    rid = 'R16.7'
    mr = f'{RH}/media_requests.py'
    tree = rep.repo.tree(mr)
    cls = need(find_class(tree, 'MediaRequestBase'), 'MediaRequestBase')
    fn = need(find_func(cls, 'check_for_synthetic_http_error'), 'check_for_synthetic_http_error')
    construct = f'{mr}::MediaRequestBase.check_for_synthetic_http_error'
    params = [a.arg for a in fn.args.args]
    seg_param = params[2] if len(params) > 2 else None
    def media_selection(atoms: set[str]):
        for t in sorted(atoms):
            try:
                e = ast.parse(t, mode='eval').body
            except SyntaxError:
                continue
            if isinstance(e, ast.Compare) and len(e.ops) == 1 and isinstance(e.ops[0], ast.Eq) \
                    and seg_param in (norm(e.left), norm(e.comparators[0])):
                return ('atom', t)
        return None
    # error list chosen by content type
    chosen = {}
    for n in ast.walk(fn):
        if isinstance(n, ast.If) and isinstance(n.test, ast.Compare) \
                and isinstance(n.test.comparators[0], ast.Constant) \
                and n.test.comparators[0].value in ('audio', 'video'):
            for b in n.body:
                if isinstance(b, ast.Assign):
                    chosen[n.test.comparators[0].value] = norm(b.value)
    if chosen.get('audio') == 'options.audioErrors' and chosen.get('video') == 'options.videoErrors':
        rep.ok(rid, construct, 'error list per content type')
    else:
        rep.fail(rid, construct, 'error list per content type',
                 f'audio/video requests consult {chosen}', fn)
    _synthetic_error_paths(rep, rid, construct, fn, media_selection)
    # response uses the injected code
    rets = [n for n in ast.walk(fn) if isinstance(n, ast.Return) and n.value is not None
            and isinstance(n.value, ast.Call) and call_name(n.value) == 'flask.make_response']
    if rets and all(len(r.value.args) == 2 and norm(r.value.args[1]) == 'code' for r in rets):
        rep.ok(rid, construct, 'status is the injected code')
    else:
        rep.fail(rid, construct, 'status is the injected code',
                 'the synthetic response does not use the injected status code', fn)
    # both call sites pass the segment number that addresses the request
    for caller, arg in (('generate_init_segment', '0'), ('generate_media_segment', 'seg_num')):
        cf = need(find_func(cls, caller), caller)
        calls = [c for c in ast.walk(cf) if isinstance(c, ast.Call)
                 and call_name(c) == 'self.check_for_synthetic_http_error']
        if len(calls) == 1 and norm(calls[0].args[1]) == arg:
            # must precede any work on the segment: the call is followed by `if err is not None: return err`
            rep.ok(rid, f'{mr}::MediaRequestBase.{caller}', f'addressed with {arg}')
        else:
            rep.fail(rid, f'{mr}::MediaRequestBase.{caller}', f'addressed with {arg}',
                     f'check_for_synthetic_http_error is not called once with `{arg}`', cf)
    # manifest side
    mq = f'{RH}/manifest_requests.py'
    mt = rep.repo.tree(mq)
    sm = need(find_class(mt, 'ServeManifest'), 'ServeManifest')
    mf = need(find_func(sm, 'check_for_synthetic_manifest_error'), 'check_for_synthetic_manifest_error')
    mconstruct = f'{mq}::ServeManifest.check_for_synthetic_manifest_error'
    from ..core import subst_locals
    from ..pathcond import f_and, f_not, f_or
    window_ok: list = []

    def manifest_selection(atoms: set[str]):
        eq = lt = gt = isint = None
        mirror = {ast.Lt: ast.Gt, ast.Gt: ast.Lt, ast.LtE: ast.GtE, ast.GtE: ast.LtE}
        for t in sorted(atoms):
            try:
                e = ast.parse(t, mode='eval').body
            except SyntaxError:
                continue
            if isinstance(e, ast.Call) and norm(e.func) == 'isinstance' and len(e.args) == 2 \
                    and norm(e.args[1]) == 'int':
                isint = t
            if not (isinstance(e, ast.Compare) and len(e.ops) == 1):
                continue
            l, r = e.left, e.comparators[0]
            rl = norm(subst_locals(mf, l, allow_calls=True))
            rr = norm(subst_locals(mf, r, allow_calls=True))
            if isinstance(e.ops[0], ast.Eq) and 'options.updateCount' in (rl, rr):
                eq = t
            begin = r"options\.availabilityStartTime\.replace\(hour=(\w+)\.hour, minute=\1\.minute, second=\1\.second\)"
            import re as _re
            # read every order comparison with the request clock on the left: `begin <= now` is `now >= begin`,
            # and that is the negation of `now < begin`
            op = type(e.ops[0])
            if op in mirror and rr.endswith('.now') and not rl.endswith('.now'):
                rl, rr, op = rr, rl, mirror[op]
            if not (op in mirror and rl.endswith('.now') and 'publish' not in rl.lower()):
                continue
            end = begin + r" \+ datetime\.timedelta\(seconds=options\.minimumUpdatePeriod\)"
            if _re.fullmatch(begin, rr):
                if op is ast.Lt:
                    lt = ('atom', t)
                elif op is ast.GtE:
                    lt = f_not(('atom', t))
            if _re.fullmatch(end, rr):
                if op is ast.Gt:
                    gt = ('atom', t)
                elif op is ast.LtE:
                    gt = f_not(('atom', t))
        window_ok.append(lt is not None and gt is not None)
        if eq is None or isint is None or lt is None or gt is None:
            return None
        return f_or(f_and(('atom', isint), ('atom', eq)),
                    f_and(f_not(('atom', isint)), f_not(lt), f_not(gt)))
    _synthetic_error_paths(rep, rid, mconstruct, mf, manifest_selection)
    if window_ok and window_ok[-1]:
        rep.ok(rid, mconstruct, 'time window test', 'tm <= now <= tm + minimumUpdatePeriod, tm from the start option')
    else:
        rep.fail(rid, mconstruct, 'time window test',
                 'time addressed manifest errors are not restricted to [tm, tm + mup] of the request clock '
                 '(`now`), with tm = availabilityStartTime with the rule\'s hour/minute/second', mf)
    # literal 5xx responses in handler modules
    allowed_literal_5xx = {
        ('multi_period_streams.py', 'ListStreams.get'):
            'reached only when is_ajax() is false, and spa_handler has already answered then',
        ('multi_period_streams.py', 'EditStream.get'):
            'reached only when is_ajax() is false, and spa_handler has already answered then',
    }
    n5 = 0
    for rel in rep.repo.py_files(RH):
        t = rep.repo.tree(rel)
        for n in ast.walk(t):
            if isinstance(n, ast.Call) and (call_name(n) or '').split('.')[-1] in (
                    'make_response', 'jsonify_no_content', 'jsonify', 'abort'):
                for c in list(n.args) + [k.value for k in n.keywords]:
                    for lit in ast.walk(c):
                        if isinstance(lit, ast.Constant) and isinstance(lit.value, int) \
                                and not isinstance(lit.value, bool) and 500 <= lit.value <= 599:
                            n5 += 1
                            fn2 = enclosing_function(n)
                            cl = None
                            for a in ancestors(n):
                                if isinstance(a, ast.ClassDef):
                                    cl = a
                                    break
                            who = f'{cl.name + "." if cl else ""}{fn2.name if fn2 else "?"}'
                            k2 = (rel.rsplit('/', 1)[-1], who)
                            construct2 = f'{rel}::{who}'
                            if k2 in allowed_literal_5xx:
                                rep.ok(rid, construct2, f'literal {lit.value}',
                                       allowed_literal_5xx[k2])
                            else:
                                rep.fail(rid, construct2, f'literal {lit.value}',
                                         f'`{short(n, 60)}` answers {lit.value} although no error '
                                         'injection was requested', n)
    rep.extra['literal_5xx_sites'] = n5


def _literal_set(node: ast.AST) -> set[str] | None:
    if isinstance(node, (ast.Set, ast.Tuple, ast.List)):
        vals = set()
        for e in node.elts:
            if isinstance(e, ast.Constant) and isinstance(e.value, str):
                vals.add(e.value)
            elif isinstance(e, ast.Constant) and e.value is None:
                continue
            else:
                return None
        return vals
    return None


def _handled_literals(fn: ast.FunctionDef, subject: str) -> set[str]:
    out: set[str] = set()
    for n in ast.walk(fn):
        if isinstance(n, ast.Compare) and len(n.ops) == 1 and norm(n.left) == subject:
            c = n.comparators[0]
            if isinstance(n.ops[0], ast.Eq) and isinstance(c, ast.Constant):
                out.add(c.value)
            elif isinstance(n.ops[0], ast.In):
                ls = _literal_set(c)
                if ls:
                    out |= ls
    return out


def r16_8(rep: Report, idx: Index) -> set[str]:
    """validator / consumer agreement for enumerated option values"""
    rid = 'R16.8'
    ok: set[str] = set()
    # --- time -----------------------------------------------------------
    urel = 'dashlive/server/options/utc_time_options.py'
    um = idx.by_rel[urel]
    opt = um.assigns.get('UTCMethod')
    fs = None
    if isinstance(opt, ast.Call):
        for k in opt.keywords:
            if k.arg == 'from_string':
                fs = k.value
    construct = f'{urel}::UTCMethod.from_string'
    allowed: set[str] | None = None
    if isinstance(fs, ast.Name) and fs.id in um.functions:
        vf = um.functions[fs.id].node
        for n in ast.walk(vf):
            if isinstance(n, ast.If) and any(isinstance(b, ast.Raise) for b in n.body):
                for c in ast.walk(n.test):
                    if isinstance(c, ast.Compare) and isinstance(c.ops[0], ast.NotIn):
                        coll = c.comparators[0]
                        allowed = _literal_set(coll)
                        if allowed is None and isinstance(coll, ast.Name) \
                                and coll.id in um.assigns:
                            allowed = _literal_set(um.assigns[coll.id])
    ts = idx.functions.get(
        'dashlive.server.requesthandler.time_source_context.TimeSourceContext.__init__')
    if ts is None:
        raise AnalysisError('TimeSourceContext.__init__ vanished')
    handled = _handled_literals(ts.node, 'self.method')
    if allowed is not None and allowed <= handled and allowed:
        rep.ok(rid, construct, 'time', f'accepts {sorted(allowed)}; consumer handles {sorted(handled)}')
        ok.add('time')
    else:
        rep.fail(rid, construct, 'time',
                 f'the parser of the `time` option accepts {sorted(allowed) if allowed else "any text"} '
                 f'but TimeSourceContext only handles {sorted(handled)} and raises for the rest',
                 opt)
    # --- drm ------------------------------------------------------------
    drel = 'dashlive/server/options/drm_options.py'
    dm = idx.by_rel[drel]
    vf = dm.functions.get('_drm_selection_from_string')
    if vf is None:
        raise AnalysisError('_drm_selection_from_string vanished')
    construct = f'{drel}::_drm_selection_from_string'
    validates = False
    for n in ast.walk(vf.node):
        if isinstance(n, ast.If) and any(isinstance(b, ast.Raise) for b in n.body):
            t = norm(n.test)
            m_ = re.fullmatch(r'(\w+) not in (ALL_DRM_NAMES|DrmSystem\.values\(\))', t)
            # the name that is tested is the one that goes into the result (first member of the pair)
            if m_ and any(isinstance(tp, ast.Tuple) and tp.elts and isinstance(tp.elts[0], ast.Name)
                          and tp.elts[0].id == m_.group(1) and isinstance(tp.ctx, ast.Load) for tp in ast.walk(vf.node)):
                validates = True
    sysm = idx.by_rel.get('dashlive/drm/system.py')
    names: set[str] = set()
    if sysm and 'DrmSystem' in sysm.classes:
        for k in sysm.classes['DrmSystem'].attrs:
            if k.isupper():
                names.add(k.lower())
    gd = idx.functions.get(
        'dashlive.server.requesthandler.drm_context.DrmContext.generate_drm_location_tuples')
    if gd is None:
        raise AnalysisError('generate_drm_location_tuples vanished')
    handled = _handled_literals(gd.node, 'drm_name')
    # the same read off the normal form (a lookup in a table of implementations is a chain of comparisons there)
    for c_, ef in rep.repo.expanded_functions('dashlive/server/requesthandler/drm_context.py'):
        if getattr(ef, 'name', '') == 'generate_drm_location_tuples':
            handled |= _handled_literals(ef, 'drm_name')
    if validates and names and names <= handled:
        rep.ok(rid, construct, 'drm', f'accepts {sorted(names)}; consumer handles {sorted(handled)}')
        ok.add('drm')
    else:
        rep.fail(rid, construct, 'drm',
                 f'DRM names accepted by the option parser (validated={validates}, systems '
                 f'{sorted(names)}) are not all handled by generate_drm_location_tuples '
                 f'({sorted(handled)})', vf.node)
    return ok


def r16_5(rep: Report, idx: Index) -> None:
    """definite AttributeError: attribute of an imported library module that does not exist,
    or a method that does not exist on a local annotated with a builtin container type"""
    import importlib
    rid = 'R16.5'
    LIBS = ('flask', 'logging', 'datetime', 'urllib.parse', 'json', 'math', 'hashlib', 'hmac',
            'base64', 'secrets', 'html', 're', 'io', 'struct', 'binascii', 'os', 'time')
    loaded: dict[str, object] = {}
    for name in LIBS:
        try:
            loaded[name] = importlib.import_module(name)
        except Exception:
            pass
    BUILTIN = {'list': list, 'dict': dict, 'set': set, 'str': str, 'bytes': bytes, 'tuple': tuple}
    n_checked = 0
    for rel in rep.repo.py_files('dashlive/server'):
        mod = idx.by_rel.get(rel)
        if mod is None:
            continue
        lib_alias = {alias: q for alias, q in mod.imports.items() if q in loaded}
        for f in list(mod.functions.values()) + [mm for c in mod.classes.values()
                                                 for mm in c.methods.values()]:
            ann: dict[str, type] = {}
            assigned: dict[str, int] = {}
            for n in ast.walk(f.node):
                if isinstance(n, ast.AnnAssign) and isinstance(n.target, ast.Name):
                    base = norm(n.annotation).split('[')[0]
                    if base in BUILTIN:
                        ann[n.target.id] = BUILTIN[base]
                if isinstance(n, (ast.Assign, ast.AugAssign, ast.AnnAssign, ast.For)):
                    for t in ast.walk(n.targets[0] if isinstance(n, ast.Assign) else n.target):
                        if isinstance(t, ast.Name):
                            assigned[t.id] = assigned.get(t.id, 0) + 1
            local_names = set(assigned) | {a.arg for a in f.node.args.args}
            for n in ast.walk(f.node):
                if not (isinstance(n, ast.Attribute) and isinstance(n.value, ast.Name)):
                    continue
                nm = n.value.id
                if nm in lib_alias and nm not in local_names:
                    n_checked += 1
                    if not hasattr(loaded[lib_alias[nm]], n.attr):
                        rep.fail(rid, f.construct(), f'{nm}.{n.attr}',
                                 f'module `{lib_alias[nm]}` has no attribute `{n.attr}`: '
                                 'AttributeError when this line is reached', n)
                    continue
                if nm in ann and assigned.get(nm, 0) == 1 and isinstance(n.ctx, ast.Load):
                    n_checked += 1
                    if not hasattr(ann[nm], n.attr):
                        rep.fail(rid, f.construct(), f'{nm}.{n.attr}',
                                 f'`{nm}` is a {ann[nm].__name__} and has no attribute `{n.attr}`: '
                                 'AttributeError when this line is reached', n)
    rep.rules[rid].instances += 0
    if n_checked < 500:
        raise AnalysisError(f'definite-crash lint examined only {n_checked} attribute reads')
    rep.ok(rid, 'dashlive/server', 'attribute reads examined', f'{n_checked} reads resolve')
    rep.extra['r16_5_attribute_reads_examined'] = n_checked


def r16_10(rep: Report, idx: Index) -> None:
    """a time-of-day error position is turned into a segment number with the segment duration of the
    track it is addressed to: the representation handed to calculate_injected_error_segments belongs to
    the media type of the error list (audio segments are not video segments long)"""
    from ..core import subst_locals
    rid = 'R16.10'
    f = idx.functions.get(
        'dashlive.server.requesthandler.manifest_context.ManifestContext.calculate_cgi_parameters')
    if f is None:
        raise AnalysisError('calculate_cgi_parameters vanished')
    fn = f.node
    calls = [n for n in ast.walk(fn) if isinstance(n, ast.Call)
             and (call_name(n) or '').endswith('calculate_injected_error_segments')]
    if not calls:
        raise AnalysisError('calculate_cgi_parameters no longer calls calculate_injected_error_segments')
    for c in calls:
        if not c.args:
            continue
        errs = norm(subst_locals(fn, c.args[0], allow_calls=True))
        rep_arg = c.args[-1] if len(c.args) > 1 else next((k.value for k in c.keywords if 'rep' in (k.arg or '')), None)
        rtxt = norm(subst_locals(fn, rep_arg, allow_calls=True)) if rep_arg is not None else '?'
        media = 'audio' if 'audioErrors' in errs else 'text' if 'textErrors' in errs else \
            'video' if ('videoErrors' in errs or 'videoCorruption' in errs) else None
        key = f'{errs[:40]} -> {rtxt[:40]}'
        if media is None:
            rep.ok(rid, f.construct(), key, 'error list of unknown media type (not decided)')
        elif rtxt.startswith(media):
            rep.ok(rid, f.construct(), key, f'{media} errors, {media} representation')
        else:
            rep.fail(rid, f.construct(), key,
                     f'{media} error positions (`{errs[:50]}`) are converted to segment numbers with `{rtxt[:50]}`: '
                     f'a time-of-day position addresses a different {media} segment than the one that gets the error',
                     c)


def r16_9(rep: Report, idx: Index) -> None:
    """values kept in the Flask session: what one helper stores under a key is what the other
    computes with.  `session.get(key, 0) + 1` uses the default only when the key is *absent*; a
    sibling that stores None under the same key makes the next read raise TypeError (a 500 on
    every later request of that session)."""
    rid = 'R16.9'

    def key_form(fn: ast.AST, k: ast.AST) -> str:
        if isinstance(k, ast.Name):
            defs = [a for a in ast.walk(fn) if isinstance(a, ast.Assign) and norm(a.targets[0]) == k.id]
            if len(defs) == 1:
                k = defs[0].value
        return norm(k)

    stores: dict[str, list[tuple[str, ast.AST, str]]] = {}
    reads: list[tuple[str, str, ast.AST, str]] = []
    for rel in rep.repo.py_files('dashlive/server'):
        tree = rep.repo.tree(rel)
        for fn in [n for n in ast.walk(tree) if isinstance(n, (ast.FunctionDef, ast.AsyncFunctionDef))]:
            for n in ast.walk(fn):
                if isinstance(n, ast.Assign) and isinstance(n.targets[0], ast.Subscript) \
                        and norm(n.targets[0].value) == 'flask.session':
                    kind = 'None' if isinstance(n.value, ast.Constant) and n.value.value is None else 'value'
                    stores.setdefault(key_form(fn, n.targets[0].slice), []).append(
                        (f'{rel}::{fn.name}', n, kind))
                if isinstance(n, ast.BinOp):
                    for side in (n.left, n.right):
                        k = None
                        if isinstance(side, ast.Call) and call_name(side) == 'flask.session.get' and side.args:
                            k = side.args[0]
                        elif isinstance(side, ast.Subscript) and norm(side.value) == 'flask.session':
                            k = side.slice
                        if k is not None:
                            reads.append((key_form(fn, k), f'{rel}::{fn.name}', n, norm(n)))
    for key, construct, node, text in reads:
        none_stores = [s for s in stores.get(key, []) if s[2] == 'None']
        if none_stores:
            rep.fail(rid, construct, f'arithmetic on session[{key[:40]}]',
                     f'`{text}` computes with the session value, but {none_stores[0][0].split("::")[1]} '
                     f'stores None under the same key (`{norm(none_stores[0][1])}`): the default of '
                     '.get() applies only to a missing key, so the next request raises TypeError (500)',
                     node, file=construct.split('::')[0])
        else:
            rep.ok(rid, construct, f'arithmetic on session[{key[:40]}]',
                   f'{len(stores.get(key, []))} store(s) under the same key, none of None')
    # one counter, one key: every access to the session whose key is built from the same leading
    # literal (f'error-{..}') spells the key the same way - a reset under a differently formatted key
    # silently resets nothing
    families: dict[str, dict[str, list[tuple[str, ast.AST]]]] = {}
    for rel in rep.repo.py_files('dashlive/server'):
        tree = rep.repo.tree(rel)
        for fn in [n for n in ast.walk(tree) if isinstance(n, (ast.FunctionDef, ast.AsyncFunctionDef))]:
            for n in ast.walk(fn):
                k = None
                if isinstance(n, ast.Subscript) and norm(n.value) == 'flask.session':
                    k = n.slice
                elif isinstance(n, ast.Call) and call_name(n) in (
                        'flask.session.get', 'flask.session.pop', 'flask.session.setdefault') and n.args:
                    k = n.args[0]
                if k is None:
                    continue
                if isinstance(k, ast.Name):
                    defs = [a for a in ast.walk(fn) if isinstance(a, ast.Assign) and norm(a.targets[0]) == k.id]
                    if len(defs) == 1:
                        k = defs[0].value
                if isinstance(k, ast.JoinedStr) and k.values and isinstance(k.values[0], ast.Constant) \
                        and len(k.values) > 1:
                    families.setdefault(k.values[0].value, {}).setdefault(norm(k), []).append((f'{rel}::{fn.name}', n))
    for lead, forms in families.items():
        if len(forms) == 1:
            form, sites = next(iter(forms.items()))
            rep.ok(rid, sites[0][0], f'one spelling of session key {lead}*', f'{len(sites)} access(es) as {form}')
            continue
        major = max(forms.items(), key=lambda kv: len(kv[1]))[0]
        for form, sites in forms.items():
            if form == major:
                continue
            for construct, node in sites:
                rep.fail(rid, construct, f'one spelling of session key {lead}*',
                         f'`{short(node, 60)}` addresses the session with {form} while the other accesses of '
                         f'this counter use {major}: for some values these are different keys, so a reset or '
                         'read silently misses the stored value', node, file=construct.split('::')[0])
    if not reads:
        raise AnalysisError('no arithmetic on flask.session values found (the error counter moved?)')


def r16_11(rep: Report) -> None:
    """the manifest templates read `mpd.<attr>` from a ManifestContext: an attribute that a template
    reads without testing it first has to exist on every path through ManifestContext.__init__ - a
    class-level default, a property, or an assignment that is reached on all normal exits (must-assign
    analysis per mode, with summaries of the methods __init__ calls on self).  Otherwise Jinja hands a
    filter an Undefined value: UndefinedError, HTTP 500 (e.g. a stream without a timing reference)."""
    from ..templates import TemplateSet
    from .c05 import MANIFESTS, _mode_eval, supported_modes
    rid = 'R16.11'
    MCF = 'dashlive/server/requesthandler/manifest_context.py'
    tree = rep.repo.tree(MCF)
    cls = need(find_class(tree, 'ManifestContext'), 'ManifestContext')
    methods = {m.name: m for m in cls.body if isinstance(m, ast.FunctionDef)}
    always: set[str] = set()
    for st in cls.body:
        if isinstance(st, ast.AnnAssign) and isinstance(st.target, ast.Name) and st.value is not None:
            always.add(st.target.id)
        elif isinstance(st, ast.Assign):
            always |= {t.id for t in st.targets if isinstance(t, ast.Name)}
        elif isinstance(st, ast.FunctionDef):
            always.add(st.name)

    def must_assigned(mname: str, mode: str, stack: tuple = ()) -> frozenset:
        fn = methods.get(mname)
        if fn is None or mname in stack:
            return frozenset()

        def gen(st):
            out = []
            tg = st.targets if isinstance(st, ast.Assign) else (
                [st.target] if isinstance(st, (ast.AnnAssign, ast.AugAssign)) and getattr(st, 'value', None) is not None
                else [])
            for t in tg:
                for x in ([t] if not isinstance(t, (ast.Tuple, ast.List)) else t.elts):
                    if isinstance(x, ast.Attribute) and isinstance(x.value, ast.Name) and x.value.id == 'self':
                        out.append(x.attr)
            if not isinstance(st, (ast.If, ast.While, ast.For, ast.With, ast.Try)):
                for c in ast.walk(st):
                    if isinstance(c, ast.Call) and isinstance(c.func, ast.Attribute) \
                            and isinstance(c.func.value, ast.Name) and c.func.value.id == 'self' \
                            and c.func.attr in methods:
                        out.extend(must_assigned(c.func.attr, mode, stack + (mname,)))
            return out

        class Dom(MustFacts):
            def assume(self, test, s_, truth):
                # tests on the mode are decided for the mode under analysis
                t = norm(test)
                m_ = re.fullmatch(r"(?:self\.options|options|opts)\.mode (==|!=) '(\w+)'", t)
                if m_:
                    val = (mode == m_.group(2)) == (m_.group(1) == '==')
                    if val != truth:
                        return None
                return s_
        exits: list[frozenset] = []

        def on_exit(kind, st, s_):
            if kind in ('return', 'fall'):
                exits.append(frozenset(s_))
        Flow(Dom(gen), on_exit=on_exit).run(fn, frozenset())
        if not exits:
            return frozenset()
        out = exits[0]
        for e in exits[1:]:
            out = out & e
        return out
    ts = TemplateSet(rep.repo)
    roots = [f'manifests/{m}' for m in MANIFESTS]
    for r in roots:
        ts.analyse_root(r)
    reads: dict[tuple[str, str], list] = {}
    for sk in ts.sinks:
        m = re.match(r'mpd\.(\w+)', sk.expr)
        if not m:
            continue
        attr = m.group(1)
        if any(re.search(rf'\bmpd\.{attr}\b', g) for g in sk.guards):
            continue                        # tested first: an undefined attribute is falsy, not an error
        for mode in supported_modes(rep, sk.root_template):
            if any(_mode_eval(g, mode) is False for g in sk.guards):
                continue
            reads.setdefault((attr, mode), []).append(sk)
    if len(reads) < 10:
        raise AnalysisError('manifest templates no longer read mpd.<attr> (template analysis changed?)')
    cache: dict[str, frozenset] = {}
    for (attr, mode), sinks in sorted(reads.items()):
        if mode not in cache:
            cache[mode] = must_assigned('__init__', mode)
        key = f'mpd.{attr} [{mode}]'
        if attr in always:
            rep.ok(rid, f'{MCF}::ManifestContext', key, 'class-level default / property')
        elif attr in cache[mode]:
            rep.ok(rid, f'{MCF}::ManifestContext.__init__', key, 'assigned on every path')
        else:
            sk = sinks[0]
            rep.fail(rid, f'{MCF}::ManifestContext.__init__', key,
                     f'{sk.template}:{sk.line} renders `{{{{{sk.expr}{"|" + "|".join(sk.filters) if sk.filters else ""}}}}}` '
                     f'without testing it, but some path through ManifestContext.__init__ (mode {mode}) never assigns '
                     f'self.{attr} and the class has no default: the template gets an Undefined value '
                     '(UndefinedError -> HTTP 500), e.g. for a stream that has no timing reference yet',
                     methods['__init__'], file=MCF)


class _Raises(Exception):
    pass


class _Opaque(Exception):
    pass


def _eval_at_eof(e: ast.AST, var: str):
    """value of a test when `var` holds what read() returns at end of input (b''); raises _Raises when the
    evaluation itself raises (ord(b''), b''[0]) and _Opaque when the expression is not understood"""
    if isinstance(e, ast.Constant):
        return e.value
    if isinstance(e, ast.Name):
        if e.id == var:
            return b''
        raise _Opaque(e.id)
    if isinstance(e, ast.Tuple) or isinstance(e, ast.List) or isinstance(e, ast.Set):
        return tuple(_eval_at_eof(x, var) for x in e.elts)
    if isinstance(e, ast.UnaryOp) and isinstance(e.op, ast.Not):
        return not _eval_at_eof(e.operand, var)
    if isinstance(e, ast.BoolOp):
        res = None
        for v in e.values:
            res = _eval_at_eof(v, var)
            if isinstance(e.op, ast.And) and not res:
                return res
            if isinstance(e.op, ast.Or) and res:
                return res
        return res
    if isinstance(e, ast.Call):
        cn = call_name(e)
        args = [_eval_at_eof(a, var) for a in e.args]
        if cn == 'ord' and len(args) == 1:
            if isinstance(args[0], (bytes, str)) and len(args[0]) == 1:
                return ord(args[0])
            raise _Raises('ord() of an empty value')
        if cn == 'len' and len(args) == 1 and isinstance(args[0], (bytes, str, tuple)):
            return len(args[0])
        if cn in ('bool', 'bytes', 'str') and len(args) == 1:
            return {'bool': bool, 'bytes': bytes, 'str': str}[cn](args[0])
        raise _Opaque(cn or norm(e))
    if isinstance(e, ast.Subscript) and not isinstance(e.slice, ast.Slice):
        base, ix = _eval_at_eof(e.value, var), _eval_at_eof(e.slice, var)
        try:
            return base[ix]
        except Exception:
            raise _Raises('index into an empty value')
    if isinstance(e, ast.Compare):
        left = _eval_at_eof(e.left, var)
        for op, c_ in zip(e.ops, e.comparators):
            right = _eval_at_eof(c_, var)
            try:
                ok = {ast.Eq: lambda: left == right, ast.NotEq: lambda: left != right, ast.In: lambda: left in right,
                      ast.NotIn: lambda: left not in right, ast.Lt: lambda: left < right, ast.Gt: lambda: left > right,
                      ast.LtE: lambda: left <= right, ast.GtE: lambda: left >= right,
                      ast.Is: lambda: left is right, ast.IsNot: lambda: left is not right}[type(op)]()
            except KeyError:
                raise _Opaque(norm(e))
            except TypeError:
                raise _Raises('comparison of unlike types')
            if not ok:
                return False
            left = right
        return True
    raise _Opaque(norm(e))


def r16_12(rep: Report) -> None:
    """R16.12  a loop that reads until a sentinel also ends at the end of the input: with the variable holding
    what read() returns there (an empty bytes object) the loop test is false or raises, or a guarded
    break / return / raise in the body is taken before the next read.  Otherwise a truncated file makes the
    parser spin forever on empty reads (decided by evaluating the test on that one value)."""
    n = 0
    for rel in rep.repo.py_files('dashlive'):
        tree = rep.repo.tree(rel)
        for fn in [x for x in ast.walk(tree) if isinstance(x, (ast.FunctionDef, ast.AsyncFunctionDef))]:
            for loop in [x for x in ast.walk(fn) if isinstance(x, ast.While)]:
                reads = [a for a in ast.walk(loop) if isinstance(a, ast.Assign) and isinstance(a.value, ast.Call)
                         and isinstance(a.value.func, ast.Attribute) and a.value.func.attr in ('read', 'peek', 'recv')
                         and len(a.targets) == 1 and isinstance(a.targets[0], ast.Name)]
                for var in sorted({a.targets[0].id for a in reads}):
                    exits = [i for i in ast.walk(loop) if isinstance(i, ast.If)
                             and any(isinstance(x, ast.Name) and x.id == var for x in ast.walk(i.test))
                             and any(isinstance(b, (ast.Break, ast.Return, ast.Raise)) for st in i.body for b in ast.walk(st))]
                    in_test = any(isinstance(x, ast.Name) and x.id == var for x in ast.walk(loop.test))
                    if not in_test and not exits:
                        continue            # the loop does not depend on what was read
                    n += 1
                    construct = f'{rel}::{fn.name}'
                    key = f'while {short(loop.test, 40)} ends at end of input'
                    verdict = None
                    if in_test:
                        try:
                            verdict = 'test false' if not _eval_at_eof(loop.test, var) else None
                        except _Raises as err:
                            verdict = f'test raises ({err})'
                        except _Opaque:
                            verdict = None
                    if verdict is None:
                        for i in exits:
                            try:
                                if _eval_at_eof(i.test, var):
                                    verdict = f'`if {short(i.test, 30)}` leaves the loop'
                                    break
                            except _Raises as err:
                                verdict = f'`if {short(i.test, 30)}` raises ({err})'
                                break
                            except _Opaque:
                                continue
                    if verdict is not None:
                        rep.ok('R16.12', construct, key, verdict)
                    else:
                        rep.fail('R16.12', construct, key,
                                 f'`{var}` is read inside the loop and at end of input read() returns an empty value, for which '
                                 f'`{short(loop.test, 50)}` stays true and no guarded exit is taken: a truncated input makes the '
                                 'loop run without bound (empty reads never advance)', loop)
    rep.extra['read_until_loops'] = n


_WIDE_FORMATS = {'I', 'i', 'Q', 'q', 'L', 'l'}


def _read_width(e: ast.AST) -> int | None:
    """bit width of the integer a reading expression yields, None if `e` is not recognised as a read:
    struct.unpack('>I', src.read(4))[0], r.get('I', ..), r.get(16, ..) of a bit reader"""
    if isinstance(e, ast.Subscript):
        e = e.value
    if not isinstance(e, ast.Call):
        return None
    cn = call_name(e) or ''
    if cn == 'struct.unpack' and e.args and isinstance(e.args[0], ast.Constant) and isinstance(e.args[0].value, str):
        fmt = e.args[0].value.lstrip('<>!=@')
        return {'B': 8, 'b': 8, 'H': 16, 'h': 16, 'I': 32, 'i': 32, 'L': 32, 'l': 32, 'Q': 64, 'q': 64}.get(fmt[-1:] if fmt else '')
    if isinstance(e.func, ast.Attribute) and e.func.attr in ('get', 'read') and e.args:
        a0 = e.args[0]
        if isinstance(a0, ast.Constant) and isinstance(a0.value, str):
            return {'B': 8, 'H': 16, 'I': 32, 'i': 32, 'Q': 64, '3I': 24}.get(a0.value)
        if isinstance(a0, ast.Constant) and isinstance(a0.value, int):
            return a0.value              # bits (bit reader) - or a byte count of a raw read, which is no integer
    return None


def _fails_at_eof(call: ast.Call) -> bool:
    """a read that raises when the input has ended (so that a loop around it stops): struct.unpack of a read,
    a typed FieldReader get/read ('B', 'H', 'I', 'Q', '3I', 'S0'), any read of a bit reader.  A raw
    `src.read(n)` / `r.get(<n bytes>)` returns short data silently."""
    cn = call_name(call) or ''
    if cn == 'struct.unpack' and any(isinstance(x, ast.Call) and (call_name(x) or '').endswith('.read') for x in ast.walk(call)):
        return True
    if cn == 'ord' and any(isinstance(x, ast.Call) and (call_name(x) or '').endswith('.read') for x in ast.walk(call)):
        return True
    if isinstance(call.func, ast.Attribute) and call.func.attr in ('get', 'read') and call.args \
            and isinstance(call.args[0], ast.Constant) and isinstance(call.args[0].value, str):
        return True
    return False


def membership_guards(fn: ast.AST):
    """rejecting membership tests of a function: `if .. E not in S ..: raise / return` -> [(if, compare)]"""
    out = []
    for i in ast.walk(fn):
        if isinstance(i, ast.If) and any(isinstance(b, (ast.Raise, ast.Return)) for b in i.body):
            for c in ast.walk(i.test):
                if isinstance(c, ast.Compare) and len(c.ops) == 1 and isinstance(c.ops[0], ast.NotIn):
                    out.append((i, c))
    return out


def unvalidated_uses(fn: ast.AST, guard: ast.If, cmp_: ast.Compare) -> list[ast.AST]:
    """The left side of a rejecting membership test is the value that was validated.  When it is a *transform* of
    a name (`method.lower() not in METHODS`) and the name itself is read after the test - returned, stored,
    passed on - what goes on is not what was validated: `Direct` passes the test and reaches a consumer that
    compares case-sensitively.  -> the later reads of the untransformed name (none when the left side is a
    plain name / attribute / constant, or when every later read applies the same transform, or the name was
    rebound to the transformed value)."""
    left = cmp_.left
    if isinstance(left, (ast.Name, ast.Attribute, ast.Constant)):
        return []
    if isinstance(left, ast.Subscript) and isinstance(left.value, (ast.Name, ast.Attribute)):
        return []
    want = norm(left)
    bases = {x.id for x in ast.walk(left) if isinstance(x, ast.Name) and isinstance(x.ctx, ast.Load)}
    # transforms that cannot change which member of the set the value is do not count (int(x), str(x) of a name are
    # conversions the caller relies on as well) - only text normalisations are in question
    if not any(isinstance(x, ast.Call) and isinstance(x.func, ast.Attribute)
               and x.func.attr in ('lower', 'upper', 'strip', 'lstrip', 'rstrip', 'casefold', 'title', 'capitalize', 'replace')
               for x in ast.walk(left)):
        return []
    end = getattr(guard, 'end_lineno', guard.lineno)
    covered: set[int] = set()
    for n in ast.walk(fn):
        if norm(n) == want:
            covered |= {id(x) for x in ast.walk(n)}
    rebound_at: dict[str, int] = {}
    for a in ast.walk(fn):
        if isinstance(a, ast.Assign) and len(a.targets) == 1 and isinstance(a.targets[0], ast.Name) \
                and a.targets[0].id in bases and norm(a.value) == want:
            rebound_at[a.targets[0].id] = min(rebound_at.get(a.targets[0].id, 10 ** 9), a.lineno)
    bad = []
    for x in ast.walk(fn):
        if isinstance(x, ast.Name) and x.id in bases and isinstance(x.ctx, ast.Load) and x.lineno > end \
                and id(x) not in covered and x.lineno <= rebound_at.get(x.id, 10 ** 9):
            par = getattr(x, '_parent', None)
            if isinstance(par, ast.Compare) and isinstance(par.ops[0], (ast.Is, ast.IsNot)):
                continue
            bad.append(x)
    return bad


def r16_17(rep: Report, idx: Index) -> None:
    """R16.17  what a rejecting membership test validated is what goes on (see unvalidated_uses)."""
    rid = 'R16.17'
    for rel in rep.repo.py_files('dashlive'):
        tree = rep.repo.tree(rel)
        for fn in [n for n in ast.walk(tree) if isinstance(n, (ast.FunctionDef, ast.AsyncFunctionDef))]:
            for guard, c in membership_guards(fn):
                if enclosing_function(guard) is not fn:
                    continue
                cl = enclosing_class(fn)
                construct = f'{rel}::{cl.name + "." if cl else ""}{fn.name}'
                bad = unvalidated_uses(fn, guard, c)
                if not bad:
                    rep.ok(rid, construct, f'{short(c, 50)}')
                else:
                    u = bad[0]
                    rep.fail(rid, construct, f'{short(c, 50)}',
                             f'the test validates `{norm(c.left)}` but `{u.id}` itself goes on (line {u.lineno}: '
                             f'`{short(getattr(u, "_parent", u), 60)}`): a value that only passes in its transformed form '
                             '(another case, surrounding blanks) is accepted here and reaches consumers that compare it as typed - '
                             'an unknown name then surfaces as an unhandled exception instead of a 4xx', u)


def r16_16(rep: Report) -> None:
    """R16.16  BufferedReader.peek() - the reader every media segment request parses through - starts with
    `assert size > 0` (premise, re-read on every run).  A parser that peeks at a payload must therefore do so only
    on paths that imply a positive length: a box without payload (an 8-byte `free` padding box inside a fragment)
    otherwise ends the request with an AssertionError, HTTP 500.  Every `<src>.peek(E)` outside the reader class is
    reached only where the path condition implies E > 0 (E != 0, not E <= 0, E >= 1 or E is true)."""
    from ..flow import Disjunctive, Flow
    from ..pathcond import PathCond, entails as pc_entails, f_not, show as pc_show
    rid = 'R16.16'
    brel = 'dashlive/utils/buffered_reader.py'
    bt = rep.repo.tree(brel)
    bc = need(find_class(bt, 'BufferedReader'), 'BufferedReader')
    pk = need(find_func(bc, 'peek', raw=True) or find_func(bc, 'peek'), 'BufferedReader.peek')
    par = [a.arg for a in pk.args.args if a.arg != 'self']
    premise = any(isinstance(x, ast.Assert) and par and norm(x.test) in (f'{par[0]} > 0', f'{par[0]} >= 1', f'0 < {par[0]}')
                  for x in pk.body[:4])
    if not premise:
        rep.ok(rid, f'{brel}::BufferedReader.peek', 'precondition', 'peek() no longer asserts a positive size: nothing to show')
        return
    n = 0
    for rel in rep.repo.py_files('dashlive'):
        if rel == brel or '.peek(' not in rep.repo.source(rel):
            continue
        for cls_, fn in rep.repo.expanded_functions(rel):
            def peeks(st):
                return [c for c in ast.walk(st) if isinstance(c, ast.Call) and isinstance(c.func, ast.Attribute)
                        and c.func.attr == 'peek' and len(c.args) == 1 and not c.keywords]
            if not peeks(fn):
                continue
            construct = f'{rel}::{(cls_.name + ".") if cls_ else ""}{fn.name}'
            at: dict[int, list] = {}

            def on_stmt(st, states, at=at):
                if isinstance(st, (ast.If, ast.While, ast.For, ast.Try, ast.With)):
                    return
                if peeks(st):
                    at.setdefault(id(st), [st, []])[1].extend(states)
            Flow(Disjunctive(PathCond(), cap=64), on_stmt=on_stmt).run(fn, [PathCond.initial()])
            for st, states in at.values():
                for c in peeks(st):
                    e = norm(c.args[0])
                    n += 1
                    key = f'{norm(c.func.value)}.peek({e[:40]})'
                    if isinstance(c.args[0], ast.Constant) and isinstance(c.args[0].value, int) and c.args[0].value > 0:
                        rep.ok(rid, construct, key, 'constant positive length')
                        continue
                    goals = [('atom', f'{e} > 0'), ('atom', f'{e} >= 1'), ('atom', e), f_not(('atom', f'{e} == 0')),
                             f_not(('atom', f'{e} <= 0')), f_not(('atom', f'{e} < 1')), ('atom', f'0 < {e}')]
                    bad = [x for x in states if not any(pc_entails(x[0], g) is True for g in goals)]
                    if states and not bad:
                        rep.ok(rid, construct, key, f'only where {e} is positive')
                    else:
                        rep.fail(rid, construct, key,
                                 f'`{norm(c)[:60]}` is reached on a path that does not imply `{e} > 0`'
                                 + (f' (path: {pc_show(bad[0][0])[:100]})' if bad else '') +
                                 ': BufferedReader.peek() asserts a positive size, so a box without payload in a stored '
                                 'fragment (an empty `free` box) ends the media request with AssertionError -> 500', c)
    if n == 0:
        rep.ok(rid, 'dashlive', 'no peek() outside the reader')


def r16_13(rep: Report, idx: Index) -> None:
    """R16.13  a parser loop whose trip count is a 32 / 64 bit number read from the input reads, on every path of
    its body, something whose read fails at end of input - so an inflated count (a flipped bit, a size-field
    edit) runs into the end of the data instead of running 2^32 times on nothing.  A body that can pass
    without such a read (every per-item field optional, a raw read that returns short data silently)
    turns a 100-byte upload into hours of CPU and gigabytes of list.  Counts of at most 16 bits are bounded
    and not judged; bit readers are built over a buffer of the box's size and fail at its end."""
    rid = 'R16.13'
    n = 0
    parsers = {}
    # premise, re-read on every run: does FieldReader.get(<n bytes>) raise on a short read?
    raw_get_fails = False
    frt = rep.repo.tree('dashlive/utils/fio/field_reader.py')
    fr_get = find_func(find_class(frt, 'FieldReader') or frt, 'get', raw=True) if find_class(frt, 'FieldReader') else None
    if fr_get is not None:
        for br in ast.walk(fr_get):
            if isinstance(br, ast.If) and 'isinstance(size' in norm(br.test):
                for inner in ast.walk(br):
                    if isinstance(inner, ast.If) and 'len(' in norm(inner.test) and any(isinstance(x, ast.Raise) for x in inner.body):
                        raw_get_fails = True
    rep.extra['FieldReader.get(<n bytes>) raises on a short read'] = raw_get_fails
    for rel in [r_ for r_ in rep.repo.py_files('dashlive/mpeg') + rep.repo.py_files('dashlive/scte35')]:
        tree = rep.repo.tree(rel)
        for cls in [c for c in ast.walk(tree) if isinstance(c, ast.ClassDef)]:
            for m in cls.body:
                if isinstance(m, ast.FunctionDef) and m.name == 'parse':
                    parsers[cls.name] = (rel, cls, m)

    def bit_reader_names(fn: ast.FunctionDef) -> set[str]:
        return {t.id for a in ast.walk(fn) if isinstance(a, ast.Assign) and isinstance(a.value, ast.Call)
                and (call_name(a.value) or '').endswith('BitsFieldReader') for t in a.targets if isinstance(t, ast.Name)}

    def must_fail_at_eof(stmts: list[ast.stmt], fn: ast.FunctionDef, depth: int = 0) -> bool:
        """every path through `stmts` performs a read that raises at end of input"""
        bits = bit_reader_names(fn) | {a.arg for a in fn.args.args if a.arg in ('r', 'reader', 'bits')}
        for st in stmts:
            if isinstance(st, ast.If):
                if must_fail_at_eof(st.body, fn, depth) and st.orelse and must_fail_at_eof(st.orelse, fn, depth):
                    return True
                # the test itself may read
                if any(isinstance(c, ast.Call) and _fails_at_eof(c) for c in ast.walk(st.test)):
                    return True
                continue
            if isinstance(st, (ast.For, ast.While)):
                continue                    # may run zero times
            if isinstance(st, (ast.Try, ast.With)):
                if must_fail_at_eof(st.body, fn, depth):
                    return True
                continue
            for c in ast.walk(st):
                if not isinstance(c, ast.Call):
                    continue
                if _fails_at_eof(c):
                    return True
                if raw_get_fails and isinstance(c.func, ast.Attribute) and c.func.attr in ('get', 'read') and c.args \
                        and isinstance(c.func.value, ast.Name) and c.func.value.id not in ('src', 'self') \
                        and not (isinstance(c.args[0], ast.Constant) and c.args[0].value == 0):
                    return True             # a FieldReader: also its raw byte reads fail when short
                if isinstance(c.func, ast.Attribute) and c.func.attr in ('get', 'read', 'get_bytes', 'read_bytes') \
                        and isinstance(c.func.value, ast.Name) and c.func.value.id in bits and c.args \
                        and not (isinstance(c.args[0], ast.Constant) and c.args[0].value == 0):
                    return True
                # a nested parser
                if isinstance(c.func, ast.Attribute) and c.func.attr == 'parse' and isinstance(c.func.value, ast.Name) \
                        and c.func.value.id in parsers and depth < 2:
                    _rel, _cls, m = parsers[c.func.value.id]
                    if must_fail_at_eof(m.body, m, depth + 1):
                        return True
        return False
    for cname, (rel, cls, fn) in sorted(parsers.items()):
        for loop in [x for x in ast.walk(fn) if isinstance(x, ast.For)]:
            it = loop.iter
            if not (isinstance(it, ast.Call) and call_name(it) == 'range' and it.args):
                continue
            count = it.args[-1] if len(it.args) <= 2 else it.args[1]
            ctext = norm(count)
            defs = [a.value for a in ast.walk(fn) if isinstance(a, (ast.Assign, ast.AnnAssign)) and getattr(a, 'value', None) is not None
                    and norm(a.targets[0] if isinstance(a, ast.Assign) else a.target) == ctext]
            width = None
            for d in defs:
                w = _read_width(d)
                if w is not None:
                    width = max(width or 0, w)
                elif isinstance(d, ast.Name):
                    for d2 in [a.value for a in ast.walk(fn) if isinstance(a, ast.Assign) and norm(a.targets[0]) == d.id]:
                        w2 = _read_width(d2)
                        if w2 is not None:
                            width = max(width or 0, w2)
            if width is None:
                # rv['count'] filled by r.read('I', 'count')
                m_ = re.fullmatch(r"\w+\['(\w+)'\]", ctext)
                if m_:
                    for c in ast.walk(fn):
                        if isinstance(c, ast.Call) and isinstance(c.func, ast.Attribute) and c.func.attr == 'read' \
                                and len(c.args) >= 2 and isinstance(c.args[1], ast.Constant) and c.args[1].value == m_.group(1):
                            width = _read_width(c)
            if width is None or width <= 16:
                continue
            n += 1
            construct = f'{rel}::{cname}.parse'
            cname_ = re.findall(r'\w+', ctext)[-1] if re.findall(r'\w+', ctext) else ctext      # rv['sample_count'] and sample_count are one count
            key = f'for .. in range({cname_}) consumes input'
            if must_fail_at_eof(loop.body, fn):
                rep.ok(rid, construct, key, f'{width}-bit count; every path of the body reads something that fails at end of input')
            else:
                rep.fail(rid, construct, key,
                         f'the trip count `{ctext}` is a {width}-bit number read from the input and a path through the loop '
                         'body reads nothing that fails at end of input (optional per-item fields, or a raw read that '
                         'returns short data silently): an inflated count runs up to 2^32 iterations on no data - hours '
                         'of CPU and gigabytes of list from a file of a few hundred bytes', loop)
    rep.extra['count_driven_parser_loops'] = n


def r16_14(rep: Report, idx: Index) -> None:
    """R16.14  an attribute read from an object that the same handler function constructed exists when it is
    read: it is a method / property / class-level value of the class or a base, a key of DEFAULT_VALUES, a
    keyword given to the constructor, assigned on every path of __init__ (also through apply_defaults with a
    literal dict), or assigned before the read on every path - directly, or by a method called on the object
    whose own paths all assign it (method summaries).  An attribute that only some branch of a set-up
    method assigns (`if use_base_urls: self.baseURL = ..`) and that the handler then reads unconditionally
    is an AttributeError, i.e. a 500, for the requests that take the other branch."""
    rid = 'R16.14'

    def resolve(rel: str, name: str):
        """ClassInfo of a class name as the module `rel` sees it (defined there or imported)"""
        m = idx.by_rel.get(rel)
        if m is None:
            return None
        if name in m.classes:
            return m.classes[name]
        q = m.imports.get(name)
        return idx.classes.get(q) if q else None

    def lineage(ci) -> list:
        out, todo = [], [ci]
        while todo:
            c = todo.pop(0)
            if c in out:
                continue
            out.append(c)
            todo.extend(c.bases)
        return out

    def static_attrs(ci) -> set[str] | None:
        """names every instance has; None when the class or a base outside the repository can provide
        attributes dynamically"""
        out: set[str] = set()
        for k in lineage(ci):
            if any(b.split('.')[-1] not in ('object', 'ABC', 'Generic', 'Protocol', 'NamedTuple', 'MutableMapping', 'Mapping',
                                            'Sequence', 'MutableSequence', 'Iterator', 'Iterable') for b in k.ext_bases):
                return None
            for st in k.node.body:
                if isinstance(st, (ast.FunctionDef, ast.AsyncFunctionDef)):
                    if st.name in ('__getattr__', '__getattribute__'):
                        return None
                    out.add(st.name)
                elif isinstance(st, ast.AnnAssign) and isinstance(st.target, ast.Name):
                    if st.value is not None or any(b.endswith('NamedTuple') for b in k.ext_bases) \
                            or any('dataclass' in norm(d) for d in k.node.decorator_list):
                        out.add(st.target.id)
                    if st.target.id == 'DEFAULT_VALUES' and isinstance(st.value, ast.Dict):
                        out |= {k_.value for k_ in st.value.keys if isinstance(k_, ast.Constant)}
                elif isinstance(st, ast.Assign):
                    for t in st.targets:
                        if isinstance(t, ast.Name):
                            out.add(t.id)
                            if t.id == 'DEFAULT_VALUES' and isinstance(st.value, ast.Dict):
                                out |= {k_.value for k_ in st.value.keys if isinstance(k_, ast.Constant)}
            init = next((m for m in k.node.body if isinstance(m, ast.FunctionDef) and m.name == '__init__'), None)
            if init is not None:
                out |= must_assign_self(k, init)
        return out
    summaries: dict[int, frozenset] = {}

    def must_assign_self(c, fn: ast.FunctionDef, stack: tuple = ()) -> frozenset:
        if id(fn) in summaries:
            return summaries[id(fn)]
        if fn.name in stack:
            return frozenset()
        key_ = id(fn)
        try:
            fn = rep.repo.normaliser.expand(fn)        # match -> if, helpers that are new inlined
        except Exception:
            pass
        methods = {}
        for k in reversed(lineage(c)):
            for m in k.node.body:
                if isinstance(m, ast.FunctionDef):
                    methods[m.name] = m

        def gen(st):
            out = []
            tg = st.targets if isinstance(st, ast.Assign) else (
                [st.target] if isinstance(st, (ast.AnnAssign, ast.AugAssign)) and getattr(st, 'value', None) is not None else [])
            for t in tg:
                for x in ([t] if not isinstance(t, (ast.Tuple, ast.List)) else t.elts):
                    if isinstance(x, ast.Attribute) and isinstance(x.value, ast.Name) and x.value.id == 'self':
                        out.append(x.attr)
            if not isinstance(st, (ast.If, ast.While, ast.For, ast.With, ast.Try)):
                for call in ast.walk(st):
                    if isinstance(call, ast.Call) and isinstance(call.func, ast.Attribute) \
                            and isinstance(call.func.value, ast.Name) and call.func.value.id == 'self':
                        if call.func.attr == 'apply_defaults' and call.args:
                            d = call.args[0]
                            if isinstance(d, ast.Name):
                                ds = [a.value for a in ast.walk(fn) if isinstance(a, (ast.Assign, ast.AnnAssign))
                                      and getattr(a, 'value', None) is not None
                                      and norm(a.targets[0] if isinstance(a, ast.Assign) else a.target) == d.id]
                                d = ds[0] if len(ds) == 1 else None
                            if isinstance(d, ast.Dict):
                                out.extend(k_.value for k_ in d.keys if isinstance(k_, ast.Constant))
                        elif call.func.attr in methods and call.func.attr != fn.name:
                            out.extend(must_assign_self(c, methods[call.func.attr], stack + (fn.name,)))
            return out
        exits: list[frozenset] = []

        def on_exit(kind, st, s_):
            if kind in ('return', 'fall'):
                exits.append(frozenset(s_))
        Flow(MustFacts(gen), on_exit=on_exit).run(fn, frozenset())
        res = frozenset.intersection(*exits) if exits else frozenset()
        summaries[key_] = res
        return res
    def conditional_assigns(c, m: ast.FunctionDef) -> list[tuple[str, str]]:
        """(parameter, attribute) for `if <parameter>: self.<attribute> = ..` at the top level of a method: the
        attribute exists after the call whenever the argument given for that parameter is true"""
        params = [a.arg for a in m.args.args[1:]] + [a.arg for a in m.args.kwonlyargs]
        out = []
        for st in m.body:
            if isinstance(st, ast.If) and isinstance(st.test, ast.Name) and st.test.id in params:
                for x in ast.walk(ast.Module(body=st.body, type_ignores=[])):
                    if isinstance(x, ast.Assign):
                        for t in x.targets:
                            if isinstance(t, ast.Attribute) and isinstance(t.value, ast.Name) and t.value.id == 'self' \
                                    and x in st.body:
                                out.append((st.test.id, t.attr))
        return out

    def guards_of(node: ast.AST, fn: ast.AST) -> set[str]:
        """conjuncts of the `if` tests whose true branch contains `node`"""
        out: set[str] = set()
        child = node
        for a in ancestors(node):
            if isinstance(a, ast.If) and any(child is b or any(child is y for y in ast.walk(b)) for b in a.body):
                vals = a.test.values if isinstance(a.test, ast.BoolOp) and isinstance(a.test.op, ast.And) else [a.test]
                out |= {norm(v) for v in vals}
            if a is fn:
                break
            child = a
        return out
    n = 0
    for rel in rep.repo.py_files('dashlive/server/requesthandler'):
        tree = rep.repo.tree(rel)
        for fn in [x for x in ast.walk(tree) if isinstance(x, (ast.FunctionDef, ast.AsyncFunctionDef))]:
            built: dict = {}
            ctor_sites: dict[str, list] = {}
            for a in ast.walk(fn):
                if isinstance(a, (ast.Assign, ast.AnnAssign)) and getattr(a, 'value', None) is not None:
                    tg = a.targets[0] if isinstance(a, ast.Assign) and len(a.targets) == 1 else getattr(a, 'target', None)
                    if isinstance(tg, ast.Name):
                        ctor_sites.setdefault(tg.id, []).append(a.value)
            for name, vals in ctor_sites.items():
                stores = [x for x in ast.walk(fn) if isinstance(x, ast.Name) and x.id == name and isinstance(x.ctx, ast.Store)]
                if len(stores) != len(vals):
                    continue                # bound by a loop, a with, an unpacking ... as well
                cis = []
                for v_ in vals:
                    cn = call_name(v_) if isinstance(v_, ast.Call) else None
                    ci = resolve(rel, cn) if cn and '.' not in cn and cn[:1].isupper() else None
                    if ci is None or any(k.arg is None for k in v_.keywords):
                        cis = []
                        break
                    cis.append((ci, {k.arg for k in v_.keywords}))
                if cis and len({c_.qual for c_, _k in cis}) == 1:
                    built[name] = (cis[0][0], set.intersection(*[k for _c, k in cis]))
            if not built:
                continue
            info = {}
            for v, (c, kws) in built.items():
                sa_ = static_attrs(c)
                if sa_ is not None:
                    info[v] = (c, sa_ | kws)
            if not info:
                continue

            def gen(st, _info=info):
                out = []
                tg = st.targets if isinstance(st, ast.Assign) else (
                    [st.target] if isinstance(st, (ast.AnnAssign, ast.AugAssign)) and getattr(st, 'value', None) is not None else [])
                for t in tg:
                    if isinstance(t, ast.Attribute) and isinstance(t.value, ast.Name) and t.value.id in _info \
                            and not isinstance(st, ast.AugAssign):
                        out.append(f'{t.value.id}.{t.attr}')
                if not isinstance(st, (ast.If, ast.While, ast.For, ast.With, ast.Try)):
                    for call in ast.walk(st):
                        if isinstance(call, ast.Call) and isinstance(call.func, ast.Attribute) \
                                and isinstance(call.func.value, ast.Name) and call.func.value.id in _info:
                            c = _info[call.func.value.id][0]
                            m = next((m_ for k in lineage(c) for m_ in k.node.body
                                      if isinstance(m_, ast.FunctionDef) and m_.name == call.func.attr), None)
                            if m is not None:
                                out.extend(f'{call.func.value.id}.{a_}' for a_ in must_assign_self(c, m))
                                # attributes the method assigns when one of its arguments is true
                                names = [a_.arg for a_ in m.args.args[1:]]
                                given = {k.arg: norm(k.value) for k in call.keywords if k.arg}
                                given.update({names[i]: norm(a_) for i, a_ in enumerate(call.args) if i < len(names)})
                                for par, attr in conditional_assigns(c, m):
                                    if par in given:
                                        out.append(f'{call.func.value.id}.{attr}?{given[par]}')
                return out
            reads: list = []

            def on_stmt(st, s_, _info=info, _reads=reads):
                if isinstance(st, (ast.While, ast.For, ast.With, ast.Try)):
                    return
                scope = [st.test] if isinstance(st, ast.If) else [st]
                for root in scope:
                    for x in ast.walk(root):
                        if isinstance(x, ast.Attribute) and isinstance(x.ctx, ast.Load) and isinstance(x.value, ast.Name) \
                                and x.value.id in _info and x.attr not in _info[x.value.id][1] \
                                and f'{x.value.id}.{x.attr}' not in s_:
                            conds = {f_.split('?', 1)[1] for f_ in s_ if f_.startswith(f'{x.value.id}.{x.attr}?')}
                            if conds & guards_of(x, fn):
                                continue        # assigned when <cond>, read under the same <cond>
                            par = getattr(x, '_parent', None)
                            if isinstance(par, ast.Call) and par.func is x and x.attr in ('add_field', 'apply_defaults', 'toJSON'):
                                continue
                            _reads.append((x, st))
            from ..flow import each as _each
            Flow(MustFacts(gen), on_stmt=on_stmt).run(fn, frozenset())
            cls_name = next((a.name for a in ancestors(fn) if isinstance(a, ast.ClassDef)), None)
            construct = f'{rel}::{(cls_name + ".") if cls_name else ""}{fn.name}'
            seen = set()
            for v, (c, attrs) in info.items():
                n += 1
                bad = [(x, st) for x, st in reads if x.value.id == v and (v, x.attr) not in seen]
                if not bad:
                    rep.ok(rid, construct, f'attributes read from {v} = {c.name}(..)')
                for x, st in bad:
                    if (v, x.attr) in seen:
                        continue
                    seen.add((v, x.attr))
                    rep.fail(rid, construct, f'{v}.{x.attr} read from {c.name}(..)',
                             f'`{short(st, 70)}` reads `{v}.{x.attr}`, which neither {c.name} nor its constructor call '
                             'defines and which is not assigned on every path before this statement (a set-up method '
                             'assigns it on some of its branches only): AttributeError -> 500 for the requests that '
                             'take the other branch', x)
    rep.extra['objects_built_in_handlers'] = n


def analyse(rep: Report) -> None:
    rep.explanation = (
        'Interprocedural exception-escape analysis from every routed (handler, verb) entry point '
        'over the resolved call graph, with except-clauses matched against the exception '
        'hierarchy; taint-restricted assertion rule; parser-under-handler rule for uploaded '
        'bytes; loop-progress rule for counted while loops on request paths; definite conversion '
        'crashes; structure of the synthetic-error selection. Decides explicit error signals and '
        'loop progress, not the absence of implicit Python exceptions in general.')
    rep.rule('R16.1', 'explicit error signals reachable from an entry point are mapped to 4xx '
                      '(or proven unreachable by a listed invariant)', floor=12)
    rep.rule('R16.2', 'assertions on request-controlled values cannot escape an entry point', floor=0)
    rep.rule('R16.3', 'untrusted bytes are parsed under a handler', floor=3)
    rep.rule('R16.4', 'counted while-loops on request paths make progress', floor=3)
    rep.rule('R16.5', 'attributes read from library modules / annotated builtin containers exist',
             floor=1)
    rep.rule('R16.6', 'no int(x, base) on a value known to be an int', floor=5)
    rep.rule('R16.8', 'option parsers reject exactly the values their consumers cannot handle',
             floor=2)
    rep.rule('R16.7', 'synthetic errors fire exactly for the addressed request; no other literal 5xx',
             floor=10)
    rep.rule('R16.10', 'error positions are converted with the representation of their own media type', floor=2)
    rep.rule('R16.11', 'attributes the manifest templates read unguarded exist on every path of ManifestContext.__init__', floor=10)
    rep.rule('R16.9', 'session values are stored in the type their readers compute with', floor=1)
    rep.rule('R16.12', 'loops that read until a sentinel end at the end of the input', floor=1)
    rep.rule('R16.13', 'parser loops driven by a 32-bit count from the input consume input that fails at its end', floor=3)
    rep.rule('R16.14', 'attributes read from an object built in the same handler function exist on every path', floor=3)
    rep.rule('R16.16', 'a payload is peeked at only where its length is positive (BufferedReader.peek asserts it)', floor=1)
    rep.rule('R16.17', 'what a rejecting membership test validated is the value that goes on', floor=20)
    rep.rule('R16.15', 'the invariants that make the range assertions of generate_media_segment unreachable hold (rule of C06)', floor=1)
    idx = Index(rep.repo)
    cg = CallGraph(idx)
    validated_ok = r16_8(rep, idx)
    r16_1_2(rep, idx, cg, validated_ok)
    r16_3(rep, idx, cg)
    r16_5(rep, idx)
    r16_4(rep, idx, cg)
    r16_6(rep, idx)
    r16_7(rep, idx)
    r16_9(rep, idx)
    r16_10(rep, idx)
    r16_11(rep)
    r16_12(rep)
    r16_13(rep, idx)
    r16_14(rep, idx)
    r16_16(rep)
    r16_17(rep, idx)
    from ..core import lift
    from . import c06 as _c06

    def _run(sub):
        sub.rule('R06.3', 'numbers outside first..last are refused on every path', floor=0)
        _c06.r06_3(sub)
    lift(rep, 'R16.15', 'C06', _run, ('R06.3',), 'dashlive/mpeg/dash/representation.py::Representation.calculate_first_and_last_segment_number',
         'first..last is the stored range, numbers outside it raise ValueError (-> 404)')
    rep.assumptions = [
        'call edges are the resolved ones (CHA, typed locals, proxies); template calls are added '
        'for the three timeline generators; unresolved dynamic calls propagate nothing',
        'only explicit raise/assert signals and the listed conversion idiom are decided - Python '
        'can raise implicitly almost anywhere',
        'triage table rows (unreachable + invariant) were confirmed by reading the callers',
    ]

"""E3 - path engine over Python's structured control flow.

A forward data-flow framework that walks a function's statement tree the way a
CFG fix-point would (if/elif/else, for/while with break/continue/else,
try/except/else/finally, with, return, raise, assert, match is not used by the
repository).  Clients supply the lattice:

    copy(s), join(a, b), leq(a, b), transfer(stmt, s) -> s,
    assume(test, s, truth) -> s | None, widen(old, new) -> s

and observe through hooks: on_stmt(stmt, state) before each simple statement,
on_exit(kind, stmt, state) at every function exit ('return' / 'raise' / 'fall').
State None is bottom (unreachable).
"""
from __future__ import annotations

import ast
from typing import Any, Callable


class Domain:
    def copy(self, s): return s
    def join(self, a, b): raise NotImplementedError
    def leq(self, a, b): return a == b
    def widen(self, old, new): return new
    def transfer(self, stmt: ast.stmt, s): return s
    def assume(self, test: ast.expr, s, truth: bool): return s
    # binding of a loop target / with-as / except-as
    def bind(self, target: ast.AST | None, s, source: ast.AST | None = None): return s


def may_raise(st: ast.stmt) -> bool:
    """default exception model: every statement may raise, except binding plain names to a constant or
    to another plain name (`flag = True`, `a = b`) and `pass`"""
    if isinstance(st, ast.Pass):
        return False
    if isinstance(st, (ast.Assign, ast.AnnAssign)) and getattr(st, 'value', None) is not None:
        tgts = st.targets if isinstance(st, ast.Assign) else [st.target]
        if all(isinstance(t, ast.Name) for t in tgts) and isinstance(st.value, (ast.Constant, ast.Name)):
            return False
    return True


class Flow:
    def __init__(self, dom: Domain,
                 on_stmt: Callable[[ast.stmt, Any], None] | None = None,
                 on_exit: Callable[[str, ast.AST | None, Any], None] | None = None,
                 raises: Callable[[ast.stmt], bool] | None = None) -> None:
        self.d = dom
        self.on_stmt = on_stmt
        self.on_exit = on_exit
        # which statements may raise (for try/except modelling); default: any
        self.raises = raises or may_raise
        self._loops: list[dict[str, list]] = []
        self._tries: list[list] = []

    # -- helpers -----------------------------------------------------------
    def _join(self, a, b):
        if a is None:
            return b
        if b is None:
            return a
        return self.d.join(a, b)

    def _joinall(self, states):
        out = None
        for s in states:
            out = self._join(out, s)
        return out

    def run(self, func: ast.FunctionDef | ast.AsyncFunctionDef, init) -> Any:
        out = self.block(func.body, init)
        if out is not None and self.on_exit:
            self.on_exit('fall', None, out)
        return out

    def block(self, stmts: list[ast.stmt], s):
        for st in stmts:
            if s is None:
                return None
            s = self.stmt(st, s)
        return s

    def _note_raise(self, s) -> None:
        """An exception may leave the current statement with state s."""
        if self._tries and s is not None:
            self._tries[-1].append(self.d.copy(s))

    # -- statements ----------------------------------------------------------
    def stmt(self, st: ast.stmt, s):
        d = self.d
        if isinstance(st, ast.If):
            if self.on_stmt:
                self.on_stmt(st, s)
            st_true = d.assume(st.test, d.copy(s), True)
            st_false = d.assume(st.test, d.copy(s), False)
            a = self.block(st.body, st_true) if st_true is not None else None
            b = self.block(st.orelse, st_false) if st_false is not None else None
            return self._join(a, b)
        if isinstance(st, (ast.While,)):
            return self._loop(st, s, st.test, None, None)
        if isinstance(st, (ast.For, ast.AsyncFor)):
            return self._loop(st, s, None, st.target, st.iter)
        if isinstance(st, (ast.With, ast.AsyncWith)):
            if self.on_stmt:
                self.on_stmt(st, s)
            for item in st.items:
                s = d.bind(item.optional_vars, s, item.context_expr)
            if self.raises(st):
                self._note_raise(s)
            return self.block(st.body, s)
        if isinstance(st, ast.Try):
            return self._try(st, s)
        if isinstance(st, ast.Return):
            if self.on_stmt:
                self.on_stmt(st, s)
            if self.raises(st):
                self._note_raise(s)
            if self.on_exit:
                self.on_exit('return', st, s)
            return None
        if isinstance(st, ast.Raise):
            if self.on_stmt:
                self.on_stmt(st, s)
            if self._tries:
                self._tries[-1].append(d.copy(s))
            elif self.on_exit:
                self.on_exit('raise', st, s)
            return None
        if isinstance(st, ast.Break):
            if self._loops:
                self._loops[-1]['break'].append(d.copy(s))
            return None
        if isinstance(st, ast.Continue):
            if self._loops:
                self._loops[-1]['continue'].append(d.copy(s))
            return None
        if isinstance(st, ast.Assert):
            if self.on_stmt:
                self.on_stmt(st, s)
            self._note_raise(s)
            return d.assume(st.test, s, True)
        if isinstance(st, (ast.FunctionDef, ast.AsyncFunctionDef, ast.ClassDef)):
            return d.transfer(st, s)
        # simple statement
        if self.on_stmt:
            self.on_stmt(st, s)
        if self.raises(st):
            self._note_raise(s)
        return d.transfer(st, s)

    def _loop(self, st, s, test, target, it):
        d = self.d
        if self.on_stmt:
            self.on_stmt(st, s)
        # the states that enter the loop are kept apart from what comes round the back edge: widening
        # is applied to the back-edge part only, so a trace-partitioned domain still tells "first
        # iteration" from "after at least one iteration" at the head (one level of loop peeling)
        entry = d.copy(s)
        rest = None
        head = d.copy(entry)
        result_breaks: list = []
        for iteration in range(8):
            frame = {'break': [], 'continue': []}
            self._loops.append(frame)
            if test is not None:
                body_in = d.assume(test, d.copy(head), True)
            else:
                body_in = d.bind(target, d.copy(head), it)
            body_out = self.block(st.body, body_in) if body_in is not None else None
            self._loops.pop()
            back = self._joinall([body_out] + frame['continue'])
            result_breaks = frame['break']
            new_rest = self._join(d.copy(rest) if rest is not None else None, back)
            if new_rest is None or (rest is not None and d.leq(new_rest, rest)):
                break
            if iteration >= 2 and rest is not None:
                new_rest = d.widen(rest, new_rest)
            rest = new_rest
            head = self._join(d.copy(entry), d.copy(rest))
        if test is not None:
            exit_state = d.assume(test, d.copy(head), False)
        else:
            exit_state = d.copy(head)
        if exit_state is not None and st.orelse:
            exit_state = self.block(st.orelse, exit_state)
        return self._joinall([exit_state] + result_breaks)

    def _try(self, st: ast.Try, s):
        d = self.d
        self._tries.append([d.copy(s)])
        body_out = self.block(st.body, s)
        raised = self._tries.pop()
        exc_state = self._joinall(raised)
        if body_out is not None and st.orelse:
            # exceptions in else are not caught by these handlers
            body_out = self.block(st.orelse, body_out)
        outs = [body_out]
        catch_all = False
        for h in st.handlers:
            hs = d.copy(exc_state) if exc_state is not None else None
            if hs is None:
                continue
            if h.name:
                hs = d.bind(ast.Name(id=h.name, ctx=ast.Store()), hs, h.type)
            # try: x = d[k] .. except KeyError: the handler runs because k is not in d - when the
            # lookup is the only thing in the try body that can raise KeyError (one subscript read of a
            # plain name / attribute, no calls besides it)
            if isinstance(h.type, ast.Name) and h.type.id == 'KeyError':
                subs = [n for b_ in st.body for n in ast.walk(b_) if isinstance(n, ast.Subscript)
                        and isinstance(n.ctx, ast.Load) and not isinstance(n.slice, ast.Slice)]
                calls = [n for b_ in st.body for n in ast.walk(b_) if isinstance(n, ast.Call)]
                if len(subs) == 1 and not calls and isinstance(subs[0].value, (ast.Name, ast.Attribute)) \
                        and isinstance(subs[0].slice, (ast.Name, ast.Attribute, ast.Constant)):
                    test = ast.Compare(left=subs[0].slice, ops=[ast.In()], comparators=[subs[0].value])
                    ast.copy_location(test, subs[0])
                    ast.fix_missing_locations(test)
                    hs = d.assume(test, hs, False)
                    if hs is None:
                        continue
            outs.append(self.block(h.body, hs))
            if h.type is None or (isinstance(h.type, ast.Name)
                                  and h.type.id in ('Exception', 'BaseException')):
                catch_all = True
        if not catch_all and exc_state is not None:
            # exception propagates outwards
            if st.finalbody:
                self.block(st.finalbody, d.copy(exc_state))
            if self._tries:
                self._tries[-1].append(d.copy(exc_state))
        out = self._joinall(outs)
        if st.finalbody and out is not None:
            out = self.block(st.finalbody, out)
        return out


# --------------------------------------------------------------------------
# a ready-made "must have happened" domain: state = frozenset of facts that
# hold on every path reaching the point.
# --------------------------------------------------------------------------
class MustFacts(Domain):
    """gen(stmt) -> iterable of facts established by a simple statement;
    kill(stmt, facts) -> facts to drop;  test_gen(test, truth) -> facts."""

    def __init__(self, gen, kill=None, test_gen=None):
        self.gen = gen
        self.kill = kill
        self.test_gen = test_gen

    def copy(self, s): return s
    def join(self, a, b): return a & b
    def leq(self, a, b): return a >= b      # fewer facts = higher in the lattice
    def widen(self, old, new): return old & new

    def transfer(self, stmt, s):
        if self.kill:
            s = s - frozenset(self.kill(stmt, s))
        return s | frozenset(self.gen(stmt))

    def assume(self, test, s, truth):
        if self.test_gen:
            return s | frozenset(self.test_gen(test, truth))
        return s

    def bind(self, target, s, source=None):
        return s


class MayFacts(MustFacts):
    """the same interface with union at joins: a fact that holds on SOME path to this point (staleness,
    taint).  Smaller sets are lower in the lattice."""
    def join(self, a, b): return a | b
    def leq(self, a, b): return a <= b
    def widen(self, old, new): return old | new


# --------------------------------------------------------------------------
# disjunctive completion (trace partitioning): the state is a list of base
# states that are never merged at if-joins (until `cap` is exceeded).  Gives
# exact path sensitivity on loop-free code.
# --------------------------------------------------------------------------
class Disjunctive(Domain):
    def __init__(self, base: Domain, cap: int = 128):
        self.b = base
        self.cap = cap

    def copy(self, s): return [self.b.copy(x) for x in s]

    def _norm(self, s):
        s = [x for x in s if x is not None]
        if len(s) > 8:
            uniq = []
            for x in s:
                try:
                    if not any(x == y for y in uniq):
                        uniq.append(x)
                except Exception:
                    uniq.append(x)
            s = uniq
        if len(s) > self.cap:
            merged = s[0]
            for x in s[1:]:
                merged = self.b.join(merged, x)
            return [merged]
        return s

    def join(self, a, b): return self._norm(list(a) + list(b))

    def leq(self, a, b):
        return all(any(self.b.leq(x, y) for y in b) for x in a)

    def widen(self, old, new):
        m_old = old[0]
        for x in old[1:]:
            m_old = self.b.join(m_old, x)
        m_new = new[0]
        for x in new[1:]:
            m_new = self.b.join(m_new, x)
        return [self.b.widen(m_old, m_new)]

    def transfer(self, stmt, s):
        return self._norm([self.b.transfer(stmt, x) for x in s]) or None

    def assume(self, test, s, truth):
        out = []
        split = getattr(self.b, 'assume_split', None)
        for x in s:
            if split is not None:
                out.extend(split(test, x, truth))
            else:
                out.append(self.b.assume(test, x, truth))
        out = self._norm(out)
        return out or None

    def bind(self, target, s, source=None):
        return [self.b.bind(target, x, source) for x in s]


def each(hook):
    """adapt a per-state hook to a Disjunctive state list"""
    def wrapped(node, states, *rest):
        for x in states:
            hook(node, x, *rest)
    return wrapped


def each_exit(hook):
    def wrapped(kind, node, states):
        for x in states:
            hook(kind, node, x)
    return wrapped

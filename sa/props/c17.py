"""C17 - management histories keep the store consistent (schema and delete discipline).

The ORM schema is read from the mapped_column / relationship / Table
declarations.  R17.1: every foreign key whose parent can be deleted somewhere
has a delete rule (cascade on the parent's relationship, nullable + plain
relationship, ondelete, association table, or a re-target-before-delete site).
Soft references held in JSON columns are edges too.  R17.2: the columns the
property calls names carry a uniqueness constraint.  R17.4: replace-on-upload
deletes row and file together.  R17.3 informational.
"""
from __future__ import annotations

import ast
import re
from dataclasses import dataclass, field

from ..core import (AnalysisError, Report, call_name, dotted, enclosing_function, find_class,
                    find_func, need, norm, short, ancestors, dfs_order)
from ..effects import Effects, MODELS_PKG
from ..index import CallGraph, Index

MODELS_DIR = 'dashlive/server/models'
HANDLERS_DIR = 'dashlive/server/requesthandler'


@dataclass
class Column:
    name: str
    fk: str | None = None         # 'Table.col'
    nullable: bool = False
    unique: bool = False
    ondelete: str | None = None
    node: ast.AST | None = None
    inert_ondelete: str | None = None     # declared, but the database never enforces foreign keys


@dataclass
class Rel:
    name: str
    target: str                   # class name
    cascade: str = ''
    secondary: str | None = None
    node: ast.AST | None = None
    passive: bool = False         # passive_deletes: the ORM leaves unloaded children to the database


@dataclass
class Model:
    cls: str
    rel: str
    table: str
    columns: dict[str, Column] = field(default_factory=dict)
    rels: dict[str, Rel] = field(default_factory=dict)
    uniques: list[tuple[str, ...]] = field(default_factory=list)


def _kw(call: ast.Call, name: str):
    for k in call.keywords:
        if k.arg == name:
            return k.value
    return None


def read_schema(rep: Report, idx: Index) -> tuple[dict[str, Model], dict[str, list[tuple[str, str]]]]:
    models: dict[str, Model] = {}
    assoc: dict[str, list[tuple[str, str]]] = {}       # table var -> [(col, 'Table.col')]
    # database-level rules (ON DELETE ..) act only when SQLite is told to enforce foreign keys
    fk_enforced = False
    for rel_ in rep.repo.py_files('dashlive/server'):
        for n_ in ast.walk(rep.repo.tree(rel_)):
            if isinstance(n_, ast.Constant) and isinstance(n_.value, str) \
                    and re.search(r'pragma\s+foreign_keys\s*=\s*(on|1|true)', n_.value, re.I):
                fk_enforced = True
    rep.extra['sqlite_foreign_keys_enforced'] = fk_enforced
    for q, c in idx.classes.items():
        if not q.startswith(MODELS_PKG) or '__tablename__' not in c.attrs:
            continue
        tn = c.attrs['__tablename__']
        if not (isinstance(tn, ast.Constant) and isinstance(tn.value, str)):
            raise AnalysisError(f'{q}.__tablename__ is not a literal')
        m = Model(c.name, c.rel, tn.value)
        for b in c.node.body:
            if isinstance(b, ast.AnnAssign) and isinstance(b.target, ast.Name) \
                    and isinstance(b.value, ast.Call):
                fn = call_name(b.value) or ''
                ann = norm(b.annotation)
                if fn.endswith('mapped_column'):
                    col = Column(b.target.id, node=b)
                    col.nullable = bool(re.search(r'\| None|Optional\[', ann))
                    nv = _kw(b.value, 'nullable')
                    if isinstance(nv, ast.Constant):
                        col.nullable = bool(nv.value)
                    pk = _kw(b.value, 'primary_key')
                    if isinstance(pk, ast.Constant) and pk.value:
                        col.nullable = False
                    uv = _kw(b.value, 'unique')
                    col.unique = isinstance(uv, ast.Constant) and bool(uv.value)
                    for a in ast.walk(b.value):
                        if isinstance(a, ast.Call) and (call_name(a) or '').endswith('ForeignKey'):
                            if a.args and isinstance(a.args[0], ast.Constant):
                                col.fk = a.args[0].value
                            od = _kw(a, 'ondelete')
                            if isinstance(od, ast.Constant):
                                if fk_enforced:
                                    col.ondelete = od.value
                                else:
                                    col.inert_ondelete = od.value
                    m.columns[col.name] = col
                elif fn.endswith('relationship'):
                    target = None
                    if b.value.args and isinstance(b.value.args[0], ast.Constant):
                        target = b.value.args[0].value
                    if target is None:
                        names = re.findall(r'[A-Z][A-Za-z0-9_]*', ann)
                        names = [n for n in names if n not in ('Mapped', 'Optional')]
                        target = names[0] if names else '?'
                    cas = _kw(b.value, 'cascade')
                    sec = _kw(b.value, 'secondary')
                    pas = _kw(b.value, 'passive_deletes')
                    passive = pas is not None and not (isinstance(pas, ast.Constant) and pas.value in (False, None))
                    cas_text = cas.value if isinstance(cas, ast.Constant) else ''
                    if passive and not fk_enforced:
                        # the ORM no longer loads and deletes the children; nothing else does
                        cas_text = ', '.join(t for t in re.split(r'\s*,\s*', cas_text)
                                             if t and t not in ('all', 'delete', 'delete-orphan'))
                    m.rels[b.target.id] = Rel(
                        b.target.id, target, cas_text,
                        norm(sec) if sec is not None else None, b, passive)
            elif isinstance(b, (ast.Assign, ast.AnnAssign)):
                tgt = b.targets[0] if isinstance(b, ast.Assign) else b.target
                if isinstance(tgt, ast.Name) and tgt.id == '__table_args__' and b.value is not None:
                    for a in ast.walk(b.value):
                        if isinstance(a, ast.Call) and (call_name(a) or '').endswith('UniqueConstraint'):
                            cols = tuple(x.value for x in a.args if isinstance(x, ast.Constant))
                            m.uniques.append(cols)
        models[c.name] = m
    # association tables
    for mod in idx.modules.values():
        if not mod.name.startswith(MODELS_PKG[:-1]):
            continue
        for name, val in mod.assigns.items():
            if isinstance(val, ast.Call) and (call_name(val) or '').endswith('Table'):
                cols = []
                for a in val.args:
                    if isinstance(a, ast.Call) and (call_name(a) or '').endswith('Column'):
                        cname = a.args[0].value if a.args and isinstance(a.args[0], ast.Constant) else '?'
                        for fk in ast.walk(a):
                            if isinstance(fk, ast.Call) and (call_name(fk) or '').endswith('ForeignKey') \
                                    and fk.args and isinstance(fk.args[0], ast.Constant):
                                cols.append((cname, fk.args[0].value))
                assoc[name] = cols
    return models, assoc


def deletion_sites(idx: Index, cg: CallGraph, eff: Effects) -> dict[str, list[tuple[str, ast.AST, object]]]:
    """model name -> [(construct, node, FuncInfo)] where an instance is deleted"""
    out: dict[str, list] = {}
    for f in idx.functions.values():
        if not f.rel.startswith('dashlive/server/'):
            continue
        if f.rel.startswith('dashlive/server/models/migrations'):
            continue
        if f.cls is not None and f.cls.name == 'ModelMixin':
            continue
        if f.qual in idx.absorbed:
            continue                    # read where it was inlined
        for n in ast.walk(f.node):
            if not isinstance(n, ast.Call):
                continue
            cn = call_name(n) or ''
            m = None
            if cn.endswith('session.delete') and n.args:
                m = eff.model_of(f, n.args[0]) or '?'
            elif isinstance(n.func, ast.Attribute) and n.func.attr == 'delete' \
                    and not cn.endswith('session.delete'):
                m = eff.model_of(f, n.func.value)
            elif cn in ('delete', 'sa.delete', 'db.delete') and n.args:
                q = idx.resolve_expr(f.module, n.args[0])
                if q and q.startswith(MODELS_PKG):
                    m = q.rsplit('.', 1)[-1]
            if m and m != '?':
                out.setdefault(m, []).append((f.construct(), n, f))
    return out


def table_to_model(models: dict[str, Model]) -> dict[str, Model]:
    return {m.table: m for m in models.values()}


def _retarget_before_delete(f, node: ast.Call, child_attr: str) -> bool:
    """`old = x.<attr>; x.<attr> = new; session.delete(old)` idiom"""
    arg = node.args[0] if node.args else (node.func.value if isinstance(node.func, ast.Attribute) else None)
    if not isinstance(arg, ast.Name):
        return False
    src = None
    for n in ast.walk(f.node):
        if isinstance(n, ast.Assign) and len(n.targets) == 1 and isinstance(n.targets[0], ast.Name) \
                and n.targets[0].id == arg.id and isinstance(n.value, ast.Attribute) \
                and n.value.attr == child_attr:
            src = n
    if src is None:
        return False
    owner = norm(src.value.value)
    for n in ast.walk(f.node):
        if isinstance(n, ast.Assign) and len(n.targets) == 1 and isinstance(n.targets[0], ast.Attribute) \
                and n.targets[0].attr == child_attr and norm(n.targets[0].value) == owner \
                and src.lineno < n.lineno < node.lineno:
            return True
    return False


def r17_1(rep: Report, idx: Index, models: dict[str, Model], assoc, sites) -> None:
    rid = 'R17.1'
    by_table = table_to_model(models)
    edges = []
    for m in models.values():
        for col in m.columns.values():
            if col.fk:
                edges.append((m, col, col.fk.split('.')[0]))
    if len(edges) < 7:
        raise AnalysisError(f'only {len(edges)} foreign-key columns found; expected >= 7')
    # a model is deletable directly (a site) or through a delete cascade from a deletable parent
    deletable: dict[str, str] = {k: 'site' for k, v in sites.items() if v}
    changed = True
    while changed:
        changed = False
        for pm in models.values():
            if pm.cls not in deletable:
                continue
            for r in pm.rels.values():
                if 'delete' in r.cascade and r.target in models and r.target not in deletable:
                    deletable[r.target] = f'cascade from {pm.cls}.{r.name}'
                    changed = True
    for child, col, ptable in edges:
        parent = by_table.get(ptable)
        if parent is None:
            raise AnalysisError(f'{child.cls}.{col.name}: unknown parent table {ptable}')
        construct = f'{child.rel}::{child.cls}.{col.name}'
        psites = sites.get(parent.cls, [])
        if not psites and parent.cls in deletable:
            rel_pc0 = [r for r in parent.rels.values() if r.target == child.cls]
            if not any('delete' in r.cascade for r in rel_pc0) and not col.ondelete \
                    and not (rel_pc0 and col.nullable):
                rep.fail(rid, construct, f'-> {parent.cls} @ {deletable[parent.cls]}',
                         f'{parent.cls} rows are deleted through a {deletable[parent.cls]} but '
                         f'{child.cls}.{col.name} has no delete rule towards {parent.cls}: dependent '
                         f'{child.cls} rows are left dangling')
                continue
        rel_pc = [r for r in parent.rels.values() if r.target == child.cls]
        cascade = any('delete' in r.cascade for r in rel_pc)
        key = f'-> {parent.cls}'
        if not psites:
            rep.ok(rid, construct, key, f'no code path deletes a {parent.cls}')
            continue
        if cascade:
            rep.ok(rid, construct, key, f'{parent.cls}.{rel_pc[0].name} cascade="{rel_pc[0].cascade}"')
            continue
        if col.ondelete:
            rep.ok(rid, construct, key, f'ondelete={col.ondelete}')
            continue
        if rel_pc and col.nullable:
            rep.ok(rid, construct, key, 'relationship without cascade + nullable column: ORM nullifies')
            continue
        # per-site handling
        child_attr = next((r.name for r in child.rels.values() if r.target == parent.cls), None)
        bad = []
        for (sconstruct, node, f) in psites:
            if child_attr and _retarget_before_delete(f, node, child_attr):
                continue
            bad.append((sconstruct, node))
        if not bad:
            rep.ok(rid, construct, key, 'every deletion site re-targets the reference first')
            continue
        for sconstruct, node in bad:
            inert = ''
            if col.inert_ondelete or any(r.passive for r in rel_pc):
                inert = (f' (declared: ondelete={col.inert_ondelete!r}, passive_deletes='
                         f'{any(r.passive for r in rel_pc)} - but no code switches on `PRAGMA foreign_keys`, so '
                         'SQLite never applies ON DELETE and the ORM no longer deletes unloaded children)')
            rep.fail(rid, construct, f'{key} @ {sconstruct.split("::")[1]}',
                     f'{parent.cls} rows are deleted at {sconstruct} (`{short(node, 50)}`) but '
                     f'{child.cls}.{col.name} (nullable={col.nullable}) has no delete rule: no '
                     f'cascade on a {parent.cls}->{child.cls} relationship, no ondelete, and the '
                     f'site does not handle dependent {child.cls} rows first{inert}', node,
                     file=sconstruct.split('::')[0])
    # association tables
    for tname, cols in assoc.items():
        fk_on = bool(rep.extra.get('sqlite_foreign_keys_enforced'))
        # a relationship with passive_deletes leaves the rows of its children to the database; while SQLite is not
        # told to enforce foreign keys nothing deletes them
        used = [(m.cls, r.name) for m in models.values() for r in m.rels.values()
                if r.secondary == tname and (fk_on or not r.passive)]
        passive = [(m.cls, r.name) for m in models.values() for r in m.rels.values()
                   if r.secondary == tname and r.passive and not fk_on]
        for cname, fk in cols:
            construct = f'{MODELS_DIR}/mediafile_keys.py::{tname}.{cname}'
            ptab = fk.split('.')[0]
            parent = by_table.get(ptab)
            if parent is None:
                raise AnalysisError(f'{tname}.{cname}: unknown table {ptab}')
            if any(c == parent.cls for c, _ in used):
                rep.ok(rid, construct, f'-> {parent.cls}',
                       'association rows are managed through relationship(secondary=)')
            elif any(c == parent.cls for c, _ in passive):
                rn = next(r_ for c, r_ in passive if c == parent.cls)
                rep.fail(rid, construct, f'-> {parent.cls}',
                         f'{parent.cls}.{rn} is declared passive_deletes: the ORM no longer deletes the {tname} rows of a '
                         f'deleted {parent.cls}, and the ON DELETE rule it relies on never runs because the application does not '
                         'enable `PRAGMA foreign_keys` on its SQLite connections - the link rows stay, point at a primary key '
                         'that the next inserted row re-uses, and re-indexing the file fails with an IntegrityError (HTTP 500)')
            else:
                rep.fail(rid, construct, f'-> {parent.cls}',
                         f'{parent.cls} has no relationship(secondary={tname}); deleting it leaves '
                         'association rows behind')


def r17_5(rep: Report, models: dict[str, Model]) -> None:
    """a delete cascade removes only rows the parent owns: the target of a cascading relationship
    holds the foreign key to the parent (one-to-many).  A cascade over an association table
    (many-to-many) or towards the row this one points at (many-to-one) deletes rows that other
    parents still use."""
    rid = 'R17.5'
    by_table = table_to_model(models)
    for m in models.values():
        for r in m.rels.values():
            if 'delete' not in r.cascade and 'all' not in r.cascade:
                continue
            construct = f'{m.rel}::{m.cls}.{r.name}'
            tgt = models.get(r.target)
            if r.secondary:
                rep.fail(rid, construct, f'cascade="{r.cascade}" over {r.secondary}',
                         f'{m.cls}.{r.name} is a many-to-many relationship (secondary={r.secondary}) with '
                         f'cascade="{r.cascade}": deleting one {m.cls} deletes {r.target} rows that other '
                         f'{m.cls} rows still share', r.node)
                continue
            if tgt is None:
                continue
            owns = any(c.fk and by_table.get(c.fk.split('.')[0]) is m for c in tgt.columns.values())
            one_to_one = any(c.fk and by_table.get(c.fk.split('.')[0]) is tgt and c.unique
                             for c in m.columns.values())
            if owns:
                rep.ok(rid, construct, f'cascade="{r.cascade}"', f'{r.target} holds the foreign key to {m.cls}')
            elif one_to_one:
                rep.ok(rid, construct, f'cascade="{r.cascade}"',
                       f'one-to-one: {m.cls} holds a unique foreign key to {r.target}')
            else:
                rep.fail(rid, construct, f'cascade="{r.cascade}"',
                         f'{m.cls}.{r.name} cascades deletes to {r.target}, which holds no foreign key to '
                         f'{m.cls}: the cascade follows a many-to-one reference and deletes a shared row',
                         r.node)


def r17_1_soft(rep: Report, idx: Index, cg: CallGraph, sites) -> None:
    """Stream.timing_ref (JSON) names a MediaFile: each MediaFile deletion site
    must clear or re-target the reference (or delete the stream as well)."""
    rid = 'R17.1s'
    st = rep.repo.tree(f'{MODELS_DIR}/stream.py')
    scls = need(find_class(st, 'Stream'), 'Stream')
    if 'media_name' not in norm(scls):
        raise AnalysisError('Stream.timing_ref no longer refers to a media file by name')
    for (sconstruct, node, f) in sites.get('MediaFile', []):
        key = sconstruct.split('::')[1]
        reach = cg.reachable([f])
        handled = False
        for q, (g, _p) in reach.items():
            for n in ast.walk(g.node):
                if isinstance(n, (ast.Assign,)) and any(
                        isinstance(t, ast.Attribute) and t.attr in ('timing_ref', 'timing_reference')
                        for t in n.targets):
                    handled = True
                if isinstance(n, ast.Call) and (call_name(n) or '').endswith('set_timing_reference'):
                    handled = True
        # replacement by a file of the same name keeps the reference valid
        replaced = False
        order = dfs_order(f.node)
        for n in ast.walk(f.node):
            if isinstance(n, ast.Call) and call_name(n) == 'MediaFile' \
                    and any(k.arg == 'name' for k in n.keywords) and order[id(n)] > order.get(id(node), 1 << 30):
                replaced = True
        if handled or replaced:
            rep.ok(rid, f'{MODELS_DIR}/stream.py::Stream.timing_ref', key,
                   'reference cleared / re-targeted / file replaced under the same name')
        else:
            rep.fail(rid, f'{MODELS_DIR}/stream.py::Stream.timing_ref', key,
                     f'a MediaFile is deleted at {sconstruct} (`{short(node, 50)}`) without '
                     'clearing Stream.timing_ref when it names that file: the timing reference '
                     'is left dangling', node, file=sconstruct.split('::')[0])


NAMES = [
    ('Stream', ('directory',)), ('MediaFile', ('name',)), ('Blob', ('filename',)),
    ('Key', ('hkid',)), ('MultiPeriodStream', ('name',)), ('User', ('username',)),
    ('User', ('email',)), ('Period', ('parent_pk', 'pid')),
    ('AdaptationSet', ('period_pk', 'track_id')), ('ContentType', ('name',)),
    ('MediaFile', ('blob_pk',)),
]


def r17_2(rep: Report, models: dict[str, Model]) -> None:
    rid = 'R17.2'
    for cls, cols in NAMES:
        m = models.get(cls)
        if m is None:
            raise AnalysisError(f'model {cls} vanished')
        construct = f'{m.rel}::{cls}'
        key = '+'.join(cols)
        if len(cols) == 1:
            c = m.columns.get(cols[0])
            if c is None:
                raise AnalysisError(f'{cls}.{cols[0]} vanished')
            ok = c.unique or (cols in m.uniques)
        else:
            ok = any(set(u) == set(cols) for u in m.uniques)
        if ok:
            rep.ok(rid, construct, key)
        else:
            rep.fail(rid, construct, key,
                     f'{cls}({key}) is a name the property requires to stay unique but carries no '
                     'unique constraint', m.columns.get(cols[0]).node if m.columns.get(cols[0]) else None)


def r17_4(rep: Report, models: dict | None = None) -> None:
    rid = 'R17.4'
    rel = f'{MODELS_DIR}/stream.py'
    tree = rep.repo.tree(rel)
    cls = need(find_class(tree, 'Stream'), 'Stream')
    fn = need(find_func(cls, 'add_file'), 'Stream.add_file')
    construct = f'{rel}::Stream.add_file'
    n_del = 0
    blocks = [b for blk in ast.walk(fn) for fld in ('body', 'orelse', 'finalbody')
              for b in [getattr(blk, fld, None)] if isinstance(b, list) and b and isinstance(b[0], ast.stmt)]
    for body in blocks:
        for i, st in enumerate(body):
            if isinstance(st, ast.Expr) and isinstance(st.value, ast.Call) \
                    and isinstance(st.value.func, ast.Attribute) and st.value.func.attr == 'delete' \
                    and isinstance(st.value.func.value, ast.Name):
                var = st.value.func.value.id
                n_del += 1
                paired = any(isinstance(p, ast.Expr) and isinstance(p.value, ast.Call)
                             and call_name(p.value) == f'{var}.delete_file' for p in body[:i])
                if paired:
                    rep.ok(rid, construct, f'{var}.delete()')
                else:
                    rep.fail(rid, construct, f'{var}.delete()',
                             f'`{var}.delete()` is not preceded by `{var}.delete_file(..)` in the '
                             'same block: the row goes, the file stays', st)
    if n_del < 2:
        raise AnalysisError('Stream.add_file: replace-on-upload idiom not recognised')
    # the row that is replaced is looked up with the scope of its uniqueness constraint: a lookup
    # narrowed by further columns misses the row that still blocks the insert
    for n in ast.walk(fn):
        if isinstance(n, ast.Assign) and isinstance(n.value, ast.Call) and isinstance(n.targets[0], ast.Name) \
                and isinstance(n.value.func, ast.Attribute) and n.value.func.attr in ('get', 'get_one') \
                and isinstance(n.value.func.value, ast.Name) and models and n.value.func.value.id in models:
            var, mname = n.targets[0].id, n.value.func.value.id
            deleted = any(isinstance(c, ast.Call) and call_name(c) == f'{var}.delete' and c.lineno > n.lineno
                          for c in ast.walk(fn))
            if not deleted:
                continue
            keys = {k.arg for k in n.value.keywords}
            uniq = {c.name for c in models[mname].columns.values() if c.unique}
            key = f'{mname}.{n.value.func.attr}({", ".join(sorted(keys))}) replaced'
            if keys and keys <= uniq and len(keys) == 1:
                rep.ok(rid, construct, key, f'{sorted(keys)[0]} is unique across the store')
            else:
                extra = sorted(keys - uniq)
                rep.fail(rid, construct, key,
                         f'the row to be replaced is looked up by {sorted(keys)}; {mname} is unique on '
                         f'{sorted(uniq)} alone, so narrowing by {extra} misses a row of the same name that '
                         'belongs elsewhere - the insert then violates the constraint after files were '
                         'already deleted/written', n)
    # new rows are added together and committed together
    adds = [n for n in ast.walk(fn) if isinstance(n, ast.Call)
            and (call_name(n) or '').endswith('session.add')]
    if len(adds) >= 2:
        rep.ok(rid, construct, 'blob and media file added in one transaction')
    else:
        rep.fail(rid, construct, 'blob and media file added in one transaction',
                 'add_file does not add both the Blob and the MediaFile to the session', fn)
    # the MediaFile constructed references the new blob and this stream
    ok = False
    for n in ast.walk(fn):
        if isinstance(n, ast.Call) and call_name(n) == 'MediaFile':
            kws = {k.arg: norm(k.value) for k in n.keywords}

            def new_blob(name: str, depth: int = 0) -> bool:
                """the name holds the Blob constructed in this function (directly or through copies)"""
                for a_ in ast.walk(fn):
                    if isinstance(a_, ast.Assign) and len(a_.targets) == 1 and norm(a_.targets[0]) == name:
                        if isinstance(a_.value, ast.Call) and (call_name(a_.value) or '').split('.')[-1] == 'Blob':
                            return True
                        if isinstance(a_.value, ast.Name) and depth < 3 and new_blob(a_.value.id, depth + 1):
                            return True
                return False
            if kws.get('stream') == 'self' and new_blob(kws.get('blob', '')):
                ok = True
    if ok:
        rep.ok(rid, construct, 'MediaFile(stream=self, blob=blob)')
    else:
        rep.fail(rid, construct, 'MediaFile(stream=self, blob=blob)',
                 'the new MediaFile is not linked to this stream and the new blob', fn)


def r17_3(rep: Report, idx: Index, cg: CallGraph) -> None:
    from ..index import read_routes, verb_methods
    eff = Effects(idx, cg)
    seen = set()
    for r in read_routes(idx):
        if r.cls is None:
            continue
        for verb, m in verb_methods(idx, r.cls).items():
            if m.qual in seen:
                continue
            seen.add(m.qual)
            stores, _ = eff.local(m)
            commits = [n.lineno for n in ast.walk(m.node) if isinstance(n, ast.Call)
                       and (call_name(n) or '').endswith('session.commit')]
            if not commits or not stores:
                continue
            last = max(commits)
            late = [(mm, n, k) for (mm, n, k) in stores if n.lineno > last and mm != 'Token']
            for mm, n, k in late:
                rep.fail('R17.3', m.construct(), short(n, 50),
                         f'store to {mm} after the last commit of the handler (lost at teardown)')


FLUSH_CALLS = ('flush', 'commit', 'execute', 'scalars', 'scalar', 'query', 'get', 'get_one', 'get_all', 'all',
               'search', 'count', 'first', 'one', 'one_or_none', 'refresh')


def r17_6(rep: Report, idx: Index, models: dict[str, Model], sites) -> None:
    """replace = delete the old row, add a new one with the same unique value.  SQLAlchemy's unit of
    work emits the INSERTs of a flush before its DELETEs, so the two must not share a flush: between
    the deletion and the `add` of the new object of the same mapped class (which has a unique column)
    there has to be a flush point - an explicit flush/commit or a query (autoflush).  Otherwise the
    INSERT meets the old row: IntegrityError, HTTP 500, nothing replaced."""
    rid = 'R17.6'
    n_sites = 0
    for model, lst in sorted(sites.items()):
        m = models.get(model)
        if m is None:
            continue
        uniq = [c.name for c in m.columns.values() if c.unique] + ['+'.join(u) for u in m.uniques]
        if not uniq:
            continue
        for construct, node, f in lst:
            order = dfs_order(f.node)
            here = order.get(id(node))
            if here is None:
                continue
            # constructions of the same mapped class later in the function
            ctors = [n for n in ast.walk(f.node) if isinstance(n, ast.Call) and (call_name(n) or '').split('.')[-1] == model
                     and order[id(n)] > here]
            if not ctors:
                continue
            n_sites += 1
            first = min(ctors, key=lambda n: order[id(n)])
            # the add that makes it pending
            adds = [n for n in ast.walk(f.node) if isinstance(n, ast.Call) and isinstance(n.func, ast.Attribute)
                    and n.func.attr == 'add' and order[id(n)] > order[id(first)]]
            end = min((order[id(n)] for n in adds), default=order[id(first)])
            flushes = [n for n in ast.walk(f.node) if isinstance(n, ast.Call) and isinstance(n.func, ast.Attribute)
                       and n.func.attr in FLUSH_CALLS and here < order[id(n)] < end
                       and not (n.func.attr in ('get', 'all', 'count', 'first') and not _is_model_query(n, models))]
            # reading a relationship attribute of a mapped object may load it (a query: autoflush) - whether
            # it does depends on what the session already holds, so it counts as a possible flush point and
            # the site is not reported (reports are for deletions and additions that share a flush for sure)
            rel_names = {r.name for mm in models.values() for r in mm.rels.values()}
            loads = [n for n in ast.walk(f.node) if isinstance(n, ast.Attribute) and isinstance(n.ctx, ast.Load)
                     and n.attr in rel_names and here < order.get(id(n), -1) < end]
            flushes = flushes + loads
            # `x.delete(commit=True)` / ModelMixin.delete(commit=True) is its own flush point
            own_commit = any(k.arg == 'commit' and isinstance(k.value, ast.Constant) and k.value.value is True
                             for k in node.keywords)
            key = f'{model}: delete then add [{construct.split("::")[1]}]'
            if flushes or own_commit:
                rep.ok(rid, construct, key, f'flush point `{short(flushes[0], 40) if flushes else "commit=True"}` in between')
            else:
                rep.fail(rid, construct, key,
                         f'`{short(node, 50)}` and the later `{short(first, 40)}` (unique: {", ".join(uniq)}) are flushed '
                         'together: SQLAlchemy emits the INSERT before the DELETE, the unique constraint fails '
                         '(IntegrityError -> 500) and the old row stays', node, file=construct.split('::')[0])
    if n_sites < 1:
        raise AnalysisError('no delete-then-add replacement found')


def _is_model_query(call: ast.Call, models: dict[str, Model]) -> bool:
    recv = norm(call.func.value)
    last = recv.split('.')[-1]
    return last in models or 'session' in recv or 'query' in recv or recv.endswith(')')


def r17_7(rep: Report, idx: Index, models: dict[str, Model]) -> None:
    """rows are looked up by the kind of value the column holds: in `Model.get(col=v)` (get / get_one /
    filter_by) where the value is a local whose every source is a column read `<row>.<c>` - directly,
    through a set / list / dict-key collection it was put into, or through a loop over that collection -
    the column c must be `col` itself, or a foreign key / primary key pair (`pk` <-> `<x>_pk`).  Looking a
    row up by `pk` with track ids finds an unrelated row (or none): the deletion that follows removes a
    row the operation does not own."""
    rid = 'R17.7'
    all_cols = {c for m in models.values() for c in m.columns}
    n_sites = 0
    for q, f in sorted(idx.functions.items()):
        if not (f.rel.startswith(HANDLERS_DIR) or f.rel.startswith(MODELS_DIR)):
            continue
        fn = f.node

        def col_of(e: ast.AST) -> str | None:
            if isinstance(e, ast.Attribute) and e.attr in all_cols and isinstance(e.value, (ast.Name, ast.Attribute)):
                return e.attr
            return None

        def kinds(e: ast.AST, depth: int = 0) -> set[str] | None:
            """column kinds the value can have; None = unknown source"""
            if depth > 6:
                return None
            c = col_of(e)
            if c is not None:
                return {c}
            if isinstance(e, ast.Name):
                out: set[str] = set()
                found = False
                for n in ast.walk(fn):
                    if isinstance(n, (ast.Assign, ast.AnnAssign)) and getattr(n, 'value', None) is not None:
                        tg = n.targets[0] if isinstance(n, ast.Assign) else n.target
                        if isinstance(tg, ast.Name) and tg.id == e.id:
                            found = True
                            k = elem_kinds(n.value, depth + 1) if is_collection(n.value) else kinds(n.value, depth + 1)
                            if k is None:
                                return None
                            out |= k
                    if isinstance(n, (ast.For, ast.comprehension)) and isinstance(n.target, ast.Name) and n.target.id == e.id:
                        found = True
                        k = elem_kinds(n.iter, depth + 1)
                        if k is None:
                            return None
                        out |= k
                if e.id in {a.arg for a in fn.args.args + fn.args.kwonlyargs}:
                    return None
                return out if found else None
            return None

        def is_collection(e: ast.AST) -> bool:
            return isinstance(e, (ast.Set, ast.List, ast.Tuple, ast.SetComp, ast.ListComp, ast.DictComp, ast.Dict)) or (
                isinstance(e, ast.Call) and isinstance(e.func, ast.Name) and e.func.id in ('set', 'list', 'sorted', 'tuple'))

        def elem_kinds(e: ast.AST, depth: int = 0) -> set[str] | None:
            """kinds of the elements (for a dict: of the keys) of a collection expression"""
            if depth > 6:
                return None
            if isinstance(e, (ast.Set, ast.List, ast.Tuple)):
                out: set[str] = set()
                for x in e.elts:
                    k = kinds(x, depth + 1)
                    if k is None:
                        return None
                    out |= k
                return out
            if isinstance(e, (ast.SetComp, ast.ListComp, ast.GeneratorExp)):
                return kinds_in_comp(e.elt, e, depth)
            if isinstance(e, ast.DictComp):
                return kinds_in_comp(e.key, e, depth)
            if isinstance(e, ast.Dict):
                out = set()
                for x in e.keys:
                    k = kinds(x, depth + 1) if x is not None else None
                    if k is None:
                        return None
                    out |= k
                return out
            if isinstance(e, ast.Call) and isinstance(e.func, ast.Name) and e.func.id in ('set', 'list', 'sorted', 'tuple'):
                if not e.args:
                    return adds_to(e, depth)
                return elem_kinds(e.args[0], depth + 1)
            if isinstance(e, ast.Call) and isinstance(e.func, ast.Attribute) and e.func.attr == 'keys' and not e.args:
                return elem_kinds(e.func.value, depth + 1)
            if isinstance(e, ast.Name):
                out = set()
                found = False
                for n in ast.walk(fn):
                    if isinstance(n, (ast.Assign, ast.AnnAssign)) and getattr(n, 'value', None) is not None:
                        tg = n.targets[0] if isinstance(n, ast.Assign) else n.target
                        if isinstance(tg, ast.Name) and tg.id == e.id:
                            found = True
                            k = elem_kinds(n.value, depth + 1)
                            if k is None:
                                return None
                            out |= k
                    if isinstance(n, ast.Call) and isinstance(n.func, ast.Attribute) and isinstance(n.func.value, ast.Name) \
                            and n.func.value.id == e.id and n.func.attr in ('add', 'append') and len(n.args) == 1:
                        found = True
                        k = kinds(n.args[0], depth + 1)
                        if k is None:
                            return None
                        out |= k
                    if isinstance(n, ast.Call) and isinstance(n.func, ast.Attribute) and isinstance(n.func.value, ast.Name) \
                            and n.func.value.id == e.id and n.func.attr in ('update', 'extend', 'union') and len(n.args) == 1:
                        found = True
                        k = elem_kinds(n.args[0], depth + 1)
                        if k is None:
                            return None
                        out |= k
                return out if found else None
            return None

        def adds_to(e, depth):
            return set()

        def kinds_in_comp(elt: ast.AST, comp, depth: int) -> set[str] | None:
            c = col_of(elt)
            if c is not None:
                return {c}
            return kinds(elt, depth + 1)
        for call in ast.walk(fn):
            if not (isinstance(call, ast.Call) and isinstance(call.func, ast.Attribute)
                    and call.func.attr in ('get', 'get_one', 'filter_by', 'get_all', 'search')):
                continue
            recv = call.func.value
            mname = recv.attr if isinstance(recv, ast.Attribute) else (recv.id if isinstance(recv, ast.Name) else None)
            if call.func.attr == 'filter_by':
                mname = next((x.attr if isinstance(x, ast.Attribute) else x.id for x in ast.walk(recv)
                              if isinstance(x, (ast.Attribute, ast.Name))
                              and (x.attr if isinstance(x, ast.Attribute) else x.id) in models), None)
            m = models.get(mname or '')
            if m is None:
                continue
            for kw in call.keywords:
                if kw.arg is None or kw.arg not in m.columns:
                    continue
                ks = kinds(kw.value)
                if not ks:
                    continue
                col = kw.arg
                fk_cols = {c.name for mm in models.values() for c in mm.columns.values() if c.fk}
                # identities only: primary and foreign keys have a kind; names and other texts are
                # compared by content (MediaFile.content_type holds a ContentType.name)
                if not (col == 'pk' or col in fk_cols or any(k == 'pk' or k in fk_cols for k in ks)):
                    continue
                n_sites += 1

                def compatible(k: str) -> bool:
                    if k == col:
                        return True
                    if col == 'pk' and k in fk_cols and k.endswith('_pk'):
                        return True
                    if k == 'pk' and col in fk_cols and col.endswith('_pk'):
                        return True
                    return False
                key = f'{m.cls}.{call.func.attr}({col}={norm(kw.value)[:30]})'
                construct = f'{f.rel}::{(f.cls.name + ".") if f.cls is not None else ""}{f.name}'
                if all(compatible(k) for k in ks):
                    rep.ok(rid, construct, key, f'value kinds {sorted(ks)}')
                else:
                    bad = sorted(k for k in ks if not compatible(k))
                    rep.fail(rid, construct, key,
                             f'`{short(call, 60)}` looks {m.cls} rows up by `{col}` with values read from the column(s) '
                             f'{bad}: a different kind of value, so an unrelated row (or none) is found - and what '
                             'is done with it (here: deleted / edited) hits a row the operation does not own', call)
    if n_sites < 2:
        raise AnalysisError(f'only {n_sites} model lookups with a traceable value kind')


def r17_8(rep: Report, idx: Index, models: dict[str, Model], assoc) -> None:
    """R17.8  a bulk DELETE statement (`delete(Model)`, `<query>.delete()`) removes rows without loading them,
    so no ORM cascade runs and no relationship is cleaned up - and the database enforces no foreign key (R17.1).
    It is allowed only on a model that owns nothing and that nothing refers to: no relationship of its own with a
    delete cascade or a secondary table, and no foreign key of another table pointing at its table."""
    by_table = table_to_model(models)
    referenced: dict[str, list[str]] = {}
    for m in models.values():
        for c in m.columns.values():
            if c.fk:
                referenced.setdefault(c.fk.split('.')[0], []).append(f'{m.cls}.{c.name}')
    for tvar, cols in assoc.items():
        for cname, fk in cols:
            referenced.setdefault(fk.split('.')[0], []).append(f'{tvar}.{cname}')
    n = 0
    for rel in rep.repo.py_files('dashlive/server'):
        tree = rep.repo.tree(rel)
        for fn in [x for x in ast.walk(tree) if isinstance(x, (ast.FunctionDef, ast.AsyncFunctionDef))]:
            own_cls = next((a.name for a in ancestors(fn) if isinstance(a, ast.ClassDef)), None)
            for call in [c for c in ast.walk(fn) if isinstance(c, ast.Call)]:
                target = None
                cn = call_name(call) or ''
                # delete(Model) / db.delete(Model) / sqlalchemy.delete(Model)
                if cn.split('.')[-1] == 'delete' and len(call.args) == 1 and not cn.endswith('session.delete'):
                    a = call.args[0]
                    nm = a.attr if isinstance(a, ast.Attribute) else (a.id if isinstance(a, ast.Name) else None)
                    if nm == 'cls' and own_cls in models:
                        nm = own_cls
                    if nm in models:
                        target = nm
                # <Model>.query....delete() / session.query(Model)....delete()
                if isinstance(call.func, ast.Attribute) and call.func.attr == 'delete' and not call.args:
                    for x in ast.walk(call.func.value):
                        if isinstance(x, ast.Attribute) and x.attr == 'query' and isinstance(x.value, (ast.Name, ast.Attribute)):
                            nm = x.value.attr if isinstance(x.value, ast.Attribute) else x.value.id
                            if nm == 'cls' and own_cls in models:
                                nm = own_cls
                            if nm in models:
                                target = nm
                        if isinstance(x, ast.Call) and (call_name(x) or '').endswith('.query') and x.args:
                            a = x.args[0]
                            nm = a.attr if isinstance(a, ast.Attribute) else (a.id if isinstance(a, ast.Name) else None)
                            if nm in models:
                                target = nm
                if target is None:
                    continue
                n += 1
                m = models[target]
                construct = f'{rel}::{(own_cls + ".") if own_cls else ""}{fn.name}'
                key = f'bulk delete of {target}'
                owns = [f'{r.name} -> {r.target}' for r in m.rels.values() if 'delete' in r.cascade or r.secondary]
                refs = referenced.get(m.table, [])
                if owns or refs:
                    what = []
                    if owns:
                        what.append('its rows own others through ' + ', '.join(owns[:3]))
                    if refs:
                        what.append('foreign keys point at it: ' + ', '.join(refs[:4]))
                    rep.fail('R17.8', construct, key,
                             f'`{short(call, 60)}` deletes {target} rows without loading them: no ORM cascade runs and the '
                             f'database enforces no foreign key, but {"; ".join(what)} - the dependent rows stay behind and '
                             'refer to a row that no longer exists', call)
                else:
                    rep.ok('R17.8', construct, key, 'the model owns nothing and nothing refers to it')
    rep.extra['bulk_deletes'] = n


def r17_10(rep: Report) -> None:
    """R17.10  replace = look the old row up by the unique value, delete it, create the new row with that value.
    The lookup key and the value the new row is created with must be ONE expression: when the new row takes its
    value from somewhere else (an alias field of the form that overrides it) the wrong row is deleted and the
    insert either meets the old row (unique constraint, 500) or an unrelated row - with everything it owns - is
    gone.  For every handler function with `v = models.M.get(k=E)`, a deletion of v and a later `models.M(..)`:
    E, with locals written out, is the `k` the constructor receives (`k=E`, or `**D` with E == D['k'])."""
    from ..core import subst_locals
    rid = 'R17.10'
    n = 0
    for rel in rep.repo.py_files('dashlive/server/requesthandler'):
        src = rep.repo.source(rel)
        if '.get(' not in src or 'delete' not in src:
            continue
        for cls_, fn in rep.repo.expanded_functions(rel):
            order = dfs_order(fn)
            for a in ast.walk(fn):
                if not (isinstance(a, ast.Assign) and len(a.targets) == 1 and isinstance(a.targets[0], ast.Name)
                        and isinstance(a.value, ast.Call) and isinstance(a.value.func, ast.Attribute)
                        and a.value.func.attr in ('get', 'get_one') and len(a.value.keywords) == 1 and not a.value.args
                        and (dotted(a.value.func.value) or '').startswith('models.')):
                    continue
                model = dotted(a.value.func.value)
                v, kw, E = a.targets[0].id, a.value.keywords[0].arg, a.value.keywords[0].value
                deleted = [c for c in ast.walk(fn) if isinstance(c, ast.Call) and order.get(id(c), -1) > order[id(a)] and (
                    (isinstance(c.func, ast.Attribute) and c.func.attr == 'delete' and any(norm(x) == v for x in c.args))
                    or (isinstance(c.func, ast.Attribute) and c.func.attr == 'delete' and norm(c.func.value) == v))]
                ctors = [c for c in ast.walk(fn) if isinstance(c, ast.Call) and dotted(c.func) == model
                         and order.get(id(c), -1) > order[id(a)]]
                if not deleted or not ctors:
                    continue
                n += 1
                construct = f'{rel}::{(cls_.name + ".") if cls_ else ""}{fn.name}'
                key = f'{model}: looked up and created by {kw}'
                want = norm(subst_locals(fn, E, allow_calls=True))
                ok_ = True
                got = ''
                changed_between = None
                for c in ctors:
                    vals = [norm(subst_locals(fn, k.value, allow_calls=True)) for k in c.keywords if k.arg == kw]
                    for k in c.keywords:
                        if k.arg is None:
                            for d in {norm(k.value), norm(subst_locals(fn, k.value, allow_calls=True))}:
                                vals += [f"{d}['{kw}']", f'{d}["{kw}"]', f"{d}.get('{kw}')"]
                                # the entry must still be what the lookup read: no store to it in between
                                for st_ in ast.walk(fn):
                                    if isinstance(st_, (ast.Assign, ast.AugAssign)) and order[id(a)] < order.get(id(st_), -1) < order[id(c)]:
                                        for t_ in (st_.targets if isinstance(st_, ast.Assign) else [st_.target]):
                                            if norm(t_) in (f"{d}['{kw}']", f'{d}["{kw}"]') or norm(t_) == d:
                                                changed_between = st_
                    got = vals[0] if vals else '(not given)'
                    if want not in vals and norm(E) not in vals:
                        ok_ = False
                if ok_ and changed_between is not None:
                    rep.fail(rid, construct, key,
                             f'the row to replace is looked up with `{kw}={want[:60]}`, then `{norm(changed_between)[:70]}` changes '
                             f'that value before the new {model.split(".")[-1]} is created with it: lookup and creation use different '
                             'values whenever the later assignment applies (an alias field of the request) - the wrong row is '
                             'deleted, or the old row stays and the insert violates the unique constraint', changed_between)
                elif ok_:
                    rep.ok(rid, construct, key, f'both use `{want[:60]}`')
                else:
                    rep.fail(rid, construct, key,
                             f'the row to replace is looked up with `{kw}={want[:70]}` but the new {model.split(".")[-1]} is created '
                             f'with `{got[:70]}`: when the two differ (an alias field of the request overriding the value) the '
                             'wrong row is deleted with everything it owns, or the old row stays and the insert violates the '
                             'unique constraint', a)
    if n < 1:
        raise AnalysisError('no replace sequence (get / delete / create of one model) found in the request handlers')


def r17_9(rep: Report, idx: Index) -> None:
    """R17.9  the files of a stream live in <blob folder>/<Stream.directory>/; the directory of an existing stream
    row is assigned only on paths that imply the stream owns no media files (`MediaFile.count(stream=s) == 0`,
    `not s.media_files`, `len(s.media_files) == 0`).  Otherwise every stored file of the stream is looked
    for in a folder it is not in: open_file raises, re-indexing reports FILE_NOT_FOUND, new uploads land
    elsewhere."""
    from ..flow import Disjunctive, Flow
    from ..pathcond import PathCond, atoms_of, entails as pc_entails, f_not, f_or, show as pc_show
    n = 0
    for rel in rep.repo.py_files('dashlive/server/requesthandler'):
        tree = rep.repo.tree(rel)
        if '.directory' not in rep.repo.source(rel):
            continue
        for cls_ in [c for c in ast.walk(tree) if isinstance(c, ast.ClassDef)]:
            for fn in [m for m in cls_.body if isinstance(m, (ast.FunctionDef, ast.AsyncFunctionDef))]:
                fn = find_func(cls_, fn.name) or fn
                stores = [a for a in ast.walk(fn) if isinstance(a, ast.Assign) and any(
                    isinstance(t, ast.Attribute) and t.attr == 'directory' and isinstance(t.value, ast.Name) for t in a.targets)]
                if not stores:
                    continue
                hits: list = []

                def on_stmt(st, states, _stores=stores, _hits=hits):
                    if any(st is a for a in _stores):
                        _hits.extend((st, x) for x in states)
                Flow(Disjunctive(PathCond(), cap=256), on_stmt=on_stmt).run(fn, [PathCond.initial()])
                for st in stores:
                    tg = next(t for t in st.targets if isinstance(t, ast.Attribute) and t.attr == 'directory')
                    row = tg.value.id
                    # a row built in this function is a new stream, not an existing one
                    if any(isinstance(a, ast.Assign) and any(isinstance(t, ast.Name) and t.id == row for t in a.targets)
                           and isinstance(a.value, ast.Call) and (call_name(a.value) or '').split('.')[-1] == 'Stream'
                           for a in ast.walk(fn)):
                        continue
                    n += 1
                    construct = f'{rel}::{cls_.name}.{fn.name}'
                    states = [x for s_, x in hits if s_ is st]
                    bad = None
                    for x in states:
                        atoms = atoms_of(x[0])
                        empty = [('atom', a) for a in atoms if re.fullmatch(
                            rf'(models\.)?MediaFile\.count\(stream={row}\) == 0|len\({row}\.media_files\) == 0', a)]
                        empty += [f_not(('atom', a)) for a in atoms if a in (f'{row}.media_files', f'len({row}.media_files)')]
                        goal = f_or(*empty) if empty else None
                        if goal is None or pc_entails(x[0], goal) is not True:
                            bad = x
                            break
                    if states and bad is None:
                        rep.ok('R17.9', construct, f'{row}.directory assigned only for a stream without files')
                    else:
                        shown = pc_show(bad[0])[:140] if bad is not None else 'not reached'
                        rep.fail('R17.9', construct, f'{row}.directory assigned only for a stream without files',
                                 f'`{short(st, 60)}` changes the directory of an existing stream on a path that does not imply the '
                                 f'stream owns no media files (path: {shown}): the stored files stay in the old folder while every '
                                 'lookup goes to the new one', st)
    rep.extra['stream_directory_stores'] = n


def analyse(rep: Report) -> None:
    rep.explanation = (
        'The ORM schema (foreign keys, relationships with cascades, association table, unique '
        'constraints) is extracted from the declarations; deletion sites are enumerated with typed '
        'receivers; each foreign key (and the JSON soft reference Stream.timing_ref) is matched '
        'against the delete rules that keep it referentially consistent for every history. '
        'Decides the schema/commit-discipline clauses; interleavings and byte-exact serving are '
        'not decided.')
    rep.rule('R17.1', 'every foreign key whose parent can be deleted has a delete rule', floor=9)
    rep.rule('R17.1s', 'JSON soft references are cleared or re-targeted at deletion sites', floor=3)
    rep.rule('R17.2', 'names stay unique by constraint', floor=11)
    rep.rule('R17.3', 'stores after the last commit of a handler', floor=0, informational=True)
    rep.rule('R17.5', 'delete cascades follow ownership (one-to-many) only', floor=5)
    rep.rule('R17.4', 'replace-on-upload deletes row and file together and links the new rows', floor=4)
    rep.rule('R17.6', 'a row is deleted and its replacement added in different flushes', floor=1)
    rep.rule('R17.7', 'rows are looked up by values of the kind the column holds', floor=2)
    rep.rule('R17.8', 'bulk DELETE statements only on models that own nothing and are not referred to', floor=1)
    rep.rule('R17.9', 'the directory of an existing stream changes only while it owns no files', floor=1)
    rep.rule('R17.10', 'a row that is replaced is looked up by the value its replacement is created with', floor=1)
    rep.rule('R17.11', 'a Blob row records the size of the file it names, measured after the file was closed (C13 R13.6)', floor=1)
    idx = Index(rep.repo)
    cg = CallGraph(idx)
    eff = Effects(idx, cg)
    models, assoc = read_schema(rep, idx)
    if len(models) < 11:
        raise AnalysisError(f'only {len(models)} mapped classes found')
    sites = deletion_sites(idx, cg, eff)
    rep.extra['deletion_sites'] = {k: [c for c, _n, _f in v] for k, v in sites.items()}
    rep.extra['schema'] = {m.cls: {'table': m.table,
                                   'fks': {c.name: c.fk for c in m.columns.values() if c.fk},
                                   'relationships': {r.name: f'{r.target} cascade="{r.cascade}"'
                                                     for r in m.rels.values()}}
                           for m in models.values()}
    r17_1(rep, idx, models, assoc, sites)
    r17_5(rep, models)
    r17_1_soft(rep, idx, cg, sites)
    r17_2(rep, models)
    r17_3(rep, idx, cg)
    r17_4(rep, models)
    r17_6(rep, idx, models, sites)
    r17_7(rep, idx, models)
    r17_8(rep, idx, models, assoc)
    r17_9(rep, idx)
    r17_10(rep)
    # the size a Blob row records is the size of the file it names (C13's rule: taken after the writer closed it)
    from ..core import lift
    from . import c13 as _c13

    def _run(sub):
        sub.rule('R13.6', 'the stored length of a media file is taken from the file after its writer has closed it', floor=0)
        _c13.stored_length(sub)
    lift(rep, 'R17.11', 'C13', _run, ('R13.6',), 'dashlive/server/models/mediafile.py::modify_media_file',
         'a Blob row records the size of the file it names')

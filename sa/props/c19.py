"""C19 - ISO-8601 text is faithful (rounding/carry, truncation, offset, filters).

R19.1  interval analysis of toIsoDuration: every number formatted into a
       bounded lexical field is inside the field's range on every path.
R19.2  from_isodatetime: the microsecond / fractional-second value is not
       produced by a truncating int() of a scaled parsed float.
R19.3  to_iso_datetime rewrites only a zero offset to 'Z' (regex AST), and the
       parser maps 'Z' and +-HH:MM to a tzinfo built from the same groups.
R19.4  the template filters isoDuration / isoDateTime are the library functions.
R19.5  to_iso_datetime renders the unmodified value with isoformat() at microsecond precision.
"""
from __future__ import annotations

import ast
import re
import re._parser as sre_parser  # regex AST, stdlib

from ..absint import AVal, INF, Zone, ZoneDomain, ZERO
from ..core import (AnalysisError, Report, call_name, dotted, find_class, find_func,
                    need, norm, short)
from ..flow import Flow

DT = 'dashlive/utils/date_time.py'
TZ = 'dashlive/utils/timezone.py'
TAGS = 'dashlive/server/template_tags.py'

FMT_RE = re.compile(r'%(0?)(\d*)d')


def _field_limit(fmt_before: str, width: str, zero: str, after: str) -> tuple[str, float] | None:
    """Which lexical field does a %d conversion feed, and its upper bound."""
    if zero and width:
        return (f'{width}-digit fraction', 10 ** int(width) - 1)
    if after.startswith('H'):
        return ('hours', INF)
    if after.startswith('M'):
        return ('minutes', 59)
    return ('seconds', 59)


def r19_1(rep: Report) -> None:
    rid = 'R19.1'
    rep.rule(rid, 'numbers formatted into bounded ISO-8601 duration fields are in range '
                  'on every path (fraction <= 10^n-1, minutes/seconds <= 59)', floor=3)
    tree = rep.repo.tree(DT)
    fn = need(find_func(tree, 'toIsoDuration'), f'{DT}::toIsoDuration')
    params = [a.arg for a in fn.args.args]
    if not params:
        raise AnalysisError('toIsoDuration has no parameter')
    p0 = params[0]
    rep.axioms.append(f'toIsoDuration: the duration argument `{p0}` (and float({p0}), '
                      f'{p0}.total_seconds()) is >= 0 (the property quantifies over durations >= 0)')
    rep.axioms.append('x - math.floor(x) lies in [0, 1)')

    def hook(call: ast.Call, s: Zone, dom: ZoneDomain):
        cn = dotted(call.func)
        if cn == 'float' and len(call.args) == 1 and norm(call.args[0]) == p0:
            lo, hi = dom.interval(dom.eval(call.args[0], s), s)
            return AVal(None, max(lo, 0), hi, False)
        if cn == f'{p0}.total_seconds':
            return AVal(None, 0, INF, False)
        return None

    dom = ZoneDomain(call_hook=hook)
    construct = f'{DT}::toIsoDuration'
    seen_fields: set[str] = set()

    def check_value(label: str, limit: float, valnode: ast.AST, s: Zone, where: ast.AST):
        lo, hi = dom.interval(dom.eval(valnode, s), s)
        seen_fields.add(label)
        key = f'{label}:{norm(valnode)}'
        if lo < 0 or hi > limit:
            rep.fail(rid, construct, key,
                     f'value `{norm(valnode)}` formatted as {label} has interval '
                     f'[{lo:g}, {hi:g}], field allows [0, {limit:g}] '
                     f'(no carry into the next unit)', where)
        else:
            rep.ok(rid, construct, key, f'interval [{lo:g}, {hi:g}] within [0, {limit:g}]')

    def on_stmt(st: ast.stmt, s: Zone) -> None:
        if isinstance(st, (ast.If, ast.While, ast.For, ast.With, ast.Try)):
            roots: list[ast.AST] = [st.test] if isinstance(st, (ast.If, ast.While)) else []
        else:
            roots = [st]
        for root in roots:
            for n in ast.walk(root):
                if isinstance(n, ast.BinOp) and isinstance(n.op, ast.Mod) \
                        and isinstance(n.left, ast.Constant) and isinstance(n.left.value, str):
                    fmt = n.left.value
                    ms = list(FMT_RE.finditer(fmt))
                    vals = n.right.elts if isinstance(n.right, ast.Tuple) else [n.right]
                    if len(ms) != len(vals):
                        continue
                    for m, v in zip(ms, vals):
                        fl = _field_limit(fmt[:m.start()], m.group(2), m.group(1), fmt[m.end():])
                        if fl:
                            check_value(fl[0], fl[1], v, s, n)
                elif isinstance(n, ast.JoinedStr):
                    parts = n.values
                    for i, part in enumerate(parts):
                        if not isinstance(part, ast.FormattedValue):
                            continue
                        if _is_text(fn, part.value):
                            continue           # a string spliced in (prefix, stripped fraction), not a number
                        spec = norm(part.format_spec) if part.format_spec else ''
                        m = re.search(r'0(\d+)d?', spec)
                        after = ''
                        if i + 1 < len(parts) and isinstance(parts[i + 1], ast.Constant):
                            after = str(parts[i + 1].value)
                        fl = _field_limit('', m.group(1) if m else '', '0' if m else '', after)
                        if fl:
                            check_value(fl[0], fl[1], part.value, s, n)

    init = Zone()
    init.add(ZERO, p0, 0)      # p0 >= 0
    Flow(dom, on_stmt=on_stmt).run(fn, init)
    if not any('fraction' in f for f in seen_fields):
        raise AnalysisError('toIsoDuration: no fixed-width fraction formatting recognised '
                            '(unknown idiom)')


def _is_text(fn: ast.AST, e: ast.AST) -> bool:
    """is the expression a string: a literal, an f-string, a str method result, or a local that is
    only ever assigned such values"""
    if isinstance(e, ast.JoinedStr) or (isinstance(e, ast.Constant) and isinstance(e.value, str)):
        return True
    if isinstance(e, ast.Call) and isinstance(e.func, ast.Attribute) \
            and e.func.attr in ('rstrip', 'lstrip', 'strip', 'join', 'format', 'zfill', 'ljust', 'rjust'):
        return True
    if isinstance(e, ast.BinOp) and isinstance(e.op, ast.Add):
        return _is_text(fn, e.left) or _is_text(fn, e.right)
    if isinstance(e, ast.IfExp):
        return _is_text(fn, e.body) and _is_text(fn, e.orelse)
    if isinstance(e, ast.Name):
        if any(isinstance(a, ast.AnnAssign) and norm(a.target) == e.id and norm(a.annotation) == 'str'
               for a in ast.walk(fn)):
            return True
        ds = [a.value for a in ast.walk(fn) if isinstance(a, (ast.Assign, ast.AnnAssign)) and a.value is not None
              and norm(a.targets[0] if isinstance(a, ast.Assign) else a.target) == e.id]
        return bool(ds) and all(_is_text(fn, d) for d in ds if not (isinstance(d, ast.Name) and d.id == e.id))
    return False


def _float_derived(fn: ast.FunctionDef) -> set[str]:
    """Names (flow-insensitively) assigned from an expression containing float(...)"""
    tainted: set[str] = set()
    changed = True
    while changed:
        changed = False
        for n in ast.walk(fn):
            tgt = None
            val = None
            if isinstance(n, ast.Assign) and len(n.targets) == 1 and isinstance(n.targets[0], ast.Name):
                tgt, val = n.targets[0].id, n.value
            elif isinstance(n, ast.AugAssign) and isinstance(n.target, ast.Name):
                tgt, val = n.target.id, n.value
            if tgt is None or tgt in tainted:
                continue
            if _mentions_float(val, tainted):
                tainted.add(tgt)
                changed = True
    return tainted


def _mentions_float(e: ast.AST, tainted: set[str]) -> bool:
    for n in ast.walk(e):
        if isinstance(n, ast.Call) and call_name(n) == 'float':
            return True
        if isinstance(n, ast.Name) and n.id in tainted:
            return True
    return False


def _is_rounded(arg: ast.AST) -> bool:
    """int(round(..)), int(x + 0.5) idioms"""
    if isinstance(arg, ast.Call) and call_name(arg) in ('round', 'math.floor', 'math.ceil'):
        return call_name(arg) == 'round'
    if isinstance(arg, ast.BinOp) and isinstance(arg.op, ast.Add):
        for side in (arg.left, arg.right):
            if isinstance(side, ast.Constant) and side.value == 0.5:
                return True
    return False


def r19_2(rep: Report) -> None:
    rid = 'R19.2'
    rep.rule(rid, 'fractional seconds of a parsed date-time are not obtained by a truncating '
                  'int() of a scaled float', floor=1)
    tree = rep.repo.tree(DT)
    fn = need(find_func(tree, 'from_isodatetime'), f'{DT}::from_isodatetime')
    construct = f'{DT}::from_isodatetime'
    tainted = _float_derived(fn)
    sites = 0
    cands: list[tuple[ast.AST, ast.AST]] = []
    for n in ast.walk(fn):
        # (a, microsecond) = (x, y): element-wise
        if isinstance(n, ast.Assign) and len(n.targets) == 1 and isinstance(n.targets[0], ast.Tuple) \
                and isinstance(n.value, ast.Tuple) and len(n.value.elts) == len(n.targets[0].elts):
            for t_, v_ in zip(n.targets[0].elts, n.value.elts):
                if isinstance(t_, ast.Name) and 'micro' in t_.id.lower():
                    cands.append((n, v_))
        # {'second': .., 'microsecond': <value>} handed to datetime(**kwargs) / kwargs.update(..)
        if isinstance(n, ast.Dict):
            for k_, v_ in zip(n.keys, n.values):
                if isinstance(k_, ast.Constant) and isinstance(k_.value, str) and 'microsecond' in k_.value:
                    cands.append((n, v_))
        # datetime.datetime(y, m, d, H, M, S, <microsecond>, ...)
        if isinstance(n, ast.Call) and (call_name(n) or '').endswith('datetime') and len(n.args) >= 7:
            cands.append((n, n.args[6]))
    for n in list(ast.walk(fn)) + cands:
        # the value stored as microsecond(s)
        is_us = False
        val = None
        if isinstance(n, tuple):
            n, val = n
            is_us = True
            if isinstance(val, ast.Name):
                continue            # its definition is a site of its own
        elif isinstance(n, ast.Assign) and len(n.targets) == 1:
            t = n.targets[0]
            if isinstance(t, ast.Subscript) and isinstance(t.slice, ast.Constant) \
                    and 'microsecond' in str(t.slice.value):
                is_us, val = True, n.value
            elif isinstance(t, ast.Name) and 'micro' in t.id.lower():
                is_us, val = True, n.value
        elif isinstance(n, ast.keyword) and n.arg and 'microsecond' in n.arg:
            is_us, val = True, n.value
        if not is_us or val is None:
            continue
        sites += 1
        bad = None
        for c in ast.walk(val):
            if isinstance(c, ast.Call) and call_name(c) == 'int' and len(c.args) == 1:
                arg = c.args[0]
                if _is_rounded(arg):
                    continue
                if isinstance(arg, ast.BinOp) and isinstance(arg.op, (ast.Mult, ast.Div)) \
                        and _mentions_float(arg, tainted):
                    bad = c
        key = f'microsecond={norm(val)}'
        tgt_name = None
        if isinstance(n, ast.Assign) and len(n.targets) == 1 and isinstance(n.targets[0], ast.Name):
            tgt_name = n.targets[0].id
        digits_bad = None if bad is not None else _fraction_digits_moved(fn, val, tainted, tgt_name)
        if bad is not None:
            rep.fail(rid, construct, key,
                     f'`{norm(bad)}` truncates a scaled binary float: decimal fractions such as '
                     f'.000070 come back one microsecond short', n)
        elif digits_bad is not None:
            rep.fail(rid, construct, key,
                     f'the fraction digits go through `{norm(digits_bad[0])[:60]}` before they are read as microseconds: '
                     f'{digits_bad[1]}', n)
        else:
            rep.ok(rid, construct, key)
    if sites == 0:
        raise AnalysisError('from_isodatetime: no microsecond computation found '
                            '(fractional seconds dropped, or unknown idiom)')


_PLACE_VALUE_OPS = {
    'strip': 'strip() also removes the leading zeros, which carry the place value (.045000 becomes 450000 us)',
    'lstrip': 'lstrip() removes the leading zeros, which carry the place value (.045000 becomes 450000 us)',
    'zfill': 'zfill() pads on the left: the digits move to lower places (.5 becomes 5 us)',
    'rjust': 'rjust() pads on the left: the digits move to lower places (.5 becomes 5 us)',
    'center': 'center() pads on both sides: the digits move to other places',
    'replace': 'replace() removes or changes digits inside the fraction',
}


def _fraction_digits_moved(fn: ast.AST, val: ast.AST, tainted: set[str], target: str | None = None):
    """(node, why) when the decimal digits that are read with int(<text>) for the microsecond go through an
    operation that changes the place of a digit.  The digits are followed backwards through every definition
    of the locals involved (flow-insensitive: a reassignment `frac = frac[:6].strip('0')` is on the chain).
    Accepted on the chain: `[:6]`, `ljust(6, '0')`, `rstrip('0')`, `+ '0' * k`, split / partition / group."""
    starts = [c.args[0] for c in ast.walk(val) if isinstance(c, ast.Call) and call_name(c) == 'int' and c.args
              and not _mentions_float(c.args[0], tainted) and not isinstance(c.args[0], ast.Constant)]
    if isinstance(val, ast.Name):
        starts.append(val)
    seen_names: set[str] = {target} if target and starts else set()
    work = list(starts)
    for _ in range(6):
        names = {x.id for e in work for x in ast.walk(e) if isinstance(x, ast.Name)} - seen_names
        if not names:
            break
        seen_names |= names
        for a_ in ast.walk(fn):
            if isinstance(a_, ast.Assign):
                for t_ in a_.targets:
                    if any(isinstance(x, ast.Name) and x.id in names for x in ast.walk(t_)):
                        work.append(a_.value)
            elif isinstance(a_, ast.AnnAssign) and a_.value is not None and isinstance(a_.target, ast.Name) \
                    and a_.target.id in names:
                work.append(a_.value)
    # a number read from the digits and then scaled by its own magnitude (`while 0 < us < 100000: us *= 10`): the
    # leading zeros of the fraction, which int() has dropped, decide the place of every digit
    for lp in ast.walk(fn):
        if isinstance(lp, ast.While):
            tested = {x.id for x in ast.walk(lp.test) if isinstance(x, ast.Name)}
            for st_ in ast.walk(lp):
                if isinstance(st_, ast.AugAssign) and isinstance(st_.op, (ast.Mult, ast.Div, ast.FloorDiv)) \
                        and isinstance(st_.target, ast.Name) and st_.target.id in tested and st_.target.id in seen_names:
                    return st_, ('the value read from the digits is scaled until it is large enough: int() has dropped the '
                                 'leading zeros of the fraction, so .000123 and .123 become the same number')
    for e in work:
        for x in ast.walk(e):
            if isinstance(x, ast.Call) and isinstance(x.func, ast.Attribute) and x.func.attr in _PLACE_VALUE_OPS \
                    and not x.keywords:
                if x.func.attr == 'replace' and not (x.args and isinstance(x.args[0], ast.Constant)
                                                     and isinstance(x.args[0].value, str)):
                    continue                # datetime.replace(..) / non-text
                return x, _PLACE_VALUE_OPS[x.func.attr]
            if isinstance(x, ast.Subscript) and isinstance(x.slice, ast.Slice) and any(
                    isinstance(y, ast.Call) and isinstance(y.func, ast.Attribute) and y.func.attr in ('ljust', 'split', 'partition')
                    or isinstance(y, ast.Name) and 'frac' in y.id.lower() for y in ast.walk(x.value)):
                lo, up = x.slice.lower, x.slice.upper
                if lo is not None and not (isinstance(lo, ast.Constant) and lo.value == 0):
                    return x, 'a slice that does not start at the first digit drops the highest places'
                if x.slice.step is not None:
                    return x, 'a stepped slice reorders or drops digits'
                if isinstance(up, ast.Constant) and isinstance(up.value, int) and up.value != 6 \
                        and 'frac' in norm(x.value).lower():
                    return x, f'the fraction is cut to {up.value} digits, not to the 6 digits of a microsecond'
    return None


def _regex_of(tree: ast.Module, scope: ast.AST, node: ast.AST) -> str | None:
    """the pattern text: a literal, or a name bound exactly once (in the function or at module level) to a
    literal or to re.compile(<literal>)"""
    if isinstance(node, ast.Constant) and isinstance(node.value, str):
        return node.value
    if isinstance(node, ast.Call) and call_name(node) == 're.compile' and node.args:
        return _regex_of(tree, scope, node.args[0])
    if isinstance(node, ast.Name):
        for where in (scope, tree):
            stmts = list(ast.walk(where)) if where is scope else list(tree.body)
            defs = [x for x in stmts if isinstance(x, (ast.Assign, ast.AnnAssign)) and x.value is not None
                    and any(isinstance(t, ast.Name) and t.id == node.id
                            for t in (x.targets if isinstance(x, ast.Assign) else [x.target]))]
            if len(defs) == 1 and not isinstance(defs[0].value, ast.Name):
                return _regex_of(tree, scope, defs[0].value)
            if defs:
                return None
    return None


def r19_3(rep: Report) -> None:
    rid = 'R19.3'
    rep.rule(rid, "to_iso_datetime rewrites only a zero UTC offset to 'Z'; the parser rebuilds the "
                  'offset as sign * (60*hour + minute) minutes', floor=6)
    tree = rep.repo.tree(DT)
    fn = need(find_func(tree, 'to_iso_datetime'), f'{DT}::to_iso_datetime')
    construct = f'{DT}::to_iso_datetime'
    # every rewriting of the rendered text: re.sub(P, R, s), <compiled pattern>.sub(R, s), s.replace(a, b);
    # any other rewriting call is an idiom this rule does not know (the run stops rather than pass)
    subs = []
    for n in ast.walk(fn):
        if not (isinstance(n, ast.Call) and isinstance(n.func, ast.Attribute)):
            continue
        if call_name(n) == 're.sub' and len(n.args) >= 3:
            subs.append(n)
        elif n.func.attr == 'replace' and len(n.args) == 2 and all(isinstance(a, ast.Constant) and isinstance(a.value, str)
                                                                  for a in n.args):
            subs.append(n)
        elif n.func.attr == 'sub' and len(n.args) == 2 and _regex_of(tree, fn, n.func.value) is not None:
            # the same call written on the compiled pattern
            subs.append(ast.copy_location(ast.Call(
                func=ast.Attribute(value=ast.Name(id='re', ctx=ast.Load()), attr='sub', ctx=ast.Load()),
                args=[ast.Constant(value=_regex_of(tree, fn, n.func.value))] + list(n.args), keywords=[]), n))
        elif n.func.attr in ('sub', 'subn', 'translate') or (n.func.attr == 'replace' and n.args):
            # (datetime.replace(tzinfo=..) takes keywords only and rewrites no text)
            raise AnalysisError(f'to_iso_datetime: `{norm(n)[:60]}` rewrites the rendered text in a way this rule does not follow')
    uses_isoformat = any(isinstance(n, ast.Call) and isinstance(n.func, ast.Attribute)
                         and n.func.attr == 'isoformat' for n in ast.walk(fn))
    if not uses_isoformat:
        raise AnalysisError('to_iso_datetime no longer renders with isoformat() (unknown idiom)')
    rep.ok(rid, construct, 'isoformat', 'offset text comes from datetime.isoformat()')
    for c in subs:
        if call_name(c) == 're.sub':
            pat = _regex_of(tree, fn, c.args[0])
            if pat is None:
                raise AnalysisError('to_iso_datetime: non-literal regex')
            ast.fix_missing_locations(c)
            try:
                parsed = list(sre_parser.parse(pat))
            except Exception as err:
                raise AnalysisError(f'cannot parse regex {pat!r}: {err}')
            ok = True
            why = ''
            if not parsed or str(parsed[-1][0]) != 'AT' or 'AT_END' not in str(parsed[-1][1]):
                ok, why = False, 'pattern is not anchored at the end of the string'
            digits_nonzero = False
            for op, arg in parsed:
                sop = str(op)
                if sop == 'LITERAL' and chr(arg).isdigit() and chr(arg) != '0':
                    digits_nonzero = True
                if sop in ('IN', 'ANY', 'MAX_REPEAT', 'MIN_REPEAT', 'BRANCH', 'SUBPATTERN'):
                    # a class/repeat is only acceptable if it cannot match a digit
                    if sop == 'IN':
                        for iop, iarg in arg:
                            if str(iop) == 'LITERAL' and chr(iarg) in '+-':
                                continue
                            ok, why = False, f'character class admits more than a sign: {pat!r}'
                    else:
                        ok, why = False, f'pattern {pat!r} can match a non-zero offset'
            if digits_nonzero:
                ok, why = False, f'pattern {pat!r} rewrites a non-zero offset'
            repl = const = c.args[1]
            if not (isinstance(const, ast.Constant) and const.value == 'Z'):
                ok, why = False, 'replacement is not the literal Z'
            key = f're.sub({pat})'
            if ok:
                rep.ok(rid, construct, key, 'matches only [+-]00:00 at end of text')
            else:
                rep.fail(rid, construct, key, why, c)
        else:
            a0 = c.args[0] if c.args else None
            if isinstance(a0, ast.Constant) and a0.value in ('+00:00', '-00:00'):
                # str.replace is unanchored: +00:00 may also occur... only at the end of isoformat
                rep.ok(rid, construct, f'replace({a0.value})')
            else:
                rep.fail(rid, construct, f'replace({norm(a0) if a0 else ""})',
                         'replace() of a non-zero offset text', c)
    # naive datetimes get a Z suffix (treated as UTC): accepted idiom, listed.
    # parser side
    tzt = rep.repo.tree(TZ)
    cls = need(find_class(tzt, 'FixedOffsetTimeZone'), f'{TZ}::FixedOffsetTimeZone')
    init = need(find_func(cls, '__init__'), f'{TZ}::FixedOffsetTimeZone.__init__')
    pat = None
    for n in cls.body:
        if isinstance(n, ast.Assign) and isinstance(n.value, ast.Call) \
                and call_name(n.value) == 're.compile':
            pat = const_str(n.value.args[0])
    if pat is None:
        raise AnalysisError('FixedOffsetTimeZone: regex not found')
    groups = set(re.compile(pat).groupindex)
    used = {n.args[0].value for n in ast.walk(init)
            if isinstance(n, ast.Call) and isinstance(n.func, ast.Attribute)
            and n.func.attr == 'group' and n.args and isinstance(n.args[0], ast.Constant)}
    construct2 = f'{TZ}::FixedOffsetTimeZone.__init__'
    if groups <= used and len(groups) >= 3:
        rep.ok(rid, construct2, 'groups', f'all of {sorted(groups)} are consumed')
    else:
        rep.fail(rid, construct2, 'groups',
                 f'regex groups {sorted(groups)} but only {sorted(used)} are used', init)
    # the offset as a linear function of the hour and minute groups, for each sign
    for negative in (False, True):
        lf = _offset_linear(init, negative)
        want = (-60, -1, 0) if negative else (60, 1, 0)
        label = "offset for '-'" if negative else "offset for '+'"
        if lf is None:
            # not a linear form this rule reads: evaluate the constructor on example offsets instead (the weakest
            # form of the rule - it decides the examples, not all offsets)
            raw_init = find_func(cls, '__init__', raw=True) or init
            sign = '-' if negative else '+'
            bad = None
            n_ex = 0
            for h, m_ in ((0, 0), (0, 30), (0, 59), (1, 0), (3, 30), (5, 45), (9, 30), (11, 59), (12, 0), (12, 45), (13, 0), (14, 0)):
                text = f'{sign}{h:02d}:{m_:02d}'
                try:
                    got = _offset_concrete(raw_init, cls, pat, text)
                except _Undecided as err:
                    raise AnalysisError('FixedOffsetTimeZone.__init__: offset computation not recognised '
                                        f'(unknown idiom: {err})')
                n_ex += 1
                want_m = (-1 if negative else 1) * (60 * h + m_)
                if got != want_m and bad is None:
                    bad = (text, got, want_m)
            if bad is None:
                rep.ok(rid, construct2, label, f'{n_ex} example offsets evaluated (not a linear form)')
            else:
                rep.fail(rid, construct2, label,
                         f'for the offset text `{bad[0]}` the constructor stores {bad[1]} minutes, expected {bad[2]} '
                         '(evaluated by the checker on the statements of __init__): a date-time with that offset is parsed '
                         'to another instant and rendered with another offset', init)
            continue
        if lf == want:
            rep.ok(rid, construct2, label, f'{lf[0]}*hour + {lf[1]}*minute minutes')
        else:
            rep.fail(rid, construct2, label,
                     f'the UTC offset is computed as {lf[0]}*hour + {lf[1]}*minute + {lf[2]} minutes, '
                     f'expected {want[0]}*hour + {want[1]}*minute', init)
    # parse_timezone: Z -> UTC, else FixedOffsetTimeZone(value)
    pt = need(find_func(tree, 'parse_timezone'), f'{DT}::parse_timezone')
    calls = {call_name(n) for n in ast.walk(pt) if isinstance(n, ast.Call)}
    if 'UTC' in calls and 'FixedOffsetTimeZone' in calls:
        rep.ok(rid, f'{DT}::parse_timezone', 'dispatch')
    else:
        rep.fail(rid, f'{DT}::parse_timezone', 'dispatch',
                 f'expected UTC() and FixedOffsetTimeZone(value), found {sorted(c for c in calls if c)}', pt)
    # from_isodatetime passes the tzinfo group through parse_timezone into kwargs['tzinfo']
    fi = need(find_func(tree, 'from_isodatetime'), f'{DT}::from_isodatetime')
    ok = False
    for n in ast.walk(fi):
        if isinstance(n, ast.Assign) and isinstance(n.value, ast.Call) \
                and call_name(n.value) == 'parse_timezone':
            ok = True
    if ok:
        rep.ok(rid, f'{DT}::from_isodatetime', 'tzinfo')
    else:
        rep.fail(rid, f'{DT}::from_isodatetime', 'tzinfo',
                 'tzinfo group is not converted with parse_timezone', fi)


class _Undecided(Exception):
    pass


def _offset_concrete(init: ast.FunctionDef, cls: ast.ClassDef, pat: str, text: str):
    """the offset FixedOffsetTimeZone.__init__ stores for the offset text `text`, in minutes: the statements of the
    constructor are evaluated by this checker on the values of the example (the regex match is the stdlib's own
    on the pattern read from the class; a timedelta is its number of minutes).  No repository code runs.
    Raises _Undecided on anything outside integers, text, comparisons, if/else and class constants."""
    m = re.compile(pat).match(text)
    if m is None:
        raise _Undecided(f'{text!r} does not match the pattern')
    env: dict[str, object] = {}
    stored: dict[str, object] = {}

    class TD:
        def __init__(self, minutes):
            self.minutes = minutes

    def class_const(name: str):
        for b in cls.body:
            if isinstance(b, (ast.Assign, ast.AnnAssign)):
                tg = b.targets[0] if isinstance(b, ast.Assign) else b.target
                if isinstance(tg, ast.Name) and tg.id == name and b.value is not None:
                    return ev(b.value)
        raise _Undecided(f'class attribute {name}')

    def ev(e: ast.AST):
        if isinstance(e, ast.Constant):
            return e.value
        if isinstance(e, ast.Name):
            if e.id in env:
                return env[e.id]
            raise _Undecided(f'name {e.id}')
        if isinstance(e, ast.Attribute) and isinstance(e.value, ast.Name) and e.value.id in ('self', 'cls', 'clz', cls.name):
            if e.attr in stored:
                return stored[e.attr]
            return class_const(e.attr)
        if isinstance(e, ast.UnaryOp):
            v = ev(e.operand)
            if isinstance(e.op, ast.USub):
                return -v
            if isinstance(e.op, ast.Not):
                return not v
            if isinstance(e.op, ast.UAdd):
                return +v
        if isinstance(e, ast.BinOp):
            a, b = ev(e.left), ev(e.right)
            if isinstance(a, TD) or isinstance(b, TD):
                if isinstance(e.op, ast.Add) and isinstance(a, TD) and isinstance(b, TD):
                    return TD(a.minutes + b.minutes)
                if isinstance(e.op, ast.Sub) and isinstance(a, TD) and isinstance(b, TD):
                    return TD(a.minutes - b.minutes)
                if isinstance(e.op, ast.Mult) and isinstance(a, TD) and isinstance(b, (int, float)):
                    return TD(a.minutes * b)
                if isinstance(e.op, ast.Mult) and isinstance(b, TD) and isinstance(a, (int, float)):
                    return TD(b.minutes * a)
                raise _Undecided(norm(e))
            ops = {ast.Add: lambda x, y: x + y, ast.Sub: lambda x, y: x - y, ast.Mult: lambda x, y: x * y,
                   ast.FloorDiv: lambda x, y: x // y, ast.Mod: lambda x, y: x % y, ast.Div: lambda x, y: x / y}
            f = ops.get(type(e.op))
            if f is None or not all(isinstance(x, (int, float, str)) for x in (a, b)):
                raise _Undecided(norm(e))
            try:
                return f(a, b)
            except Exception as err:            # noqa: BLE001 - e.g. text + number: the constructor would raise too
                raise _Undecided(f'{norm(e)}: {err}')
        if isinstance(e, ast.BoolOp):
            vals = [ev(v) for v in e.values]
            if isinstance(e.op, ast.And):
                out = True
                for v in vals:
                    out = v
                    if not v:
                        break
                return out
            out = False
            for v in vals:
                out = v
                if v:
                    break
            return out
        if isinstance(e, ast.Compare):
            left = ev(e.left)
            for op, c in zip(e.ops, e.comparators):
                right = ev(c)
                r = {ast.Eq: lambda: left == right, ast.NotEq: lambda: left != right, ast.Lt: lambda: left < right,
                     ast.LtE: lambda: left <= right, ast.Gt: lambda: left > right, ast.GtE: lambda: left >= right,
                     ast.Is: lambda: left is right, ast.IsNot: lambda: left is not right,
                     ast.In: lambda: left in right, ast.NotIn: lambda: left not in right}[type(op)]()
                if not r:
                    return False
                left = right
            return True
        if isinstance(e, ast.IfExp):
            return ev(e.body) if ev(e.test) else ev(e.orelse)
        if isinstance(e, (ast.Tuple, ast.List)):
            return tuple(ev(x) for x in e.elts)
        if isinstance(e, ast.Call):
            cn = call_name(e) or ''
            if isinstance(e.func, ast.Attribute) and e.func.attr == 'match' and 'tzinfo' in norm(e.func.value).lower() or \
                    (cn in ('re.match',) and e.args):
                return m
            if isinstance(e.func, ast.Attribute) and e.func.attr in ('group', 'groupdict', 'groups'):
                recv = ev(e.func.value)
                if recv is m:
                    return getattr(m, e.func.attr)(*[ev(a) for a in e.args])
            if cn == 'int' and e.args:
                args = [ev(a) for a in e.args]
                try:
                    return int(*args)
                except Exception as err:        # noqa: BLE001
                    raise _Undecided(f'int{tuple(args)!r}: {err}')
            if cn in ('abs', 'min', 'max', 'divmod', 'float', 'str', 'len') and e.args:
                args = [ev(a) for a in e.args]
                return {'abs': abs, 'min': min, 'max': max, 'divmod': divmod, 'float': float, 'str': str, 'len': len}[cn](*args)
            if cn.endswith('timedelta'):
                scale = {'days': 1440, 'hours': 60, 'minutes': 1, 'seconds': 1 / 60}
                tot = 0
                for i, a in enumerate(e.args):
                    tot += ev(a) * [1440, 1 / 60, 1 / 60e6][i] if i < 3 else 0
                for k in e.keywords:
                    if k.arg not in scale:
                        raise _Undecided(f'timedelta({k.arg}=)')
                    tot += ev(k.value) * scale[k.arg]
                return TD(tot)
            if isinstance(e.func, ast.Attribute) and isinstance(e.func.value, ast.Call) \
                    and norm(e.func.value.func) == 'super':
                return None
        if isinstance(e, ast.Subscript):
            v = ev(e.value)
            if v is m:
                return m[ev(e.slice)]
            if isinstance(v, (tuple, str)) and isinstance(e.slice, ast.Constant):
                return v[e.slice.value]
        raise _Undecided(norm(e)[:60])

    class _Raise(Exception):
        pass

    def run(stmts):
        for st in stmts:
            if isinstance(st, ast.Expr):
                if isinstance(st.value, ast.Constant):
                    continue
                try:
                    ev(st.value)
                except _Undecided:
                    pass
            elif isinstance(st, (ast.Assign, ast.AnnAssign)):
                if getattr(st, 'value', None) is None:
                    continue
                tg = st.targets[0] if isinstance(st, ast.Assign) else st.target
                if isinstance(tg, ast.Attribute) and isinstance(tg.value, ast.Name) and tg.value.id == 'self':
                    try:
                        stored[tg.attr] = ev(st.value)
                    except _Undecided:
                        if tg.attr.lstrip('_').endswith('offset'):
                            raise
                        stored[tg.attr] = None
                    continue
                v = ev(st.value)
                if isinstance(tg, ast.Name):
                    env[tg.id] = v
                elif isinstance(tg, ast.Tuple) and isinstance(v, tuple) and len(v) == len(tg.elts):
                    for t_, x in zip(tg.elts, v):
                        if isinstance(t_, ast.Name):
                            env[t_.id] = x
                else:
                    raise _Undecided(norm(st)[:60])
            elif isinstance(st, ast.AugAssign) and isinstance(st.target, ast.Name):
                env[st.target.id] = ev(ast.BinOp(left=ast.Name(id=st.target.id, ctx=ast.Load()), op=st.op, right=st.value))
            elif isinstance(st, ast.If):
                run(st.body if ev(st.test) else st.orelse)
            elif isinstance(st, ast.Raise):
                raise _Raise()
            elif isinstance(st, ast.Pass):
                pass
            else:
                raise _Undecided(f'statement {type(st).__name__}')
    params = [a.arg for a in init.args.args if a.arg != 'self']
    if params:
        env[params[0]] = text
    try:
        run(init.body)
    except _Raise:
        return 'raises'
    tds = [v for k, v in stored.items() if isinstance(v, TD)]
    if len(tds) != 1:
        raise _Undecided('no single timedelta is stored')
    return tds[0].minutes


def _offset_linear(fn: ast.FunctionDef, negative: bool):
    """symbolic evaluation of FixedOffsetTimeZone.__init__: the timedelta stored as the offset,
    in minutes, as (coefficient of hour, coefficient of minute, constant) under the given sign"""
    env: dict[str, tuple] = {}
    result = []

    def is_sign_test(t: ast.AST):
        """(True if test means "sign is '-'", False if it means '+', None if not a sign test)"""
        txt = norm(t)
        if "group('delta')" not in txt:
            return None
        if isinstance(t, ast.Compare) and len(t.ops) == 1 and isinstance(t.comparators[0], ast.Constant):
            val = t.comparators[0].value
            eq = isinstance(t.ops[0], ast.Eq)
            if val == '-':
                return eq
            if val == '+':
                return not eq
        return None

    def ev(e: ast.AST):
        if isinstance(e, ast.Constant) and isinstance(e.value, (int, float)) and not isinstance(e.value, bool):
            return (0, 0, e.value)
        if isinstance(e, ast.Name) and e.id in env:
            return env[e.id]
        if isinstance(e, ast.Call) and call_name(e) == 'int' and e.args:
            a0 = e.args[0]
            a = norm(a0)
            plain = isinstance(a0, ast.Call) and isinstance(a0.func, ast.Attribute) and a0.func.attr == 'group'
            if "group('hour')" in a and plain:
                return (1, 0, 0)
            if "group('minute')" in a and plain:
                return (0, 1, 0)
            if 'group(' in a:
                return None                 # the group text is worked on before it is converted: not read as linear
            return ev(a0)
        if isinstance(e, ast.UnaryOp) and isinstance(e.op, ast.USub):
            v = ev(e.operand)
            return None if v is None else tuple(-x for x in v)
        if isinstance(e, ast.BinOp):
            a, b = ev(e.left), ev(e.right)
            if a is None or b is None:
                return None
            if isinstance(e.op, ast.Add):
                return tuple(x + y for x, y in zip(a, b))
            if isinstance(e.op, ast.Sub):
                return tuple(x - y for x, y in zip(a, b))
            if isinstance(e.op, ast.Mult):
                if a[0] == a[1] == 0:
                    return tuple(a[2] * y for y in b)
                if b[0] == b[1] == 0:
                    return tuple(b[2] * x for x in a)
            return None
        if isinstance(e, ast.IfExp):
            st = is_sign_test(e.test)
            if st is None:
                return None
            return ev(e.body) if st == negative else ev(e.orelse)
        if isinstance(e, ast.Call) and (call_name(e) or '').endswith('timedelta'):
            tot = (0, 0, 0)
            for k in e.keywords:
                v = ev(k.value)
                scale = {'hours': 60, 'minutes': 1, 'seconds': 1 / 60, 'days': 1440}.get(k.arg)
                if v is None or scale is None:
                    return None
                tot = tuple(t + scale * x for t, x in zip(tot, v))
            if e.args:
                return None
            return tot
        return None

    def run(stmts):
        for st in stmts:
            if isinstance(st, ast.Assign) and len(st.targets) == 1:
                t = st.targets[0]
                v = ev(st.value)
                if isinstance(t, ast.Name):
                    if v is not None:
                        env[t.id] = v
                    else:
                        env.pop(t.id, None)
                elif isinstance(t, ast.Attribute) and 'offset' in t.attr.lower():
                    result.append(v)
            elif isinstance(st, ast.AugAssign) and isinstance(st.target, ast.Name):
                v = ev(ast.BinOp(left=st.target, op=st.op, right=st.value))
                if v is not None:
                    env[st.target.id] = v
                else:
                    env.pop(st.target.id, None)
            elif isinstance(st, ast.If):
                sg = is_sign_test(st.test)
                if sg is None:
                    # not about the sign: e.g. the `tz_match is None` refusal - skip raising branches
                    if st.body and isinstance(st.body[-1], ast.Raise):
                        run(st.orelse)
                    else:
                        return False
                else:
                    run(st.body if sg == negative else st.orelse)
        return True
    run(fn.body)
    if not result or result[-1] is None:
        return None
    r = result[-1]
    return tuple(int(x) if float(x).is_integer() else x for x in r)


def const_str(n: ast.AST) -> str | None:
    if isinstance(n, ast.Constant) and isinstance(n.value, str):
        return n.value
    return None


def r19_4(rep: Report) -> None:
    rid = 'R19.4'
    rep.rule(rid, 'template filters isoDuration/isoDateTime are registered and return the '
                  'library formatter applied to their argument', floor=2)
    tree = rep.repo.tree(TAGS)
    imports: dict[str, str] = {}
    for n in tree.body:
        if isinstance(n, ast.ImportFrom):
            for a in n.names:
                imports[a.asname or a.name] = f'{n.module}.{a.name}'
    from ..core import template_filters
    regs = template_filters(rep.repo, TAGS)
    for filt, target in (('isoDuration', 'toIsoDuration'), ('isoDateTime', 'to_iso_datetime')):
        construct = f'{TAGS}::{filt}'
        if filt not in regs:
            raise AnalysisError(f'anchor vanished: {TAGS}::{filt}')
        fn, how = regs[filt]
        ok = False
        if getattr(fn, 'name', None) == target:
            ok = True                   # the library function itself is registered as the filter
        else:
            # every path of the filter returns the term  <target>(<its parameter>)  (sa/termeval.py)
            from ..termeval import TermEval
            param = fn.args.args[0].arg if fn.args.args else None
            paths = [p_ for p_ in TermEval({}).run(fn, {}) if p_.done == 'return']
            texts = {getattr(p_.result, 'text', repr(p_.result)) for p_ in paths}
            if paths and texts == {f'{target}({param})'} and imports.get(target, '').endswith('date_time.' + target):
                ok = True
        if ok:
            rep.ok(rid, construct, target, f'registered ({how})')
        else:
            rep.fail(rid, construct, target,
                     f'filter {filt} is not `{target}` applied to its argument (registered as {how})', fn)


def r19_5(rep: Report) -> None:
    """the renderer keeps every digit the parser reads back: the text comes from isoformat() at
    full (microsecond) precision of the unmodified value"""
    rid = 'R19.5'
    rep.rule(rid, 'to_iso_datetime renders the unmodified value at microsecond precision', floor=1)
    tree = rep.repo.tree(DT)
    fn = need(find_func(tree, 'to_iso_datetime'), f'{DT}::to_iso_datetime')
    construct = f'{DT}::to_iso_datetime'
    param = fn.args.args[0].arg
    renders = 0
    for n in ast.walk(fn):
        if not (isinstance(n, ast.Call) and isinstance(n.func, ast.Attribute)):
            continue
        a = n.func.attr
        if a == 'isoformat':
            renders += 1
            spec = None
            if len(n.args) >= 2:
                spec = n.args[1]
            for k in n.keywords:
                if k.arg == 'timespec':
                    spec = k.value
                elif k.arg is None:
                    spec = k.value          # **kwargs: unknown
            ok = spec is None or (isinstance(spec, ast.Constant) and spec.value in ('auto', 'microseconds'))
            if ok and norm(n.func.value) == param:
                rep.ok(rid, construct, 'isoformat at full precision')
            elif not ok:
                rep.fail(rid, construct, 'isoformat at full precision',
                         f'`{short(n, 70)}` renders with timespec {norm(spec)}: digits of the microsecond field '
                         'are cut off (not rounded), so parsing the text back gives an earlier instant', n)
            else:
                rep.fail(rid, construct, 'isoformat at full precision',
                         f'`{short(n, 70)}` renders `{norm(n.func.value)}`, not the value it was given', n)
        elif a == 'strftime':
            renders += 1
            fmt = n.args[0] if n.args else None
            if isinstance(fmt, ast.Constant) and isinstance(fmt.value, str) and '%f' in fmt.value:
                rep.ok(rid, construct, 'strftime with %f')
            else:
                rep.fail(rid, construct, 'strftime with %f',
                         f'`{short(n, 70)}` formats without the microsecond field', n)
        elif a == 'replace' and norm(n.func.value) == param and any(
                k.arg in ('microsecond', 'second', 'minute', 'hour') for k in n.keywords):
            rep.fail(rid, construct, 'value unchanged before rendering',
                     f'`{short(n, 70)}` drops part of the instant before it is rendered', n)
    if not renders:
        raise AnalysisError('to_iso_datetime: no isoformat()/strftime() rendering found')


def r19_6(rep: Report) -> None:
    """R19.6  a time delta is taken apart through all three of its fields: a function that reads `x.seconds`
    (the seconds *within the day*, 0..86399) also reads `x.days` - and `x.microseconds` - of the same value, or
    uses `total_seconds()`.  `.seconds` alone wraps every 24 hours: a timecode of a stream that has been
    live for more than a day starts again at 0."""
    rid = 'R19.6'
    rep.rule(rid, 'timedelta.seconds is never read without .days of the same value', floor=0)
    n = 0
    for rel in rep.repo.py_files('dashlive'):
        tree = rep.repo.tree(rel)
        for fn in [x for x in ast.walk(tree) if isinstance(x, (ast.FunctionDef, ast.AsyncFunctionDef))]:
            reads: dict[str, list[ast.Attribute]] = {}
            for x in ast.walk(fn):
                if isinstance(x, ast.Attribute) and x.attr == 'seconds' and isinstance(x.ctx, ast.Load):
                    par = getattr(x, '_parent', None)
                    if isinstance(par, ast.keyword):
                        continue
                    reads.setdefault(norm(x.value), []).append(x)
            for base, sites in sorted(reads.items()):
                attrs_ = {x.attr for x in ast.walk(fn) if isinstance(x, ast.Attribute) and norm(x.value) == base}
                if base in ('self', 'cls') or attrs_ - {'days', 'seconds', 'microseconds', 'total_seconds'}:
                    continue                # a record with a field called seconds (hours / minutes next to it), not a timedelta
                n += 1
                construct = f'{rel}::{fn.name}'
                attrs = {x.attr for x in ast.walk(fn) if isinstance(x, ast.Attribute) and norm(x.value) == base}
                if 'days' in attrs:
                    rep.ok(rid, construct, f'{base}.seconds with {base}.days')
                else:
                    rep.fail(rid, construct, f'{base}.seconds with {base}.days',
                             f'`{norm(sites[0])}` is the seconds within the day; the function never reads `{base}.days`, so every '
                             'whole day of the delta is dropped: the result wraps at 24 hours (a timecode of a stream live for '
                             'more than a day, a duration of more than a day)', sites[0])
    rep.extra['timedelta_seconds_reads'] = n      # none at all is fine: total_seconds() / a helper is used instead


_NAIVE_CTORS = ('utcnow', 'utcfromtimestamp')


def r19_7(rep: Report) -> None:
    """R19.7  `x.replace(tzinfo=Z)` relabels a date-time, it does not convert it: 15:30+05:30 becomes 15:30Z, five
    and a half hours later.  It is only sound on a value that has no zone yet.  Every such call in the package is
    on a value that is naive by construction (strptime() with a format without %z, utcnow(), utcfromtimestamp(), a
    datetime(..) built without tzinfo) or on a path that implies `<x>.tzinfo is None` / `<x>.utcoffset() is None`."""
    from ..flow import Disjunctive, Flow
    from ..pathcond import PathCond, entails as pc_entails, show as pc_show
    from ..core import subst_locals
    rid = 'R19.7'
    rep.rule(rid, 'a time zone is attached with replace(tzinfo=..) only to a value that has none', floor=1)

    def relabels(st: ast.AST) -> list[ast.Call]:
        return [c for c in ast.walk(st) if isinstance(c, ast.Call) and isinstance(c.func, ast.Attribute)
                and c.func.attr == 'replace' and any(k.arg == 'tzinfo' and not (isinstance(k.value, ast.Constant)
                                                                                and k.value.value is None)
                                                     for k in c.keywords)]

    def naive_by_construction(e: ast.AST) -> bool:
        if not isinstance(e, ast.Call):
            return False
        name = call_name(e) or ''
        last = name.rsplit('.', 1)[-1]
        if last == 'strptime' and len(e.args) >= 2:
            fmt = const_str(e.args[-1])
            return fmt is not None and '%z' not in fmt and '%Z' not in fmt
        if last in _NAIVE_CTORS:
            return True
        if last == 'datetime' and len(e.args) < 8 and not any(k.arg == 'tzinfo' or k.arg is None for k in e.keywords):
            return True
        return False
    for rel in rep.repo.py_files('dashlive'):
        if 'tzinfo' not in rep.repo.source(rel):
            continue
        for cls_, fn in rep.repo.expanded_functions(rel):
            if not relabels(fn):
                continue
            construct = f'{rel}::{(cls_.name + ".") if cls_ else ""}{fn.name}'
            at: dict[int, list] = {}

            def on_stmt(st, states, at=at):
                if isinstance(st, (ast.If, ast.While, ast.For, ast.Try, ast.With)):
                    return
                if relabels(st):
                    at.setdefault(id(st), [st, []])[1].extend(states)
            Flow(Disjunctive(PathCond(), cap=256), on_stmt=on_stmt).run(fn, [PathCond.initial()])
            for st, states in at.values():
                for c in relabels(st):
                    recv = c.func.value
                    key = f'{norm(recv)[:50]}.replace(tzinfo=..)'
                    shown = subst_locals(fn, recv, allow_calls=True)
                    if naive_by_construction(recv) or naive_by_construction(shown):
                        rep.ok(rid, construct, key, 'the value is naive by construction')
                        continue
                    atoms = [('atom', f'{norm(recv)}.tzinfo is None'), ('atom', f'{norm(recv)}.utcoffset() is None')]
                    bad = [x for x in states if not any(pc_entails(x[0], a) is True for a in atoms)]
                    if states and not bad:
                        rep.ok(rid, construct, key, f'only where {norm(recv)}.tzinfo is None')
                    else:
                        rep.fail(rid, construct, key,
                                 f'`{norm(c)[:80]}` attaches a zone to `{norm(recv)}` on a path that does not imply '
                                 f'`{norm(recv)}.tzinfo is None`' + (f' (path: {pc_show(bad[0][0])[:100]})' if bad else '') +
                                 ': replace() keeps the wall-clock fields, so a value that already carries another UTC offset '
                                 'is moved by that offset (15:30+05:30 becomes 15:30Z)', c)


def lift_into(rep: Report, rid: str, rules: tuple[str, ...], what: str) -> None:
    """other properties rest on the same formatter / parser clauses (C05: every xs:dateTime and xs:duration
    attribute is lexically valid; C08: an explicit start names the instant it was given as): run this
    property's rules on the same tree and report their unlisted findings under the other property's rule id"""
    from ..core import load_known, match_known
    sub = Report('C19', rep.repo, 'quick')
    fns = {'R19.1': r19_1, 'R19.2': r19_2, 'R19.3': r19_3, 'R19.4': r19_4, 'R19.5': r19_5, 'R19.6': r19_6, 'R19.7': r19_7}
    for r_ in rules:
        fns[r_](sub)                 # each rule function registers its own rule; only the lifted ones run
    known, _ = load_known('C19')
    hits = [f for f in sub.findings if f.rule in rules and match_known(f, known) is None]
    n_inst = sum(sub.rules[r].instances for r in rules if r in sub.rules)
    if not hits:
        rep.ok(rid, 'dashlive/utils/date_time.py', what, f'{", ".join(rules)} of C19 hold ({n_inst} instance(s))')
    for f in hits:
        import types
        rep.fail(rid, f.construct, f'{f.rule}: {f.key}', f.message, types.SimpleNamespace(lineno=f.line), file=f.file)


def analyse(rep: Report) -> None:
    rep.explanation = (
        'Interval abstract interpretation (zone domain, path-sensitive on if tests) of '
        'date_time.toIsoDuration; def-use lint of from_isodatetime; regex-AST check of '
        'to_iso_datetime; resolution of the Jinja filters. Decides the rounding/carry, '
        'truncation, offset-preservation and filter-identity clauses of C19; the numeric '
        'round trip as a whole and the tick conversions are not decided.')
    r19_1(rep)
    r19_2(rep)
    r19_3(rep)
    r19_4(rep)
    r19_5(rep)
    r19_7(rep)
    r19_6(rep)

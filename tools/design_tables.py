#!/venv/bin/python
"""regenerate the generated tables of DESIGN.md (between <!-- gen:NAME --> markers) from
known_findings.json, seeded/*/meta.json and the /repo git log"""
import json, pathlib, re, subprocess
V = pathlib.Path('/verif')
k = json.loads((V / 'known_findings.json').read_text())

def esc(t): return t.replace('|', '\\|').replace('\n', ' ')

fixes = subprocess.run(['git', '-C', '/repo', 'log', '--reverse', '--format=%h %s', '--grep=^fix:'],
                       capture_output=True, text=True).stdout.strip().splitlines()
by_commit = {}
for f in k['fixed']:
    by_commit.setdefault(f.get('commit', '?'), []).append(f)
t_fix = ['| commit | subject | property / rule that reports it if it returns |', '|---|---|---|']
for line in fixes:
    h, subj = line.split(' ', 1)
    rules = sorted({f"{f['property']} {f['rule']}" for f in by_commit.get(h, [])})
    t_fix.append(f'| {h} | {esc(subj)} | {", ".join(rules) or "-"} |')

t_known = ['| property | rule | construct [key] | what fails |', '|---|---|---|---|']
for f in sorted(k['known'], key=lambda f: (f['property'], f['rule'], f['construct'])):
    t_known.append(f"| {f['property']} | {f['rule']} | `{esc(f['construct'].split('/')[-1])}` [{esc(f['key'])[:60]}] | {esc(f['what'])[:260]} |")

t_seed = ['| seeded change | property | what it needs to manifest | reported by |', '|---|---|---|---|']
for d in sorted((V / 'seeded').iterdir()):
    m = json.loads((d / 'meta.json').read_text())
    t_seed.append(f"| `{d.name}` | {m['property']} | {esc(m['needs_to_manifest'])[:200]} | {esc(m['detected_by'])[:330]} |")

tables = {'fixes': '\n'.join(t_fix), 'known': '\n'.join(t_known), 'seeds': '\n'.join(t_seed)}
p = V / 'DESIGN.md'
s = p.read_text()
for name, body in tables.items():
    s = re.sub(rf'(<!-- gen:{name} -->\n).*?(<!-- /gen:{name} -->)', lambda m: m.group(1) + body + '\n' + m.group(2), s, flags=re.S)
p.write_text(s)
print({n: len(b.splitlines()) - 2 for n, b in tables.items()})

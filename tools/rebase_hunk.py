#!/usr/bin/env python3
"""tools/rebase_hunk.py <diff> : rewrite hunk bodies with the substitutions below (a later `fix:` commit
changed context lines) and recount the @@ headers.  Substitutions are (old line, [new lines]) on the
text after the +/-/space marker; the marker is kept."""
import re
import sys

SUBS = [
    # fix a0e4811: static timeline bound
    ('            end = ref_duration_tc', ['            # a static manifest lists each stored segment exactly once',
                                            '            end = self.mediaDuration']),
]
ADDED_SUBS = [
    ('length=ref_duration_tc)', 'length=self.mediaDuration)'),
    ('end=ref_duration_tc)', 'end=self.mediaDuration)'),
]
path = sys.argv[1]
out = []
hunk = None


def flush():
    global hunk
    if hunk is None:
        return
    head, body = hunk
    m = re.match(r'@@ -(\d+)(?:,(\d+))? \+(\d+)(?:,(\d+))? @@(.*)', head)
    old = sum(1 for l in body if l[:1] in ' -')
    new = sum(1 for l in body if l[:1] in ' +')
    out.append(f'@@ -{m.group(1)},{old} +{m.group(3)},{new} @@{m.group(5)}\n')
    out.extend(body)
    hunk = None


for ln in open(path):
    if ln.startswith('@@'):
        flush()
        hunk = (ln, [])
    elif hunk is not None and ln[:1] in ' -+' and not ln.startswith(('--- ', '+++ ')):
        mark, text = ln[0], ln[1:].rstrip('\n')
        done = False
        if mark in ' -':
            for o, ns in SUBS:
                if text == o:
                    hunk[1].extend(mark + n + '\n' for n in ns)
                    done = True
        else:
            for o, n in ADDED_SUBS:
                if o in text:
                    hunk[1].append(mark + text.replace(o, n) + '\n')
                    done = True
        if not done:
            hunk[1].append(ln)
    else:
        flush()
        out.append(ln)
flush()
open(path, 'w').write(''.join(out))

#!/bin/sh
# usage: tools/try_ref.sh <name> <n> <PROP>...   apply refactor<n>.diff of /tmp/wt-out/<name> in a scratch worktree and run the given checks
NAME=$1; N=$2; shift 2
WT=/tmp/ev/try-$NAME-$N-$$; mkdir -p /tmp/ev
git -C /repo worktree add -q --detach $WT HEAD || exit 2
if (cd $WT && git apply /tmp/wt-out/$NAME/refactor$N.diff); then
  for p in "$@"; do
    SA_NO_EVIDENCE=1 DASHLIVE_REPO=$WT /venv/bin/python -B -m sa.check $p --tier quick 2>&1 | grep -E "VIOLATION|^  R[0-9]|ANALYSIS-ERROR|^OK|unconfirmed" | cut -c1-${COLS:-330}
  done
else echo "PATCH DOES NOT APPLY"; fi
git -C /repo worktree remove --force $WT

"""C12 - multi-period presentations (access and error discipline).

R12.1  every verb method of a route whose template has <mps_name> and <int:ppk>
       tests the period's ownership (period.parent_pk != current_mps.pk -> 404)
       before any other use of the period (must-fact path rule).
R12.2  `Segment beyond end of media` is covered by the caller's 404 mapping.
R12.3  every implementation of calculate_media_segment_index returns a
       non-None number where the caller asserts one.
R12.4  VOD period starts are the running sum of the durations.
"""
from __future__ import annotations

import ast
import re

from ..core import (AnalysisError, Report, call_name, enclosing_function, find_class, find_func, need,
                    norm, short)
from ..escape import Escapes
from ..flow import Flow, MustFacts
from ..index import CallGraph, Index, read_routes, verb_methods

MR = 'dashlive/server/requesthandler/media_requests.py'
MC = 'dashlive/server/requesthandler/manifest_context.py'


def r12_1(rep: Report, idx: Index) -> None:
    rid = 'R12.1'
    n = 0
    seen = set()
    for r in read_routes(idx):
        if r.cls is None or '<mps_name>' not in r.template or '<int:ppk>' not in r.template:
            continue
        if r.cls.name == 'NotFound':
            continue
        for verb, m in verb_methods(idx, r.cls).items():
            if m.qual in seen:
                continue
            seen.add(m.qual)
            n += 1
            construct = f'{m.rel}::{r.cls.name}.{verb}'
            # the variable holding the period: Period.get(pk=ppk)
            pv = None
            for a in ast.walk(m.node):
                if isinstance(a, ast.Assign) and isinstance(a.value, ast.Call) \
                        and (call_name(a.value) or '').endswith('Period.get'):
                    pv = norm(a.targets[0])
            if pv is None:
                rep.fail(rid, construct, 'ownership test',
                         'the handler never loads the Period named in the URL', m.node)
                continue

            # every use of the loaded Period lies on paths that imply it exists and belongs to the
            # multi-period stream of the URL - whatever the test looks like (early return, helper that
            # returns None, De Morgan form)
            from ..pathcond import PathCond, entails as pc_entails, f_and, f_not, show as pc_show
            from ..flow import Disjunctive
            pcd = PathCond()
            goal = f_and(f_not(('atom', f'{pv} is None')), ('atom', f'{pv}.parent_pk == current_mps.pk'))
            early: list = []
            uses = [0]

            def on_stmt(st, states, _pv=pv):
                if isinstance(st, (ast.If, ast.While, ast.For, ast.With, ast.Try)):
                    roots = [st.test] if isinstance(st, (ast.If, ast.While)) else []
                else:
                    roots = [st]
                for root in roots:
                    for x in ast.walk(root):
                        if isinstance(x, ast.Attribute) and isinstance(x.value, ast.Name) and x.attr != 'parent_pk':
                            for state in states:
                                if pcd.resolve(state, x.value.id) == _pv:
                                    uses[0] += 1
                                    if pc_entails(state[0], goal) is not True:
                                        early.append((st, state))
            Flow(Disjunctive(pcd, cap=512), on_stmt=on_stmt).run(m.node, [PathCond.initial()])
            if uses[0] == 0:
                rep.fail(rid, construct, 'ownership test',
                         'the handler loads the Period named in the URL but never uses it', m.node)
            elif not early:
                rep.ok(rid, construct, 'ownership test', f'{uses[0]} use(s) of the period, all owned')
            else:
                rep.fail(rid, construct, 'ownership test',
                         f'`{short(early[0][0], 60)}` uses the period on a path that does not imply '
                         f'`{pv} is not None and {pv}.parent_pk == current_mps.pk` (path condition: '
                         f'{pc_show(early[0][1][0])[:120]}): a period of another multi-period stream is served '
                         'under this name', early[0][0])
    if n < 2:
        raise AnalysisError(f'only {n} <mps_name>/<int:ppk> handlers found')


def r12_2_3(rep: Report, idx: Index, cg: CallGraph) -> None:
    tree = rep.repo.tree(MR)
    base = need(find_class(tree, 'MediaRequestBase'), 'MediaRequestBase')
    gen = need(find_func(base, 'generate_media_segment'), 'generate_media_segment')
    esc = Escapes(idx, cg)
    f = idx.functions['dashlive.server.requesthandler.media_requests.MediaRequestBase.generate_media_segment']
    calls = [n for n in ast.walk(gen) if isinstance(n, ast.Call)
             and call_name(n) == 'self.calculate_media_segment_index']
    if len(calls) != 1:
        raise AnalysisError('generate_media_segment: calculate_media_segment_index call not found')
    h = esc.caught_at(f, calls[0], 'ValueError')
    c = f'{MR}::MediaRequestBase.generate_media_segment'
    if h is not None and any('404' in norm(r) for r in ast.walk(h) if isinstance(r, ast.Return)):
        rep.ok('R12.2', c, 'ValueError -> 404')
    else:
        rep.fail('R12.2', c, 'ValueError -> 404',
                 'ValueError from calculate_media_segment_index is not mapped to 404', calls[0])
    # the beyond-the-end signal exists and is a ValueError
    mps = need(find_class(tree, 'ServeMpsMedia'), 'ServeMpsMedia')
    cm = need(find_func(mps, 'calculate_media_segment_index'), 'ServeMpsMedia.calculate_media_segment_index')
    c2 = f'{MR}::ServeMpsMedia.calculate_media_segment_index'
    # zone proof: on every normal return for a $Number$ request the index into the stored file is at
    # most num_media_segments (whatever form the refusal takes), and a path raises ValueError
    from ..absint import Zone, ZoneDomain, proves_le
    from ..flow import Disjunctive, each_exit
    params = [a_.arg for a_ in cm.args.args]
    num_param = next((p_ for p_ in params if 'num' in p_), None)
    rep_param = next((p_ for p_ in params if p_.startswith('rep')), 'representation')
    zd = ZoneDomain(attr_roots=('self', rep_param))
    verdicts: list[tuple[bool, ast.AST, str]] = []

    def on_exit(kind, st, z):
        if kind != 'return' or st.value is None:
            return
        v = st.value
        elts = v.elts if isinstance(v, ast.Tuple) else (v.args if isinstance(v, ast.Call) else [])
        if len(elts) != 3 or num_param is None:
            return
        if f'none:{num_param}' in z.facts:
            return                       # $Time$ request: the lookup itself stays inside the file
        ok_ = proves_le(zd, z, elts[0], ast.parse(f'{rep_param}.num_media_segments', mode='eval').body)
        verdicts.append((ok_, st, z.describe([norm(elts[0]), f'{rep_param}.num_media_segments'])))
    z0 = Zone()
    Flow(Disjunctive(zd, cap=256), on_exit=each_exit(on_exit)).run(cm, [z0])
    raises_ve = any(isinstance(n, ast.Raise) and n.exc is not None and 'ValueError' in norm(n.exc) for n in ast.walk(cm))
    if not verdicts:
        raise AnalysisError('ServeMpsMedia.calculate_media_segment_index: no return for a $Number$ request')
    badv = [v_ for v_ in verdicts if not v_[0]]
    if not badv and raises_ve:
        rep.ok('R12.2', c2, 'beyond the end raises ValueError',
               f'{len(verdicts)} return path(s) imply index <= num_media_segments')
    else:
        rep.fail('R12.2', c2, 'beyond the end raises ValueError',
                 'a segment number past the stored media is not refused with ValueError'
                 + (f' (a $Number$ return does not imply index <= num_media_segments; known: {badv[0][2][:120]})'
                    if badv else ' (no ValueError is raised)'), badv[0][1] if badv else cm)
    # R12.3: nullability of the third component
    asserts_sn = any(isinstance(n, ast.Assert) and re.fullmatch(r'\w+ is not None', norm(n.test))
                     and norm(n.test).split()[0] in norm(calls[0]._parent.targets[0]) for n in ast.walk(gen)
                     if hasattr(calls[0], '_parent') and isinstance(calls[0]._parent, ast.Assign))
    for cname in ('LiveMedia', 'ServeMpsMedia'):
        cls = need(find_class(tree, cname), cname)
        fn = need(find_func(cls, 'calculate_media_segment_index'), f'{cname}.calculate_media_segment_index')
        construct = f'{MR}::{cname}.calculate_media_segment_index'
        params = {a.arg: (norm(a.annotation) if a.annotation is not None else '') for a in fn.args.args}
        for r in [n for n in ast.walk(fn) if isinstance(n, ast.Return) and n.value is not None]:
            v = r.value
            elts = v.elts if isinstance(v, ast.Tuple) else (v.args if isinstance(v, ast.Call) else [])
            if len(elts) != 3:
                continue
            third = elts[2]
            key = f'third component `{norm(third)}`'
            if isinstance(third, ast.Name) and third.id in params and 'None' in params[third.id]:
                reassigned = any(
                    isinstance(a, (ast.Assign, ast.AugAssign))
                    and any(isinstance(t, ast.Name) and t.id == third.id or (
                        isinstance(t, ast.Tuple) and any(isinstance(e, ast.Name) and e.id == third.id
                                                          for e in t.elts))
                            for t in (a.targets if isinstance(a, ast.Assign) else [a.target]))
                    for a in ast.walk(fn))
                if reassigned:
                    rep.ok('R12.3', construct, key, 'reassigned from the computed number')
                else:
                    rep.fail('R12.3', construct, key,
                             f'returns the parameter `{third.id}` ({params[third.id]}) unchanged: for a '
                             '$Time$ request it is None and the caller asserts `sn is not None` inside '
                             '`except ValueError` -> AssertionError -> 500', r)
            else:
                rep.ok('R12.3', construct, key)


class _Unknown(Exception):
    pass


def _pass_counter_by_evaluation(fn, loop, id_stmt, suffix, idx_names, L0, single_def):
    """The slice of the listing loop that computes the index into the stored periods and the id suffix uses
    nothing but integer arithmetic over its own locals, constants and len(periods).  It is evaluated here (by
    this module's own evaluator over the syntax tree - no repository code runs) for n = 1..6 stored periods
    and 3n+2 iterations: the k-th listed Period must be stored period k mod n with suffix L0 + k div n.
    n = 1 is the case that separates `index == 0` / `index <= previous` from `index < previous`."""
    def ev(e, env, n):
        if isinstance(e, ast.Constant) and isinstance(e.value, (int, bool)):
            return int(e.value)
        if isinstance(e, ast.Name):
            if e.id in env:
                return env[e.id]
            raise _Unknown(e.id)
        if isinstance(e, ast.Call):
            cn = call_name(e)
            if cn == 'len' and len(e.args) == 1:
                return n
            if cn == 'int' and len(e.args) == 1:
                return int(ev(e.args[0], env, n))
            if cn == 'divmod' and len(e.args) == 2:
                return divmod(ev(e.args[0], env, n), ev(e.args[1], env, n))
            if cn in ('min', 'max') and e.args:
                return (min if cn == 'min' else max)(ev(a, env, n) for a in e.args)
            raise _Unknown(norm(e))
        if isinstance(e, ast.BinOp):
            l_, r_ = ev(e.left, env, n), ev(e.right, env, n)
            ops = {ast.Add: lambda a, b: a + b, ast.Sub: lambda a, b: a - b, ast.Mult: lambda a, b: a * b,
                   ast.FloorDiv: lambda a, b: a // b, ast.Mod: lambda a, b: a % b}
            if type(e.op) in ops:
                return ops[type(e.op)](l_, r_)
            raise _Unknown(norm(e))
        if isinstance(e, ast.UnaryOp):
            v = ev(e.operand, env, n)
            return (not v) if isinstance(e.op, ast.Not) else (-v if isinstance(e.op, ast.USub) else v)
        if isinstance(e, ast.BoolOp):
            vals = [ev(v, env, n) for v in e.values]
            return all(vals) if isinstance(e.op, ast.And) else any(vals)
        if isinstance(e, ast.Compare):
            left = ev(e.left, env, n)
            for op, c_ in zip(e.ops, e.comparators):
                right = ev(c_, env, n)
                ok = {ast.Eq: left == right, ast.NotEq: left != right, ast.Lt: left < right, ast.LtE: left <= right,
                      ast.Gt: left > right, ast.GtE: left >= right}.get(type(op))
                if ok is None:
                    raise _Unknown(norm(e))
                if not ok:
                    return False
                left = right
            return True
        if isinstance(e, ast.IfExp):
            return ev(e.body, env, n) if ev(e.test, env, n) else ev(e.orelse, env, n)
        raise _Unknown(norm(e))

    # names of the slice: the index, the suffix and everything they are computed from inside the loop
    want = set(idx_names) | {x.id for x in ast.walk(suffix) if isinstance(x, ast.Name)}
    for _ in range(4):
        for st in ast.walk(loop):
            tg = st.targets if isinstance(st, ast.Assign) else ([st.target] if isinstance(st, (ast.AnnAssign, ast.AugAssign)) else [])
            names = {x.id for t in tg for x in ast.walk(t) if isinstance(x, ast.Name) and isinstance(t, (ast.Name, ast.Tuple))}
            if names & want and getattr(st, 'value', None) is not None:
                want |= {x.id for x in ast.walk(st.value) if isinstance(x, ast.Name)} - {'len', 'int', 'divmod', 'min', 'max'}
                want |= names
        for st in ast.walk(loop):
            if isinstance(st, ast.If) and any(
                    isinstance(y, ast.Name) and y.id in want
                    for x in st.body + st.orelse for z in ast.walk(x)
                    if isinstance(z, (ast.Assign, ast.AnnAssign, ast.AugAssign))
                    for t in (z.targets if isinstance(z, ast.Assign) else [z.target]) for y in ast.walk(t)):
                want |= {x.id for x in ast.walk(st.test) if isinstance(x, ast.Name)} - {'len', 'int', 'divmod', 'min', 'max'}
    lists = {norm(x.value) for x in ast.walk(loop) if isinstance(x, ast.Subscript) and isinstance(x.slice, ast.Name)
             and x.slice.id in idx_names}
    want -= lists

    def assigns_slice(stmts) -> bool:
        for st in stmts:
            for x in ast.walk(st):
                tg = x.targets if isinstance(x, ast.Assign) else ([x.target] if isinstance(x, (ast.AnnAssign, ast.AugAssign)) else [])
                if any(isinstance(y, ast.Name) and y.id in want for t in tg for y in ast.walk(t)):
                    return True
        return False

    class _Stop(Exception):
        pass

    def run(stmts, env, n, rec):
        for st in stmts:
            if isinstance(st, ast.If):
                if not assigns_slice(st.body) and not assigns_slice(st.orelse):
                    # the branch does not touch the slice; still note a use of index / suffix inside it
                    for sub in st.body + st.orelse:
                        note(sub, env, n, rec)
                    continue
                run(st.body if ev(st.test, env, n) else st.orelse, env, n, rec)
                continue
            if isinstance(st, (ast.With, ast.Try)):
                run(st.body, env, n, rec)
                continue
            if isinstance(st, (ast.For, ast.While)):
                if assigns_slice([st]):
                    raise _Unknown('nested loop over the slice')
                continue
            if isinstance(st, (ast.Break, ast.Continue, ast.Return)) :
                raise _Stop()
            note(st, env, n, rec)
            tgt = val = None
            if isinstance(st, ast.Assign) and len(st.targets) == 1:
                tgt, val = st.targets[0], st.value
            elif isinstance(st, ast.AnnAssign) and st.value is not None:
                tgt, val = st.target, st.value
            elif isinstance(st, ast.AugAssign):
                tgt, val = st.target, ast.BinOp(left=st.target, op=st.op, right=st.value)
            if isinstance(tgt, ast.Name) and tgt.id in want:
                env[tgt.id] = ev(val, env, n)
            elif isinstance(tgt, ast.Tuple) and all(isinstance(x, ast.Name) for x in tgt.elts) \
                    and any(x.id in want for x in tgt.elts):
                vals = ev(val, env, n) if isinstance(val, ast.Call) else tuple(ev(x, env, n) for x in val.elts)
                for x, v in zip(tgt.elts, vals):
                    env[x.id] = v

    def note(st, env, n, rec):
        if st is id_stmt:
            rec['suffix'] = ev(suffix, env, n)
        for x in ast.walk(st):
            if isinstance(x, ast.Subscript) and isinstance(x.slice, ast.Name) and x.slice.id in idx_names \
                    and isinstance(x.ctx, ast.Load) and 'index' not in rec:
                rec['index'] = ev(x.slice, env, n)
    try:
        for n in range(1, 7):
            env = {L0: 0}
            for nm in sorted(want - {L0}):
                d = single_def(nm)
                if d is not None:
                    try:
                        env[nm] = ev(d, env, n)
                    except _Unknown:
                        pass
            for k in range(3 * n + 2):
                rec: dict = {}
                try:
                    run(loop.body, env, n, rec)
                except _Stop:
                    return False, 'the listing loop leaves an iteration early (break / continue) before the counters are advanced'
                if rec.get('index') != k % n or rec.get('suffix') != k // n:
                    return False, (f'with {n} stored period(s) the {k + 1}. listed Period is stored period {rec.get("index")} with id '
                                   f'suffix L0+{rec.get("suffix")}; it has to be stored period {k % n} with suffix L0+{k // n} '
                                   '(evaluation of the index / counter slice of the loop)')
        return True, ''
    except _Unknown as err:
        return False, f'the index / pass counter arithmetic of the loop is not integer arithmetic over its own locals (`{err}`): unrecognised'
    except ZeroDivisionError:
        return False, 'the index arithmetic divides by zero'


def r12_4(rep: Report) -> None:
    rid = 'R12.4'
    tree = rep.repo.tree(MC)
    cls = need(find_class(tree, 'ManifestContext'), 'ManifestContext')
    for fname in ('create_all_vod_periods', 'create_all_live_periods'):
        fn = need(find_func(cls, fname), fname)
        c = f'{MC}::ManifestContext.{fname}'
        loops = [n for n in ast.walk(fn) if isinstance(n, (ast.For, ast.While))]
        if not loops:
            raise AnalysisError(f'{fname}: no loop')
        loop = loops[0]
        # linear evaluation of one iteration: the Period takes the running start S0 and the running start
        # ends the iteration as S0 + that Period's duration (on every path through the body)
        setters = [n for n in ast.walk(loop) if isinstance(n, ast.Assign) and isinstance(n.targets[0], ast.Attribute)
                   and n.targets[0].attr == 'start' and isinstance(n.value, ast.Name)]
        if not setters:
            rep.fail(rid, c, 'start is the running sum of durations',
                     'no Period in the loop is given the running start (`<period>.start = <running start>`)', loop)
            continue
        S = setters[0].value.id
        pvar = norm(setters[0].targets[0].value)
        aliases = {pvar}
        for n in ast.walk(loop):
            if isinstance(n, ast.Assign) and isinstance(n.value, ast.Name) and n.value.id in aliases \
                    and isinstance(n.targets[0], ast.Name):
                aliases.add(n.targets[0].id)
        problems: list[str] = []

        def lin(e, env):
            if isinstance(e, ast.Name):
                return dict(env[e.id]) if e.id in env and env[e.id] is not None else ({e.id: 1} if e.id not in env else None)
            if isinstance(e, ast.Attribute) and e.attr == 'duration' and norm(e.value) in aliases:
                return {'D': 1}
            if isinstance(e, ast.BinOp) and isinstance(e.op, (ast.Add, ast.Sub)):
                l_, r_ = lin(e.left, env), lin(e.right, env)
                if l_ is None or r_ is None:
                    return None
                sg = 1 if isinstance(e.op, ast.Add) else -1
                out = dict(l_)
                for k_, v_ in r_.items():
                    out[k_] = out.get(k_, 0) + sg * v_
                return {k_: v_ for k_, v_ in out.items() if v_}
            return None

        def run(stmts, env) -> list[dict]:
            envs = [env]
            for st in stmts:
                nxt = []
                for e_ in envs:
                    if isinstance(st, ast.If):
                        nxt += run(st.body, dict(e_)) + run(st.orelse, dict(e_))
                        continue
                    if isinstance(st, (ast.With, ast.Try)):
                        nxt += run(st.body, dict(e_))
                        continue
                    e_ = dict(e_)
                    if st is setters[0] and e_.get(S) != {'S0': 1}:
                        problems.append(f'`{norm(st)}` assigns the running start after it was advanced ({e_.get(S)})')
                    tgt = val = None
                    if isinstance(st, ast.Assign) and len(st.targets) == 1 and isinstance(st.targets[0], ast.Name):
                        tgt, val = st.targets[0].id, st.value
                    elif isinstance(st, ast.AnnAssign) and isinstance(st.target, ast.Name) and st.value is not None:
                        tgt, val = st.target.id, st.value
                    elif isinstance(st, ast.AugAssign) and isinstance(st.target, ast.Name):
                        tgt = st.target.id
                        val = ast.BinOp(left=ast.Name(id=tgt, ctx=ast.Load()), op=st.op, right=st.value)
                    if tgt is not None:
                        e_[tgt] = lin(val, e_)
                    nxt.append(e_)
                envs = nxt
            return envs
        finals = run(loop.body, {S: {'S0': 1}})
        if not problems and finals and all(f_.get(S) == {'S0': 1, 'D': 1} for f_ in finals):
            rep.ok(rid, c, 'start is the running sum of durations', f'{S}: S0 -> S0 + {pvar}.duration')
        else:
            got = sorted({str(f_.get(S)) for f_ in finals})
            rep.fail(rid, c, 'start is the running sum of durations',
                     (problems[0] if problems else
                      f'after one iteration the running start `{S}` is {got}, not S0 + {pvar}.duration') +
                     ': each Period must take the running start and the start must then advance by exactly '
                     'that Period duration', loop)
        init = [n for n in fn.body if isinstance(n, (ast.Assign, ast.AnnAssign))
                and norm(n.targets[0] if isinstance(n, ast.Assign) else n.target) == S]
        if fname == 'create_all_vod_periods':
            if init and re.search(r'timedelta\((0|seconds=0)?\)', norm(init[0].value)):
                rep.ok(rid, c, 'first period starts at 0')
            else:
                rep.fail(rid, c, 'first period starts at 0', 'running start is not initialised to 0', fn)
        else:
            # roles: D = total duration of one pass (`<mps>.total_duration()`), L0 = number of whole
            # passes before the window (`int(firstAvailableTime // D)`), idx = what selects the stored
            # period in the loop, and the id suffix
            def single_def(name: str):
                ds = [n for n in ast.walk(fn) if isinstance(n, (ast.Assign, ast.AnnAssign)) and getattr(n, 'value', None) is not None
                      and norm(n.targets[0] if isinstance(n, ast.Assign) else n.target) == name
                      and not any(x is n for x in ast.walk(loop))]
                return ds[0].value if len(ds) == 1 else None
            D = next((norm(n.targets[0] if isinstance(n, ast.Assign) else n.target) for n in fn.body
                      if isinstance(n, (ast.Assign, ast.AnnAssign)) and getattr(n, 'value', None) is not None
                      and isinstance(n.value, ast.Call) and (call_name(n.value) or '').endswith('total_duration')), None)
            L0 = None
            for n in fn.body:
                if isinstance(n, (ast.Assign, ast.AnnAssign)) and getattr(n, 'value', None) is not None:
                    v = n.value
                    from ..core import subst_locals as _sl
                    if isinstance(v, ast.Call) and call_name(v) == 'int' and v.args and isinstance(v.args[0], ast.BinOp) \
                            and isinstance(v.args[0].op, ast.FloorDiv) \
                            and 'firstAvailableTime' in norm(_sl(fn, v.args[0].left)) \
                            and D is not None and D in norm(v.args[0].right):
                        L0 = norm(n.targets[0] if isinstance(n, ast.Assign) else n.target)
            ok_init = False
            if init and D and L0:
                iv = init[-1].value
                if isinstance(iv, ast.BinOp) and isinstance(iv.op, ast.Mult) \
                        and {norm(iv.left), norm(iv.right)} == {D, L0}:
                    ok_init = True
            if ok_init:
                rep.ok(rid, c, 'first listed loop starts at loops * total duration')
            else:
                rep.fail(rid, c, 'first listed loop starts at loops * total duration',
                         'live running start is not (whole passes before the window) * (total duration of one pass)', fn)
            # every listed Period is an object made in this iteration: the Period that is given the running
            # start and the id is, on every assignment inside the loop, the result of a call (create_period /
            # a constructor), possibly through one local copy - never an object kept from an earlier pass
            stale = []
            pnames = set(aliases)
            for n in ast.walk(loop):
                tg = []
                if isinstance(n, ast.Assign):
                    tg = n.targets
                elif isinstance(n, ast.AnnAssign) and n.value is not None:
                    tg = [n.target]
                for t in tg:
                    if isinstance(t, ast.Name) and t.id in pnames:
                        v = n.value
                        fresh = isinstance(v, ast.Call) or (isinstance(v, ast.Name) and v.id in pnames)
                        if not fresh:
                            stale.append(n)
            if not stale:
                rep.ok(rid, c, 'each listed period is a new object')
            else:
                rep.fail(rid, c, 'each listed period is a new object',
                         f'`{short(stale[0], 60)}`: the Period that is given a start and an id in this iteration is an '
                         'object kept from an earlier iteration; it is already in self.periods, so the earlier '
                         'repetition is silently rewritten (duplicate ids, a start later than its successor)',
                         stale[0])
            # id suffix: constant within one pass over the stored periods, one more for the next pass
            idset = [n for n in ast.walk(loop) if isinstance(n, ast.Assign) and isinstance(n.targets[0], ast.Attribute)
                     and n.targets[0].attr == 'id' and isinstance(n.value, ast.JoinedStr)]
            suffix = None
            if idset and isinstance(idset[0].value.values[-1], ast.FormattedValue):
                suffix = idset[0].value.values[-1].value
            idx_names = {norm(n.slice) for n in ast.walk(loop) if isinstance(n, ast.Subscript)
                         and isinstance(n.slice, ast.Name) and isinstance(n.ctx, ast.Load)}
            unique = False
            why = 'no `<period>.id = f"..._{<pass number>}"` in the loop'
            if suffix is not None and L0:
                unique, why = _pass_counter_by_evaluation(fn, loop, idset[0], suffix, idx_names, L0, single_def)
            if unique:
                rep.ok(rid, c, 'period ids unique per repetition')
            else:
                rep.fail(rid, c, 'period ids unique per repetition',
                         f'live period ids are not suffixed with the loop count ({why})', fn)


def r12_5(rep: Report) -> None:
    """unit conversions between timescales multiply before they divide: the ratio of two
    timescales is never truncated on its own (44100 // 240 = 183, 200 // 240 = 0)"""
    from ..idioms import truncated_scale_ratios
    n_sites = 0
    for rel in rep.repo.py_files('dashlive'):
        if '/validator/' in rel or rel.endswith('_test.py'):
            continue
        tree = rep.repo.tree(rel)
        sites, bad = truncated_scale_ratios(tree)
        for n in sites:
            fn = enclosing_function(n)
            construct = f'{rel}::{fn.name if fn else "<module>"}'
            n_sites += 1
            if n in bad:
                rep.fail('R12.5', construct, f'ratio:{norm(n)}',
                         f'`{norm(n)}` truncates the ratio of two timescales before it is applied: the '
                         'conversion is wrong unless one timescale divides the other (audio 44100 / '
                         'video 240, text 200 / video 240)', n, file=rel)
            else:
                rep.ok('R12.5', construct, f'conversion:{norm(n)[:70]}', 'multiply, then divide')
        # augmented form  x *= a // b
        for n in ast.walk(tree):
            if isinstance(n, ast.AugAssign) and isinstance(n.op, ast.Mult) and n.value in bad:
                pass
    rep.extra['timescale_conversions'] = n_sites


class _Units:
    """dimension of a time quantity: SEC (seconds), REF (ticks of the timing reference), REP (ticks of
    the representation).  State = (frozenset of (name, unit), timescales known equal)"""

    def __init__(self, fn: ast.FunctionDef, rep_scale: str, ref_scale: str):
        self.fn = fn
        self.rep_scale = rep_scale
        self.ref_scale = ref_scale
        self.errors: list[tuple[ast.AST, str]] = []

    def unit(self, e: ast.AST, env: dict, same: bool) -> str | None:
        if isinstance(e, ast.Name):
            return env.get(e.id)
        if isinstance(e, ast.Call):
            cn = call_name(e) or ''
            if cn.endswith('total_seconds'):
                return 'SEC'
            if cn in ('int', 'float', 'round', 'math.floor', 'math.ceil', 'floor', 'abs') and e.args:
                return self.unit(e.args[0], env, same)
            return None
        if isinstance(e, ast.UnaryOp):
            return self.unit(e.operand, env, same)
        if isinstance(e, ast.BinOp):
            l, r = e.left, e.right
            if isinstance(e.op, (ast.Div, ast.FloorDiv)):
                if norm(r) == self.ref_scale and isinstance(l, ast.BinOp) and isinstance(l.op, ast.Mult):
                    for x, sc in ((l.left, l.right), (l.right, l.left)):
                        if norm(sc) == self.rep_scale:
                            u = self.unit(x, env, same)
                            if u == 'REP' and not same:
                                self.errors.append((e, 'a quantity that is already in representation ticks is '
                                                       'scaled by representation.timescale / reference timescale again'))
                                return 'MIX'
                            return 'REP' if u in ('REF', None) else u
                return self.unit(l, env, same)
            if isinstance(e.op, ast.Mult):
                for x, sc in ((l, r), (r, l)):
                    if norm(sc) == self.ref_scale and self.unit(x, env, same) == 'SEC':
                        return 'REF'
                    if norm(sc) == self.rep_scale and self.unit(x, env, same) == 'SEC':
                        return 'REP'
                return self.unit(l, env, same) or self.unit(r, env, same)
            if isinstance(e.op, (ast.Add, ast.Sub)):
                a, b = self.unit(l, env, same), self.unit(r, env, same)
                if a and b and a != b and {a, b} == {'REF', 'REP'} and not same:
                    self.errors.append((e, f'`{norm(l)[:30]}` is in {"reference" if a == "REF" else "representation"} '
                                           f'ticks and `{norm(r)[:30]}` in {"reference" if b == "REF" else "representation"} '
                                           'ticks: they are added before one of them is converted'))
                    return 'MIX'
                return a or b
        return None


def r12_6(rep: Report) -> None:
    """dimensional analysis of ServeMpsMedia.calculate_media_segment_index: the Period offset is in
    ticks of the timing reference, the requested $Time$ in ticks of the representation; the two are
    only added after the offset has been converted, and the lookup gets representation ticks"""
    rid = 'R12.6'
    rel = MR
    tree = rep.repo.tree(rel)
    cls = need(find_class(tree, 'ServeMpsMedia'), 'ServeMpsMedia')
    fn = need(find_func(cls, 'calculate_media_segment_index'), 'ServeMpsMedia.calculate_media_segment_index')
    from ..normalise import propagate_attr_aliases, set_parents
    fn = set_parents(propagate_attr_aliases(fn))         # ref_timescale = timing_ref.timescale reads as the attribute
    construct = f'{rel}::ServeMpsMedia.calculate_media_segment_index'
    params = [a.arg for a in fn.args.args]
    time_param = next((p for p in params if 'time' in p and p not in ('timing',)), None)
    rep_param = next((p for p in params if p.startswith('rep')), 'representation')
    ref_scale = None
    for n in ast.walk(fn):
        if isinstance(n, ast.Attribute) and n.attr == 'timescale' and 'ref' in norm(n.value).lower():
            ref_scale = norm(n)
    if ref_scale is None or time_param is None:
        raise AnalysisError('calculate_media_segment_index: timing reference timescale / time parameter not found')
    un = _Units(fn, f'{rep_param}.timescale', ref_scale)
    lookups: list[tuple[ast.AST, str | None, bool]] = []

    def run(stmts, env: dict, same: bool):
        for i, st in enumerate(stmts):
            if isinstance(st, ast.If):
                t = norm(st.test)
                eq = {f'{un.rep_scale} != {un.ref_scale}', f'{un.ref_scale} != {un.rep_scale}'}
                ne = {f'{un.rep_scale} == {un.ref_scale}', f'{un.ref_scale} == {un.rep_scale}'}
                rest = stmts[i + 1:]
                e1, e2 = dict(env), dict(env)
                run(st.body + rest, e1, same or t in ne)
                run(st.orelse + rest, e2, same or t in eq)
                return
            for c in ast.walk(st):
                if isinstance(c, ast.Call) and (call_name(c) or '').endswith('get_segment_index') and c.args:
                    lookups.append((c, un.unit(c.args[0], env, same), same))
            tgt = val = None
            if isinstance(st, ast.Assign) and len(st.targets) == 1 and isinstance(st.targets[0], ast.Name):
                tgt, val = st.targets[0].id, st.value
            elif isinstance(st, ast.AnnAssign) and isinstance(st.target, ast.Name) and st.value is not None:
                tgt, val = st.target.id, st.value
            elif isinstance(st, ast.AugAssign) and isinstance(st.target, ast.Name):
                tgt, val = st.target.id, ast.BinOp(left=ast.Name(id=st.target.id, ctx=ast.Load()), op=st.op,
                                                   right=st.value)
            if tgt is not None:
                env[tgt] = un.unit(val, env, same)
            if isinstance(st, (ast.Return, ast.Raise)):
                return
    run(fn.body, {time_param: 'REP'}, False)
    if not lookups:
        raise AnalysisError('calculate_media_segment_index: get_segment_index is not called')
    seen = set()
    for node, why in un.errors:
        k = norm(node)[:60]
        if k in seen:
            continue
        seen.add(k)
        rep.fail(rid, construct, f'mixed units:{k}', why + ' (wrong for every track whose timescale differs '
                 'from the timing reference: audio, text)', node)
    bad = [(c, u) for c, u, same in lookups if not (u == 'REP' or (u == 'REF' and same))]
    if not un.errors:
        rep.ok(rid, construct, 'no mixed units')
    if bad and not un.errors:
        rep.fail(rid, construct, 'lookup in representation ticks',
                 f'get_segment_index is called with a quantity in {bad[0][1] or "unknown"} units; it expects '
                 'ticks of the representation', bad[0][0])
    elif not bad:
        rep.ok(rid, construct, 'lookup in representation ticks')


def analyse(rep: Report) -> None:
    rep.explanation = (
        'Access and error discipline of the multi-period routes: ownership test dominating every '
        'use of the period (must-fact path analysis), 404 mapping of the beyond-the-end signal, '
        'nullability of the number returned to generate_media_segment, and the running-sum shape '
        'of the period start computation. Tiling in live mode, offset mapping and decode times '
        'are arithmetic and not decided.')
    rep.rule('R12.1', 'period ownership is tested before the period is used', floor=2)
    rep.rule('R12.2', 'requests beyond the end of the media are refused with 404', floor=2)
    rep.rule('R12.3', 'calculate_media_segment_index never returns None as the number', floor=2)
    rep.rule('R12.4', 'period starts accumulate the durations', floor=4)
    rep.rule('R12.6', 'Period offset and requested time are added in the same timescale', floor=1)
    rep.rule('R12.5', 'timescale conversions multiply before dividing', floor=3)
    rep.rule('R12.7', 'the nearest-start search decides with the duration of the segment it steps over', floor=1)
    idx = Index(rep.repo)
    cg = CallGraph(idx)
    r12_1(rep, idx)
    r12_2_3(rep, idx, cg)
    r12_4(rep)
    r12_5(rep)
    r12_6(rep)
    # number n is the n-th segment counting from the one whose start is nearest the Period's offset (C09's rule)
    from .c09 import nearest_search_threshold
    nearest_search_threshold(rep, 'R12.7')

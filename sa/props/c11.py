"""C11 - DRM key and licence data (structure, not cryptography).

R11.1  location gating & naming agreement (shared with C10 R10.3).
R11.2  manifest and init segment share the generator and the construction
       roles; the key-set source of the two sites is compared.
R11.3  templates emit what the context enables (cenc:pssh under .cenc, mspr:pro
       under .pro, default_KID from adp.default_kid|uuid, includes guarded by
       the system's presence).
R11.4  the ClearKey endpoint returns only keys it looked up, and the decode
       path's exceptions are covered.
R11.5  GUID byte order is the RFC 4122 bytes_le permutation (symbolic evaluation
       of the slice expressions of hex_to_le_guid).
"""
from __future__ import annotations

import ast

from ..core import (AnalysisError, Report, call_name, find_class, find_func, need, norm, short,
                    ancestors)
from ..templates import CONTENT, TemplateSet
from .c10 import guards_of, location_gating

PR = 'dashlive/drm/playready.py'
CK = 'dashlive/server/requesthandler/clearkey.py'


def r11_2(rep: Report) -> None:
    rid = 'R11.2'
    sites = []
    for rel, cname, fname in (
            ('dashlive/server/requesthandler/manifest_context.py', 'ManifestContext', 'create_period'),
            ('dashlive/server/requesthandler/media_requests.py', 'MediaRequestBase',
             'generate_init_segment')):
        tree = rep.repo.tree(rel)
        cls = need(find_class(tree, cname), cname)
        fn = need(find_func(cls, fname), fname)
        calls = [n for n in ast.walk(fn) if isinstance(n, ast.Call) and call_name(n) == 'DrmContext']
        if len(calls) != 1:
            raise AnalysisError(f'{cname}.{fname}: DrmContext construction not found')
        c = calls[0]
        keys_arg = norm(c.args[1]) if len(c.args) > 1 else '?'
        src = None
        for a in ast.walk(fn):
            if isinstance(a, ast.Assign) and norm(a.targets[0]) == keys_arg \
                    and isinstance(a.value, ast.Call) and call_name(a.value) == 'models.Key.get_kids':
                src = norm(a.value.args[0])
        kid_src = src
        # resolve a local that holds the kid set
        for a in ast.walk(fn):
            if isinstance(a, (ast.Assign, ast.AnnAssign)):
                tg = a.targets[0] if isinstance(a, ast.Assign) else a.target
                if norm(tg) == src and a.value is not None:
                    kid_src = norm(a.value)
        sites.append((f'{rel}::{cname}.{fname}', c, kid_src))
        construct = f'{rel}::{cname}.{fname}'
        if len(c.args) == 3 and norm(c.args[2]) in ('options', 'self.options'):
            rep.ok(rid, construct, 'DrmContext(stream, keys, options)')
        else:
            rep.fail(rid, construct, 'DrmContext(stream, keys, options)',
                     f'DrmContext is built with {[norm(a) for a in c.args]}', c)
    (c1, _n1, k1), (c2, _n2, k2) = sites
    scope1 = 'adaptation set' if 'adp' in (k1 or '') else k1
    scope2 = 'representation' if 'representation' in (k2 or '') else k2
    if k1 and k2 and scope1 == scope2:
        rep.ok(rid, c1, 'key-set source agrees with the init segment')
    else:
        rep.fail(rid, c1, 'key-set source',
                 f'the manifest builds its pssh/pro from `{k1}` (all key ids of the {scope1}) while '
                 f'the init segment uses `{k2}` (the {scope2} only): for an AdaptationSet whose '
                 'Representations use different keys the embedded payloads differ')


def r11_3(rep: Report) -> None:
    rid = 'R11.3'
    ts = TemplateSet(rep.repo)
    root = 'manifests/hand_made.mpd'
    ts.analyse_root(root)
    sinks = [s for s in ts.sinks if s.template.startswith('drm/')]
    if len(sinks) < 8:
        raise AnalysisError('DRM templates not reached from hand_made.mpd')
    for s in sinks:
        construct = f'templates/{s.template}'
        m = None
        import re
        m = re.match(r'DRM\.(\w+)\.(cenc|pro|moov)\(', s.expr)
        if m:
            sysname, loc = m.groups()
            want = f'DRM.{sysname}.{loc}'
            key = f'{s.expr[:40]} under {want}'
            if want in s.guards and f'adp.drm.{sysname}' in s.guards:
                elt_ok = True
                rep.ok(rid, construct, key)
            else:
                rep.fail(rid, construct, key,
                         f'`{s.expr}` is rendered under {s.guards}; it must sit under `{want}` '
                         f'(and the include under `adp.drm.{sysname}`)')
            # element name
            before = s.literal_before
            el = 'mspr:pro' if loc == 'pro' else 'cenc:pssh'
            if before.rstrip().endswith(f'<{el}>'):
                rep.ok(rid, construct, f'{loc} payload inside <{el}>')
            else:
                rep.fail(rid, construct, f'{loc} payload inside <{el}>',
                         f'`{s.expr}` is not the content of <{el}> (preceded by `{before[-30:]}`)')
            if s.filters and s.filters[-1] == 'base64':
                rep.ok(rid, construct, f'{sysname}.{loc} base64')
            else:
                rep.fail(rid, construct, f'{sysname}.{loc} base64',
                         f'payload is rendered with filters {s.filters}, not base64')
        if s.attr == 'cenc:default_KID':
            key = f'default_KID={s.expr}|{"|".join(s.filters)}'
            if s.expr == 'adp.default_kid' and s.filters == ['uuid']:
                rep.ok(rid, construct, key)
            else:
                rep.fail(rid, construct, key,
                         'cenc:default_KID is not rendered from adp.default_kid|uuid')
    # every per-system include is guarded by the presence of that system
    tmpl = ts.parse('drm/template.xml')
    from jinja2 import nodes
    from ..templates import expr_text
    n_inc = 0
    for iff in tmpl.find_all(nodes.If):
        incs = [i for i in iff.body if isinstance(i, nodes.Include)]
        for i in incs:
            name = i.template.value if isinstance(i.template, nodes.Const) else '?'
            sysname = name.split('/')[-1].split('.')[0]
            if sysname not in ('playready', 'clearkey', 'marlin'):
                continue
            n_inc += 1
            test = expr_text(iff.test)
            if test == f'adp.drm.{sysname}':
                rep.ok(rid, 'templates/drm/template.xml', f'include {sysname} under {test}')
            else:
                rep.fail(rid, 'templates/drm/template.xml', f'include {sysname}',
                         f'drm/{sysname}.xml is included under `{test}`')
    if n_inc < 3:
        raise AnalysisError('drm/template.xml: per-system includes not recognised')
    # every manifest that supports DRM includes drm/template.xml inside an AdaptationSet
    mtree = rep.repo.tree('dashlive/server/manifests.py')
    for n in ast.walk(mtree):
        if isinstance(n, ast.Dict):
            for k, v in zip(n.keys, n.values):
                if isinstance(k, ast.Constant) and str(k.value).endswith('.mpd') and isinstance(v, ast.Call):
                    feats = next((kw.value for kw in v.keywords if kw.arg == 'features'), None)
                    has = feats is not None and 'drmSelection' in norm(feats)
                    if not has:
                        continue
                    t2 = TemplateSet(rep.repo)
                    t2.analyse_root(f'manifests/{k.value}')
                    if 'drm/template.xml' in t2.reachable(f'manifests/{k.value}'):
                        rep.ok(rid, f'templates/manifests/{k.value}', 'includes drm/template.xml')
                    else:
                        rep.fail(rid, f'templates/manifests/{k.value}', 'includes drm/template.xml',
                                 'the manifest advertises drmSelection but never renders '
                                 'ContentProtection')


def r11_4(rep: Report) -> None:
    rid = 'R11.4'
    tree = rep.repo.tree(CK)
    cls = need(find_class(tree, 'ClearkeyHandler'), 'ClearkeyHandler')
    fn = need(find_func(cls, 'post'), 'ClearkeyHandler.post')
    c = f'{CK}::ClearkeyHandler.post'
    appends = [n for n in ast.walk(fn) if isinstance(n, ast.Call) and isinstance(n.func, ast.Attribute)
               and n.func.attr == 'append' and norm(n.func.value) == 'keys']
    if not appends:
        raise AnalysisError('ClearkeyHandler.post: keys.append not found')
    for a in appends:
        g = guards_of(a, fn)
        loop = [x for x in g if x.startswith('for ')]
        if loop and 'models.Key.get_kids(' in loop[-1]:
            rep.ok(rid, c, f'keys only from the lookup @{short(a, 40)}', loop[-1])
        else:
            rep.fail(rid, c, f'keys only from the lookup @{short(a, 40)} under {g}',
                     f'a key entry is appended under {g}, outside the iteration over '
                     'models.Key.get_kids(requested kids)', a)
    # item built from that key's own KID and KEY
    items = [n for n in ast.walk(fn) if isinstance(n, ast.Dict)
             and any(isinstance(k, ast.Constant) and k.value == 'kid' for k in n.keys)]
    ok = False
    for d in items:
        kv = {k.value: norm(v) for k, v in zip(d.keys, d.values) if isinstance(k, ast.Constant)}
        if kv.get('kid') == 'self.base64url_encode(key.KID.raw)' \
                and kv.get('k') == 'self.base64url_encode(key.KEY.raw)':
            ok = True
    if ok:
        rep.ok(rid, c, 'kid/k from the same stored key')
    else:
        rep.fail(rid, c, 'kid/k from the same stored key',
                 'the licence entry does not pair KID and KEY of one stored key', fn)
    # exception coverage of the decode path
    tr = [n for n in ast.walk(fn) if isinstance(n, ast.Try)
          and any('base64url_decode' in norm(b) for b in n.body)]
    if not tr:
        raise AnalysisError('ClearkeyHandler.post: decode try block not found')
    names = set()
    for h in tr[0].handlers:
        for t in (h.type.elts if isinstance(h.type, ast.Tuple) else [h.type]):
            names.add(norm(t))
    need_set = {'TypeError', 'ValueError', 'KeyError'}
    if need_set <= names or 'Exception' in names:
        rep.ok(rid, c, 'decode errors handled', str(sorted(names)))
    else:
        rep.fail(rid, c, 'decode errors handled',
                 f'handler covers {sorted(names)}; malformed ids raise {sorted(need_set - names)}', tr[0])
    # base64url: + <-> -, / <-> _, padding stripped / restored
    enc = need(find_func(cls, 'base64url_encode'), 'base64url_encode')
    dec = need(find_func(cls, 'base64url_decode'), 'base64url_decode')

    def repl(f):
        return {(n.args[0].value, n.args[1].value) for n in ast.walk(f) if isinstance(n, ast.Call)
                and isinstance(n.func, ast.Attribute) and n.func.attr == 'replace'
                and len(n.args) == 2 and all(isinstance(a, ast.Constant) for a in n.args)}
    e, d = repl(enc), repl(dec)
    if {('+', '-'), ('/', '_'), ('=', '')} <= e and {('-', '+'), ('_', '/')} <= d:
        rep.ok(rid, f'{CK}::ClearkeyHandler.base64url_encode', 'alphabet mapping is inverse')
    else:
        rep.fail(rid, f'{CK}::ClearkeyHandler.base64url_encode', 'alphabet mapping is inverse',
                 f'encode maps {sorted(e)}, decode maps {sorted(d)}', enc)
    pads = {}
    for n in ast.walk(dec):
        if isinstance(n, ast.If) and norm(n.test).startswith('padding == '):
            val = int(norm(n.test).split('== ')[1])
            add = next((norm(s.value) for s in n.body if isinstance(s, ast.AugAssign)), '')
            pads[val] = add
    if pads.get(2) == "'=='" and pads.get(3) == "'='" and 'len(txt) % 4' in norm(dec):
        rep.ok(rid, f'{CK}::ClearkeyHandler.base64url_decode', 'padding restored')
    else:
        rep.fail(rid, f'{CK}::ClearkeyHandler.base64url_decode', 'padding restored',
                 f'padding table is {pads}', dec)


def _sym_eval(e: ast.AST, env: dict) -> list:
    if isinstance(e, ast.Name):
        return list(env[e.id])
    if isinstance(e, ast.Subscript) and isinstance(e.slice, ast.Slice):
        base = _sym_eval(e.value, env)
        lo = e.slice.lower.value if e.slice.lower is not None else None
        hi = e.slice.upper.value if e.slice.upper is not None else None
        return base[lo:hi]
    if isinstance(e, ast.Call) and isinstance(e.func, ast.Attribute) and e.func.attr == 'join' \
            and isinstance(e.func.value, ast.Constant) and isinstance(e.args[0], (ast.List, ast.Tuple)):
        sep = e.func.value.value
        out: list = []
        for i, el in enumerate(e.args[0].elts):
            if i and sep:
                out.append(sep)
            out += _sym_eval(el, env)
        return out
    if isinstance(e, ast.Call) and isinstance(e.func, ast.Attribute) and e.func.attr == 'replace' \
            and len(e.args) == 2 and isinstance(e.args[0], ast.Constant) and e.args[1].value == '':
        return [x for x in _sym_eval(e.func.value, env) if x != e.args[0].value]
    raise AnalysisError(f'hex_to_le_guid: cannot evaluate `{norm(e)}` symbolically')


def r11_5(rep: Report) -> None:
    rid = 'R11.5'
    tree = rep.repo.tree(PR)
    cls = need(find_class(tree, 'PlayReady'), 'PlayReady')
    fn = need(find_func(cls, 'hex_to_le_guid'), 'hex_to_le_guid')
    c = f'{PR}::PlayReady.hex_to_le_guid'
    param = fn.args.args[1].arg
    env: dict[str, list] = {param: list(range(32))}
    result = None
    for st in fn.body:
        if isinstance(st, ast.Assign) and len(st.targets) == 1 and isinstance(st.targets[0], ast.Name):
            name = st.targets[0].id
            try:
                env[name] = _sym_eval(st.value, env)
                result = name if name == 'result' else result
            except (AnalysisError, KeyError):
                continue
    if 'result' not in env:
        raise AnalysisError('hex_to_le_guid: `result` not computed from slices')
    perm = [x for x in env['result'] if x != '-']
    want_bytes = [3, 2, 1, 0, 5, 4, 7, 6] + list(range(8, 16))
    want = [i for b in want_bytes for i in (2 * b, 2 * b + 1)]
    if perm == want:
        rep.ok(rid, c, 'bytes_le permutation', 'byte order 3 2 1 0 5 4 7 6 8..15')
    else:
        got_bytes = [perm[i] // 2 for i in range(0, len(perm), 2)] if len(perm) == 32 else perm
        rep.fail(rid, c, 'bytes_le permutation',
                 f'hex_to_le_guid produces byte order {got_bytes}; RFC 4122 bytes_le is {want_bytes}',
                 fn)
    dashes = [i for i, x in enumerate(env['result']) if x == '-']
    if dashes == [8, 13, 18, 23]:
        rep.ok(rid, c, 'canonical 8-4-4-4-12 text form')
    else:
        rep.fail(rid, c, 'canonical 8-4-4-4-12 text form', f'dash positions {dashes}', fn)
    # checksum uses the LE guid of the KID under the key, first 8 bytes
    cs = need(find_func(cls, 'generate_checksum'), 'generate_checksum')
    t = norm(cs)
    if 'PlayReady.hex_to_le_guid(keypair.KID.raw, raw=True)' in t and 'AES.MODE_ECB' in t \
            and 'keypair.KEY.raw' in t and 'msg[:8]' in t:
        rep.ok(rid, f'{PR}::PlayReady.generate_checksum', 'AES-ECB(key, kid_le)[:8]')
    else:
        rep.fail(rid, f'{PR}::PlayReady.generate_checksum', 'AES-ECB(key, kid_le)[:8]',
                 'checksum is not the first 8 bytes of AES-ECB(key, little-endian kid)', cs)


def r11_6(rep: Report) -> None:
    """PlayReady key-seed algorithm (Microsoft, "PlayReady key seed"): with T = the first 30 bytes of
    the seed and K = the key id as little-endian GUID bytes, A = SHA256(T|K), B = SHA256(T|K|T),
    C = SHA256(T|K|T|K), key[i] = A[i]^A[i+16]^B[i]^B[i+16]^C[i]^C[i+16].  Decided: the sequence of
    update() inputs of each hash object (through .copy()), the truncation, and the XOR terms."""
    from ..idioms import hash_update_sequences
    rid = 'R11.6'
    rel = 'dashlive/drm/playready.py'
    tree = rep.repo.tree(rel)
    cls = need(find_class(tree, 'PlayReady'), 'PlayReady')
    fn = need(find_func(cls, 'generate_content_key'), 'PlayReady.generate_content_key')
    construct = f'{rel}::PlayReady.generate_content_key'
    params = [a.arg for a in fn.args.args]
    if len(params) < 3:
        raise AnalysisError('generate_content_key(clz, keyId, keySeed) signature changed')
    kid, seed = params[1], params[2]
    # truncation
    trunc = None
    for n in ast.walk(fn):
        if isinstance(n, ast.Assign) and isinstance(n.value, ast.Subscript) \
                and norm(n.value.value) == seed and isinstance(n.value.slice, ast.Slice):
            sl = n.value.slice
            if sl.lower is None and isinstance(sl.upper, ast.Constant) and sl.upper.value == 30 and sl.step is None:
                trunc = norm(n.targets[0])
    if trunc is None:
        rep.fail(rid, construct, 'seed truncated to 30 bytes',
                 f'no `{seed}[:30]` truncation of the key seed is assigned', fn)
        return
    rep.ok(rid, construct, 'seed truncated to 30 bytes', f'{trunc} = {seed}[:30]')
    le = [n for n in ast.walk(fn) if isinstance(n, ast.Assign) and norm(n.targets[0]) == kid
          and isinstance(n.value, ast.Call) and (call_name(n.value) or '').endswith('hex_to_le_guid')
          and any(k.arg == 'raw' and isinstance(k.value, ast.Constant) and k.value.value is True
                  for k in n.value.keywords)]
    if le:
        rep.ok(rid, construct, 'key id hashed as little-endian GUID bytes')
    else:
        rep.fail(rid, construct, 'key id hashed as little-endian GUID bytes',
                 f'`{kid}` is no longer converted with hex_to_le_guid(raw=True) before hashing', fn)
    seqs = hash_update_sequences(fn)
    if seqs is None:
        rep.note('R11.6: hash objects are updated inside branches/loops - input sequences not decided')
        rep.ok(rid, construct, 'hash inputs', 'not decided (non straight-line)')
        return
    want = {(trunc, kid): 'A', (trunc, kid, trunc): 'B', (trunc, kid, trunc, kid): 'C'}
    # digests actually used in the XOR
    outs: dict[str, str] = {}
    for n in ast.walk(fn):
        if isinstance(n, ast.Assign) and isinstance(n.targets[0], ast.Name):
            for c in ast.walk(n.value):
                if isinstance(c, ast.Call) and (call_name(c) or '').endswith('.digest'):
                    outs[n.targets[0].id] = call_name(c)[:-7]
    xor_terms: set[tuple[str, str]] = set()
    xor_node = None
    for n in ast.walk(fn):
        if isinstance(n, ast.Assign) and isinstance(n.value, ast.BinOp) and isinstance(n.value.op, ast.BitXor):
            xor_node = n
            for t in ast.walk(n.value):
                if isinstance(t, ast.Subscript) and isinstance(t.value, ast.Name):
                    xor_terms.add((t.value.id, norm(t.slice)))
    if xor_node is None:
        rep.fail(rid, construct, 'xor fold', 'the XOR fold of the three digests is gone', fn)
        return
    roles: dict[str, str] = {}
    for outvar in sorted({v for v, _ in xor_terms}):
        h = outs.get(outvar)
        seq = tuple(seqs.get(h, ())) if h else ()
        role = want.get(seq)
        if role is None:
            rep.fail(rid, construct, f'hash inputs of {outvar}',
                     f'`{outvar}` is the digest of update({", ".join(seq) or "?"}); the key-seed '
                     f'algorithm hashes only ({trunc}|{kid}), ({trunc}|{kid}|{trunc}) and '
                     f'({trunc}|{kid}|{trunc}|{kid}) - an untruncated or re-ordered input changes every '
                     'derived key', xor_node)
        else:
            roles[outvar] = role
            rep.ok(rid, construct, f'hash inputs of {outvar}', f'SHA-{role}: ' + '|'.join(seq))
    if sorted(roles.values()) == ['A', 'B', 'C']:
        rep.ok(rid, construct, 'three distinct digests A, B, C')
    elif len(roles) == len({v for v, _ in xor_terms}):
        rep.fail(rid, construct, 'three distinct digests A, B, C',
                 f'the XOR fold combines digests {sorted(roles.values())}, not exactly A, B and C', xor_node)
    idxs = {i for _, i in xor_terms}
    lo = [i for i in idxs if '+' not in i]
    hi = [i for i in idxs if '+' in i]
    consts = {}
    for st in cls.body:
        if isinstance(st, ast.Assign) and isinstance(st.value, ast.Constant):
            consts[norm(st.targets[0])] = st.value.value
    half_ok = len(lo) == 1 and len(hi) == 1 and hi[0].startswith(lo[0] + ' + ') and \
        consts.get(hi[0].split(' + ', 1)[1].split('.')[-1], hi[0].split(' + ', 1)[1]) in (16, '16')
    per = {v: {i for vv, i in xor_terms if vv == v} for v in {v for v, _ in xor_terms}}
    if half_ok and all(len(x) == 2 for x in per.values()) and len(per) == 3:
        rep.ok(rid, construct, 'xor fold', 'each digest contributes bytes i and i+16')
    else:
        rep.fail(rid, construct, 'xor fold',
                 f'the XOR fold uses terms {sorted(xor_terms)}: each of the three digests must '
                 'contribute exactly its bytes i and i+16', xor_node)


def analyse(rep: Report) -> None:
    rep.explanation = (
        'Structural side of C11: location gating of each DRM system, agreement of the two '
        'DrmContext construction sites, template facts (Jinja AST) tying every pssh/pro payload to '
        'the flag that enables it, the ClearKey handler only echoing looked-up keys with its '
        'decode exceptions covered, and a symbolic evaluation of hex_to_le_guid proving the byte '
        'permutation equals RFC 4122 bytes_le. Key-seed derivation, checksum values and PRO '
        'parse-back are cryptographic value equalities and not decided.')
    rep.rule('R11.1', 'cenc/moov/pro generators are enabled only under the same-named DrmLocation', floor=9)
    rep.rule('R11.2', 'manifest and init segment build DRM data from the same roles and key set', floor=3)
    rep.rule('R11.3', 'templates emit pssh/pro only where the context enables them', floor=12)
    rep.rule('R11.4', 'ClearKey endpoint returns only looked-up keys; decode errors handled', floor=5)
    rep.rule('R11.5', 'GUID byte order equals RFC 4122 bytes_le', floor=3)
    rep.rule('R11.6', 'PlayReady key-seed algorithm: hash input sequences, truncation and XOR fold', floor=6)
    location_gating(rep, 'R11.1')
    r11_2(rep)
    r11_3(rep)
    r11_4(rep)
    r11_5(rep)
    r11_6(rep)

#!/bin/sh
# usage: tools/eval_seed.sh <name>   (patch.diff + demo.py in /tmp/wt-out/<name>)
# Confirms a seeded change in a fresh scratch worktree (no git stash: the stash is shared between
# worktrees), then applies it to /repo, runs every quick check and reverts /repo.
NAME=$1; OUT=/tmp/wt-out/$NAME; WT=/tmp/ev/$NAME
mkdir -p /tmp/ev
git -C /repo worktree add -q --detach $WT HEAD || exit 2
cd $WT
echo "--- demo clean"; (PYTHONPATH=$WT timeout 900 /venv/bin/python $OUT/demo.py >$OUT/eval_demo_clean.log 2>&1; echo "exit=$?")
git apply $OUT/patch.diff || { echo "PATCH DOES NOT APPLY"; cd /; git -C /repo worktree remove --force $WT; exit 3; }
git diff --stat | tail -1
echo "--- demo with patch"; (PYTHONPATH=$WT timeout 900 /venv/bin/python $OUT/demo.py >$OUT/eval_demo_patched.log 2>&1; echo "exit=$?")
echo "--- tests with patch"; /venv/bin/python -m pytest -q -p no:cacheprovider --timeout=900 --continue-on-collection-errors 2>&1 | tail -1
cd /; git -C /repo worktree remove --force $WT
echo "--- apply to /repo and run checks"
git -C /repo status --short | head -3
git -C /repo apply $OUT/patch.diff || { echo "PATCH DOES NOT APPLY TO /repo"; exit 3; }
cd /verif
for p in $(/venv/bin/python -c "import json;print(' '.join(c['property_id'] for c in json.load(open('/verif/MANIFEST.json'))['checks']))"); do
  out=$(./check $p --tier quick 2>&1); code=$?
  if [ $code -ne 0 ]; then echo "[$p exit=$code]"; echo "$out" | grep -E "VIOLATION|^  R|ANALYSIS-ERROR" | cut -c1-330 | head -8; fi
done
git -C /repo checkout -- . && git -C /repo status --short | head -3
echo "--- done"

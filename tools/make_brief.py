#!/usr/bin/env python3
"""usage: tools/make_brief.py seed|refactor <name> <PROP> [note...]
       tools/make_brief.py seedon <name> <PROP> <neutral patch>   (a seeded defect made in refactored code:
       the worktree starts with one of the stored behaviour-preserving refactorings applied, uncommitted)
Creates the scratch worktree /tmp/wt/<name> (detached at /repo HEAD), the output directory
/tmp/wt-out/<name> and the brief /tmp/wt-out/brief_<name>.txt for a fresh sub-agent.  The brief
contains the text of the property and environment facts only - nothing about the checks."""
import json
import os
import subprocess
import sys

kind, name, prop = sys.argv[1:4]
base_patch = ''
if kind == 'seedon':
    base_patch = os.path.abspath(sys.argv[4])
    note = ' '.join(sys.argv[5:])
else:
    note = ' '.join(sys.argv[4:])
P = {}
for line in open('/verif/properties.jsonl'):
    d = json.loads(line)
    P[d['id']] = d
d = P[prop]
wt, out = f'/tmp/wt/{name}', f'/tmp/wt-out/{name}'
os.makedirs('/tmp/wt', exist_ok=True)
os.makedirs(out, exist_ok=True)
if not os.path.isdir(wt):
    subprocess.check_call(['git', '-C', '/repo', 'worktree', 'add', '-q', '--detach', wt, 'HEAD'])


def prop_text() -> str:
    anc = d.get('anchors') or d.get('code_anchors') or {}
    files = ', '.join(anc.get('files', [])) if isinstance(anc, dict) else ''
    mech = (anc.get('mechanism') or anc.get('mechanisms') or []) if isinstance(anc, dict) else []

    def one(m):
        if isinstance(m, str):
            return m
        loc = m.get('where', '') or m.get('file', '')
        if m.get('lines'):
            loc += ':' + str(m['lines'])
        if m.get('symbol'):
            loc += ' ' + str(m['symbol'])
        return f"{m.get('name', m.get('what', ''))} ({loc.strip()})"
    mech_t = '; '.join(one(m) for m in mech)
    q = d.get('quantifier', {})
    return (f"PROPERTY {d['id']}: {d['title']}\n\nStatement: {d['statement']}\n\n"
            f"Quantified over: {q.get('text', '')}\n\n"
            f"Why the existing tests cannot settle it: {d.get('why_tests_cant', '')}\n\n"
            f"Code the property is anchored in:\n  files: {files}\n  mechanisms: {mech_t}\n")


HEAD = '''You are helping evaluate a verification effort for the open-source project asrashley/dash-live
(a Flask service that synthesizes live/VOD MPEG-DASH manifests and media segments from stored MP4s,
with its own ISO-BMFF parser/encoder and a DASH validator).
'''
ENV = f'''Environment facts you need:
  * Python is /venv/bin/python (3.12). The pinned test suite is run with
        cd {wt} && /venv/bin/python -m pytest -q -p no:cacheprovider --timeout=900 --continue-on-collection-errors
    In this sandbox 87 tests pass and 32 test modules fail at collection because flask_login,
    sqlalchemy_jsonfield, alembic and netifaces are NOT installed (there is no network; nothing can be
    installed). "Existing tests still pass" means: the same 87 tests pass with your change.
  * Consequently `dashlive.server.models`, every request handler module and `dashlive.server.app` cannot be
    imported. Importable pure layers: dashlive.utils.*, dashlive.mpeg.* (mp4, dash.representation, dash.timing ...),
    dashlive.scte35.*, dashlive.server.options.*, dashlive.drm.keymaterial, jinja2 (templates can be rendered
    with a hand-made context and the filters from dashlive/server/template_tags.py registered by hand).
    For code in modules that cannot be imported, a demonstration may extract the function/class source with
    `ast` and exec it with small stub objects (e.g. a stub `flask` namespace), or reason through a minimal
    re-implementation of the call path that imports the real helper functions - but it must exercise the REAL
    changed code from your worktree, not a copy.
  * Test fixtures (small MP4 files) are under {wt}/tests/fixtures.
'''
if kind == 'seedon':
    import shutil
    subprocess.check_call(['git', '-C', wt, 'checkout', '-q', '--', '.'])
    subprocess.check_call(['git', '-C', wt, 'apply', base_patch])
    shutil.copy(base_patch, f'{out}/base.diff')
    body = f'''{HEAD}
Your job: produce ONE realistic code change ("seeded defect") to dash-live that BREAKS the property
given below, while the code still compiles/imports and the existing test suite still passes, plus a
small demonstration program that FAILS with your change applied and PASSES without it.

Starting point: your worktree {wt} already contains an UNCOMMITTED, behaviour-preserving refactoring made by
a colleague (see `git -C {wt} diff`; a copy is in {out}/base.diff). Treat the refactored code as the current
state of the project. Your defect is the kind of slip that happens while (or just after) such a refactoring:
make it INSIDE OR RIGHT NEXT TO THE CODE THE REFACTORING TOUCHED (a helper it introduced, a condition it
rewrote, a value it now passes around), so that the refactoring plus your slip reads as one plausible commit.

Work ONLY inside your own git worktree: {wt}   (do not touch /repo or /verif, do not read anything under /verif).
Put your deliverables in {out}:
  - patch.diff     : output of `git -C {wt} diff` AFTER your change, i.e. the refactoring AND your slip together,
                     relative to the committed tree (do not include the demo in it)
  - slip.diff      : your change alone (e.g. `git apply -R`/interdiff is not needed: save `git diff` to a temp file
                     before and after and produce it with `diff -u`, or simply describe the exact lines in the README
                     and save the changed hunk(s) here)
  - demo.py        : the demonstration (a standalone script run as
                     `cd {wt} && PYTHONPATH={wt} /venv/bin/python {out}/demo.py`; exit code 0 = property holds, non-zero = broken).
                     It must exit 0 on the committed tree, exit 0 with only base.diff applied, and non-zero with patch.diff applied.
  - README.md      : which clause of the property the change breaks, what it needs in order to manifest
                     (the particular input / sequence / option combination / interleaving), and the exact
                     commands you ran with their observed results (demo on the committed tree, demo with base.diff,
                     demo with patch.diff, test suite with patch.diff).

What kind of change is wanted:
  * A subtle, plausible slip - NOT a change that ordinary use or the existing tests would expose at once.
  * It should need something specific to manifest: an unusual input, a particular option combination,
    a multi-step sequence, a boundary value, or two cooperating sites that each look fine alone.
  * It must change the behaviour the property describes (observable through the system's API), not just
    comments, logging or dead code. Keep it small (a few lines, at most a couple of sites).
  * Do not weaken or delete tests. Do not add new dependencies.

{ENV}
To switch states use `git -C {wt} checkout -- .` (committed tree), `git -C {wt} apply {out}/base.diff` (refactoring only)
and `git -C {wt} apply {out}/patch.diff` (refactoring + slip, on the committed tree). Do NOT commit and do NOT use `git stash`
(it is shared between worktrees).
When you are done, reply with a short summary: the file(s) and function(s) you changed, the clause broken,
and whether you verified all four runs (demo committed tree = pass, demo base only = pass, demo patched = fail,
test suite patched = 87 pass). Leave your worktree with patch.diff APPLIED.

THE PROPERTY
============
{prop_text()}
'''
elif kind == 'seed':
    body = f'''{HEAD}
Your job: produce ONE realistic code change ("seeded defect") to dash-live that BREAKS the property
given below, while the code still compiles/imports and the existing test suite still passes, plus a
small demonstration program that FAILS with your change applied and PASSES without it.

Work ONLY inside your own git worktree: {wt}   (a checkout of the repository; do not touch /repo or /verif,
do not read anything under /verif). Put your deliverables in {out}:
  - patch.diff     : output of `git -C {wt} diff` (your change, and nothing else - do not include the demo in it)
  - demo.py        : the demonstration (a standalone script run as
                     `cd {wt} && PYTHONPATH={wt} /venv/bin/python {out}/demo.py`; exit code 0 = property holds, non-zero = broken).
                     It must exit 0 on the unmodified worktree and non-zero with your patch applied.
  - README.md      : which clause of the property the change breaks, what it needs in order to manifest
                     (the particular input / sequence / option combination / interleaving), and the exact
                     commands you ran with their observed results (demo without patch, demo with patch, test suite with patch).

What kind of change is wanted:
  * A subtle, plausible bug a maintainer could introduce in a refactor or "small improvement" - NOT a
    change that ordinary use or the existing tests would expose at once.
  * It should need something specific to manifest: an unusual input, a particular option combination,
    a multi-step sequence, a boundary value, or two cooperating sites that each look fine alone.
  * It must change the behaviour the property describes (observable through the system's API), not just
    comments, logging or dead code. Keep it small (a few lines, at most a couple of sites).
  * Do not weaken or delete tests. Do not add new dependencies.

{ENV}
When you are done, reply with a short summary: the file(s) and function(s) you changed, the clause broken,
and whether you verified all three runs (demo clean = pass, demo patched = fail, test suite patched = 87 pass).
Leave your worktree with the patch APPLIED (do not commit). Do NOT use `git stash` (it is shared between worktrees): use `git apply -R patch.diff` / `git apply patch.diff` to switch between the clean and the patched tree.

THE PROPERTY
============
{prop_text()}
'''
else:
    body = f'''{HEAD}
Your job: produce THREE independent, realistic, BEHAVIOUR-PRESERVING refactorings of the code the property
below is anchored in - the kind of clean-up, restructuring or small optimisation a maintainer would merge -
such that the property still holds exactly as before. They are used to find out whether a verification tool
raises false alarms on harmless changes, so they should be non-trivial: restructure control flow, rename or
introduce local variables, extract a helper function or inline one, replace a loop by a comprehension (or the
reverse), reorder independent statements, change an idiom for an equivalent one (if/else <-> conditional
expression, min()/max() <-> comparisons, `x is None` early return <-> nested if, f-string <-> format, etc.),
move a constant, split a function. Each refactoring should touch the functions named in the property's
"mechanisms" list (at least one of them), and each must be a SEPARATE patch against the unmodified tree.

Work ONLY inside your own git worktree: {wt}   (a checkout of the repository; do not touch /repo or /verif,
do not read anything under /verif, do NOT use `git stash` - it is shared between worktrees; use
`git diff > file` and `git checkout -- .` / `git apply` instead). Put your deliverables in {out}:
  - refactor1.diff, refactor2.diff, refactor3.diff : each the output of `git -C {wt} diff` for ONE refactoring
    applied to the unmodified tree (after saving one, run `git -C {wt} checkout -- .` before starting the next)
  - README.md : for each patch two or three sentences: what was restructured and why behaviour is unchanged,
    plus the evidence you gathered (see below).

Requirements for every patch:
  * The code still compiles/imports and the pinned test suite still passes (87 tests, see below).
  * Behaviour must be IDENTICAL for all inputs, not only the tested ones. Where the changed code is importable
    write a small differential script that runs old and new code on many inputs (random and boundary) and
    compares results, and mention its outcome in the README. Where it is not importable, argue equivalence
    carefully in the README.
  * Do not change tests, do not add dependencies, do not change public function signatures used elsewhere
    unless you update every caller.

{ENV}
When you are done, reply with a short summary of the three refactorings and the evidence for each. Leave the
worktree clean (`git -C {wt} checkout -- .`).

THE PROPERTY (for orientation: which code matters and which behaviour must be preserved)
============
{prop_text()}
'''
if note:
    body += f'\n\nNOTE: {note}\n'
open(f'/tmp/wt-out/brief_{name}.txt', 'w').write(body)
print(f'/tmp/wt-out/brief_{name}.txt')

"""C11 - DRM key and licence data (structure, not cryptography).

R11.1  location gating & naming agreement (shared with C10 R10.3).
R11.2  manifest and init segment share the generator and the construction
       roles; the key-set source of the two sites is compared.
R11.3  templates emit what the context enables (cenc:pssh under .cenc, mspr:pro
       under .pro, default_KID from adp.default_kid|uuid, includes guarded by
       the system's presence).
R11.4  the ClearKey endpoint returns only keys it looked up, and the decode
       path's exceptions are covered.
R11.5  GUID byte order is the RFC 4122 bytes_le permutation (symbolic evaluation
       of the slice expressions of hex_to_le_guid).
"""
from __future__ import annotations

import ast
import re

from ..core import (AnalysisError, Report, call_name, find_class, find_func, need, norm, short,
                    ancestors)
from ..templates import CONTENT, TemplateSet
from .c10 import guards_of, location_gating

PR = 'dashlive/drm/playready.py'
CK = 'dashlive/server/requesthandler/clearkey.py'


def r11_2(rep: Report) -> None:
    rid = 'R11.2'
    sites = []
    for rel, cname, fname in (
            ('dashlive/server/requesthandler/manifest_context.py', 'ManifestContext', 'create_period'),
            ('dashlive/server/requesthandler/media_requests.py', 'MediaRequestBase',
             'generate_init_segment')):
        tree = rep.repo.tree(rel)
        cls = need(find_class(tree, cname), cname)
        fn = need(find_func(cls, fname), fname)
        calls = [n for n in ast.walk(fn) if isinstance(n, ast.Call) and call_name(n) == 'DrmContext']
        if len(calls) != 1:
            raise AnalysisError(f'{cname}.{fname}: DrmContext construction not found')
        c = calls[0]
        keys_arg = norm(c.args[1]) if len(c.args) > 1 else '?'
        src = None
        for a in ast.walk(fn):
            if isinstance(a, ast.Assign) and norm(a.targets[0]) == keys_arg \
                    and isinstance(a.value, ast.Call) and call_name(a.value) == 'models.Key.get_kids':
                src = norm(a.value.args[0])
        kid_src = src
        # resolve a local that holds the kid set
        for a in ast.walk(fn):
            if isinstance(a, (ast.Assign, ast.AnnAssign)):
                tg = a.targets[0] if isinstance(a, ast.Assign) else a.target
                if norm(tg) == src and a.value is not None:
                    kid_src = norm(a.value)
        sites.append((f'{rel}::{cname}.{fname}', c, kid_src))
        construct = f'{rel}::{cname}.{fname}'
        if len(c.args) == 3 and norm(c.args[2]) in ('options', 'self.options'):
            rep.ok(rid, construct, 'DrmContext(stream, keys, options)')
        else:
            rep.fail(rid, construct, 'DrmContext(stream, keys, options)',
                     f'DrmContext is built with {[norm(a) for a in c.args]}', c)
    (c1, _n1, k1), (c2, _n2, k2) = sites
    scope1 = 'adaptation set' if 'adp' in (k1 or '') else k1
    scope2 = 'representation' if 'representation' in (k2 or '') else k2
    if k1 and k2 and scope1 == scope2:
        rep.ok(rid, c1, 'key-set source agrees with the init segment')
    else:
        rep.fail(rid, c1, 'key-set source',
                 f'the manifest builds its pssh/pro from `{k1}` (all key ids of the {scope1}) while '
                 f'the init segment uses `{k2}` (the {scope2} only): for an AdaptationSet whose '
                 'Representations use different keys the embedded payloads differ')


def r11_3(rep: Report) -> None:
    rid = 'R11.3'
    ts = TemplateSet(rep.repo)
    root = 'manifests/hand_made.mpd'
    ts.analyse_root(root)
    sinks = [s for s in ts.sinks if s.template.startswith('drm/')]
    if len(sinks) < 8:
        raise AnalysisError('DRM templates not reached from hand_made.mpd')
    for s in sinks:
        construct = f'templates/{s.template}'
        m = None
        import re
        m = re.match(r'DRM\.(\w+)\.(cenc|pro|moov)\(', s.expr)
        if m:
            sysname, loc = m.groups()
            want = f'DRM.{sysname}.{loc}'
            key = f'{s.expr[:40]} under {want}'
            if want in s.guards and f'adp.drm.{sysname}' in s.guards:
                elt_ok = True
                rep.ok(rid, construct, key)
            else:
                rep.fail(rid, construct, key,
                         f'`{s.expr}` is rendered under {s.guards}; it must sit under `{want}` '
                         f'(and the include under `adp.drm.{sysname}`)')
            # element name
            before = s.literal_before
            el = 'mspr:pro' if loc == 'pro' else 'cenc:pssh'
            if before.rstrip().endswith(f'<{el}>'):
                rep.ok(rid, construct, f'{loc} payload inside <{el}>')
            else:
                rep.fail(rid, construct, f'{loc} payload inside <{el}>',
                         f'`{s.expr}` is not the content of <{el}> (preceded by `{before[-30:]}`)')
            if s.filters and s.filters[-1] == 'base64':
                rep.ok(rid, construct, f'{sysname}.{loc} base64')
            else:
                rep.fail(rid, construct, f'{sysname}.{loc} base64',
                         f'payload is rendered with filters {s.filters}, not base64')
        if s.attr == 'cenc:default_KID':
            key = f'default_KID={s.expr}|{"|".join(s.filters)}'
            if s.expr == 'adp.default_kid' and s.filters == ['uuid']:
                rep.ok(rid, construct, key)
            else:
                rep.fail(rid, construct, key,
                         'cenc:default_KID is not rendered from adp.default_kid|uuid')
    # every per-system include is guarded by the presence of that system
    tmpl = ts.parse('drm/template.xml')
    from jinja2 import nodes
    from ..templates import expr_text
    n_inc = 0
    for iff in tmpl.find_all(nodes.If):
        incs = [i for i in iff.body if isinstance(i, nodes.Include)]
        for i in incs:
            name = i.template.value if isinstance(i.template, nodes.Const) else '?'
            sysname = name.split('/')[-1].split('.')[0]
            if sysname not in ('playready', 'clearkey', 'marlin'):
                continue
            n_inc += 1
            test = expr_text(iff.test)
            if test == f'adp.drm.{sysname}':
                rep.ok(rid, 'templates/drm/template.xml', f'include {sysname} under {test}')
            else:
                rep.fail(rid, 'templates/drm/template.xml', f'include {sysname}',
                         f'drm/{sysname}.xml is included under `{test}`')
    if n_inc < 3:
        raise AnalysisError('drm/template.xml: per-system includes not recognised')
    # every manifest that supports DRM includes drm/template.xml inside an AdaptationSet
    mtree = rep.repo.tree('dashlive/server/manifests.py')
    for n in ast.walk(mtree):
        if isinstance(n, ast.Dict):
            for k, v in zip(n.keys, n.values):
                if isinstance(k, ast.Constant) and str(k.value).endswith('.mpd') and isinstance(v, ast.Call):
                    feats = next((kw.value for kw in v.keywords if kw.arg == 'features'), None)
                    has = feats is not None and 'drmSelection' in norm(feats)
                    if not has:
                        continue
                    t2 = TemplateSet(rep.repo)
                    t2.analyse_root(f'manifests/{k.value}')
                    if 'drm/template.xml' in t2.reachable(f'manifests/{k.value}'):
                        rep.ok(rid, f'templates/manifests/{k.value}', 'includes drm/template.xml')
                    else:
                        rep.fail(rid, f'templates/manifests/{k.value}', 'includes drm/template.xml',
                                 'the manifest advertises drmSelection but never renders '
                                 'ContentProtection')


def r11_4(rep: Report) -> None:
    rid = 'R11.4'
    tree = rep.repo.tree(CK)
    cls = need(find_class(tree, 'ClearkeyHandler'), 'ClearkeyHandler')
    fn = need(find_func(cls, 'post'), 'ClearkeyHandler.post')
    c = f'{CK}::ClearkeyHandler.post'
    # the "keys" member of the response: every element is built inside an iteration over
    # models.Key.get_kids(<requested kids>) - a loop with append or a comprehension
    from ..core import subst_locals
    sources: list[tuple[ast.AST, ast.AST, ast.AST]] = []      # (iteration target, iterable, element expr)
    outside: list[ast.AST] = []
    res_dicts = [n for n in ast.walk(fn) if isinstance(n, ast.Dict)
                 and any(isinstance(k, ast.Constant) and k.value == 'keys' for k in n.keys)]
    if not res_dicts:
        raise AnalysisError('ClearkeyHandler.post: response with a "keys" member not found')
    for d in res_dicts:
        v = next(v for k, v in zip(d.keys, d.values) if isinstance(k, ast.Constant) and k.value == 'keys')
        filled = isinstance(v, ast.Name) and any(
            isinstance(n, ast.Call) and isinstance(n.func, ast.Attribute)
            and n.func.attr in ('append', 'extend', 'insert') and norm(n.func.value) == v.id for n in ast.walk(fn))
        if not filled:
            v = subst_locals(fn, v, allow_calls=True)
        if isinstance(v, (ast.ListComp, ast.GeneratorExp)) or (
                isinstance(v, ast.Call) and call_name(v) == 'list' and v.args
                and isinstance(v.args[0], (ast.ListComp, ast.GeneratorExp))):
            comp = v if not isinstance(v, ast.Call) else v.args[0]
            if len(comp.generators) == 1:
                sources.append((comp.generators[0].target, comp.generators[0].iter, comp.elt))
            else:
                outside.append(comp)
        elif isinstance(v, ast.Name):
            apps = [n for n in ast.walk(fn) if isinstance(n, ast.Call) and isinstance(n.func, ast.Attribute)
                    and n.func.attr in ('append', 'extend', 'insert') and norm(n.func.value) == v.id]
            if not apps:
                raise AnalysisError(f'ClearkeyHandler.post: `{v.id}` is never filled')
            for ap in apps:
                loop = next((x for x in ancestors(ap) if isinstance(x, ast.For)), None)
                if loop is None or ap.func.attr != 'append':
                    outside.append(ap)
                else:
                    elt = subst_locals(loop, ap.args[0], allow_calls=True)
                    sources.append((loop.target, loop.iter, elt))
        else:
            outside.append(v)
    for tgt, it, elt in sources:
        key = f'keys only from the lookup @{short(elt, 40)}'
        if 'models.Key.get_kids(' in norm(it):
            rep.ok(rid, c, key, f'for {norm(tgt)} in {short(it, 50)}')
        else:
            rep.fail(rid, c, key,
                     f'a key entry is produced while iterating `{short(it, 60)}`, not the result of '
                     'models.Key.get_kids(requested kids)', it)
    for o in outside:
        rep.fail(rid, c, f'keys only from the lookup @{short(o, 40)}',
                 'a key entry is added outside the iteration over models.Key.get_kids(requested kids)', o)
    # item built from that key's own KID and KEY
    ok = bool(sources)
    for tgt, it, elt in sources:
        names = {x.id for x in ast.walk(tgt) if isinstance(x, ast.Name)}
        if not isinstance(elt, ast.Dict):
            ok = False
            continue
        kv = {k.value: norm(v) for k, v in zip(elt.keys, elt.values) if isinstance(k, ast.Constant)}
        m1 = re.fullmatch(r'self\.base64url_encode\((\w+)\.KID\.raw\)', kv.get('kid', ''))
        m2 = re.fullmatch(r'self\.base64url_encode\((\w+)\.KEY\.raw\)', kv.get('k', ''))
        if not (m1 and m2 and m1.group(1) == m2.group(1) and m1.group(1) in names):
            ok = False
    if ok:
        rep.ok(rid, c, 'kid/k from the same stored key')
    else:
        rep.fail(rid, c, 'kid/k from the same stored key',
                 'the licence entry does not pair KID and KEY of one stored key', fn)
    # exception coverage of the decode path
    tr = [n for n in ast.walk(fn) if isinstance(n, ast.Try)
          and any('base64url_decode' in norm(b) for b in n.body)]
    if not tr:
        raise AnalysisError('ClearkeyHandler.post: decode try block not found')
    names = set()
    for h in tr[0].handlers:
        for t in (h.type.elts if isinstance(h.type, ast.Tuple) else [h.type]):
            names.add(norm(t))
    need_set = {'TypeError', 'ValueError', 'KeyError'}
    if need_set <= names or 'Exception' in names:
        rep.ok(rid, c, 'decode errors handled', str(sorted(names)))
    else:
        rep.fail(rid, c, 'decode errors handled',
                 f'handler covers {sorted(names)}; malformed ids raise {sorted(need_set - names)}', tr[0])
    # base64url: + <-> -, / <-> _, padding stripped / restored.  Both codecs are interpreted over
    # terms: the decoder is fed texts of every length class with literal '-' and '_' in them, the
    # encoder's result is read as a chain of string operations on a base64 call.
    from ..termeval import SymStr, Term, TermEval, module_consts, class_consts
    enc = need(find_func(cls, 'base64url_encode'), 'base64url_encode')
    dec = need(find_func(cls, 'base64url_decode'), 'base64url_decode')
    consts = dict(module_consts(tree))
    consts.update(class_consts(cls))
    dp = dec.args.args[-1].arg
    cd = f'{CK}::ClearkeyHandler.base64url_decode'
    mapping_ok, padding_ok, why = True, True, ''
    for n_ in (4, 6, 7, 8, 10, 11):
        atoms = ('-', '_') + tuple((dp, i) for i in range(2, n_))
        paths = [p_ for p_ in TermEval(consts).run(dec, {dp: SymStr(atoms)}) if p_.done == 'return']
        if len(paths) != 1:
            raise AnalysisError(f'base64url_decode: {len(paths)} paths for a text of length {n_}')
        r = paths[0].result
        if not (isinstance(r, Term) and len(r.args) == 1 and isinstance(r.args[0], SymStr)
                and r.fn in ('base64.b64decode', 'base64.urlsafe_b64decode', 'base64.standard_b64decode')):
            raise AnalysisError(f'base64url_decode: result not recognised ({str(r)[:80]})')
        arg = r.args[0].atoms
        want_head = ('-', '_') if 'urlsafe' in r.fn else ('+', '/')
        if arg[:n_] != want_head + atoms[2:]:
            mapping_ok = False
            why = f'`-_` decode as `{"".join(x for x in arg[:2] if isinstance(x, str))}` before {r.fn}'
        pad = arg[n_:]
        if pad != ('=',) * (-n_ % 4):
            padding_ok = False
            why = f'a text of length {n_} is padded with {"".join(map(str, pad))!r}, not {"=" * (-n_ % 4)!r}'
    if mapping_ok:
        rep.ok(rid, cd, 'alphabet mapping is inverse')
    else:
        rep.fail(rid, cd, 'alphabet mapping is inverse', why, dec)
    if padding_ok:
        rep.ok(rid, cd, 'padding restored')
    else:
        rep.fail(rid, cd, 'padding restored', why, dec)
    ce = f'{CK}::ClearkeyHandler.base64url_encode'
    ep = enc.args.args[-1].arg
    paths = [p_ for p_ in TermEval(consts).run(enc, {}) if p_.done == 'return']
    if len(paths) != 1 or not hasattr(paths[0].result, 'text'):
        raise AnalysisError('base64url_encode: result not recognised')
    e_ast = ast.parse(paths[0].result.text, mode='eval').body
    ops: list[tuple] = []
    cur = e_ast
    def translate_pairs(arg: ast.AST) -> list[tuple] | None:
        """str.maketrans(..) of a module-level table -> the single-character replacements it makes"""
        tab = arg
        if isinstance(arg, ast.Name):
            defs = [st_.value for st_ in tree.body if isinstance(st_, ast.Assign) and len(st_.targets) == 1
                    and isinstance(st_.targets[0], ast.Name) and st_.targets[0].id == arg.id]
            if len(defs) != 1:
                return None
            tab = defs[0]
        if not (isinstance(tab, ast.Call) and call_name(tab) in ('str.maketrans', 'bytes.maketrans')):
            return None
        a_ = tab.args
        try:
            if len(a_) == 1 and isinstance(a_[0], ast.Dict):
                d_ = ast.literal_eval(a_[0])
                return [('replace', k_, '' if v_ is None else v_) for k_, v_ in d_.items()]
            if len(a_) >= 2:
                x_, y_ = ast.literal_eval(a_[0]), ast.literal_eval(a_[1])
                out_ = [('replace', k_, v_) for k_, v_ in zip(x_, y_)]
                if len(a_) == 3:
                    out_ += [('replace', k_, '') for k_ in ast.literal_eval(a_[2])]
                return out_
        except (ValueError, SyntaxError):
            return None
        return None
    while isinstance(cur, ast.Call) and isinstance(cur.func, ast.Attribute) \
            and cur.func.attr in ('replace', 'rstrip', 'strip', 'decode', 'translate'):
        if cur.func.attr == 'translate':
            tp = translate_pairs(cur.args[0]) if len(cur.args) == 1 else None
            if tp is None:
                raise AnalysisError('base64url_encode: translate() table not resolved')
            ops.extend(tp)
        else:
            ops.append((cur.func.attr,) + tuple(a_.value if isinstance(a_, ast.Constant) else norm(a_)
                                                for a_ in cur.args))
        cur = cur.func.value
    if isinstance(cur, ast.Call) and call_name(cur) == 'str' and cur.args:
        cur = cur.args[0]
    base = call_name(cur) if isinstance(cur, ast.Call) else None
    if base not in ('base64.b64encode', 'base64.urlsafe_b64encode', 'base64.standard_b64encode') \
            or norm(cur.args[0]) != ep:
        raise AnalysisError(f'base64url_encode: not a chain of text operations on base64 of `{ep}`: {norm(e_ast)[:80]}')
    reps = {(o[1], o[2]) for o in ops if o[0] == 'replace' and len(o) == 3}
    alpha = 'urlsafe' in base or {('+', '-'), ('/', '_')} <= reps
    extra = reps - {('+', '-'), ('/', '_'), ('=', '')}
    strip = ('=', '') in reps or any(o[0] in ('rstrip', 'strip') and o[1:] == ('=',) for o in ops)
    if alpha and strip and not extra:
        rep.ok(rid, ce, 'alphabet mapping is inverse', f'{base} {sorted(reps)}')
    else:
        rep.fail(rid, ce, 'alphabet mapping is inverse',
                 f'encode is {base} with {sorted(reps)} / {[o for o in ops if o[0] != "replace"]}: '
                 'base64url maps + to -, / to _ and drops the = padding', enc)


def _perm(res, name: str) -> list | None:
    """source positions of the characters of a SymStr result (hex digit index of the input)"""
    out = []
    for a_ in res.atoms:
        if a_ == '-':
            continue
        if isinstance(a_, tuple) and a_[0] == name:
            out.append(a_[1])                                   # text input: hex digit index
        elif isinstance(a_, tuple) and a_[0] == 'hex' and a_[1][0] == name:
            out.append(2 * a_[1][1] + a_[2])                    # raw input: byte -> two hex digits
        else:
            return None
    return out


def r11_5(rep: Report) -> None:
    """hex_to_le_guid interpreted over terms (sa/termeval.py): the i-th output character is a named
    input character, so the permutation is read off the result whatever the code looks like."""
    from ..termeval import SymStr, TermEval, class_consts, source
    rid = 'R11.5'
    tree = rep.repo.tree(PR)
    cls = need(find_class(tree, 'PlayReady'), 'PlayReady')
    fn = need(find_func(cls, 'hex_to_le_guid'), 'hex_to_le_guid')
    c = f'{PR}::PlayReady.hex_to_le_guid'
    params = [a_.arg for a_ in fn.args.args]
    if len(params) != 3:
        raise AnalysisError('hex_to_le_guid(clz, guid, raw) signature changed')
    gp, rp = params[1], params[2]
    want_bytes = [3, 2, 1, 0, 5, 4, 7, 6] + list(range(8, 16))
    want = [i for b_ in want_bytes for i in (2 * b_, 2 * b_ + 1)]
    dashed = list(source(gp, 32).atoms)
    for pos in (8, 13, 18, 23):
        dashed.insert(pos, '-')
    cases = [
        ('text', {gp: source(gp, 32), rp: False}, 'str'),
        ('dashed text', {gp: SymStr(tuple(dashed)), rp: False}, 'str'),
        ('raw bytes', {gp: source(gp, 16, 'bytes'), rp: True}, 'bytes'),
    ]
    for label, env, kind in cases:
        ev = TermEval.for_class(cls)
        ev.methods.pop(fn.name, None)
        paths = [p_ for p_ in ev.run(fn, dict(env)) if p_.done == 'return']
        if len(paths) != 1 or not isinstance(paths[0].result, SymStr):
            raise AnalysisError(f'hex_to_le_guid: {label} input not evaluated to one result '
                                f'({[type(p_.result).__name__ for p_ in paths]})')
        res = paths[0].result
        if kind == 'bytes':
            # raw result: bytes of the input in bytes_le order
            got = [a_[1] if isinstance(a_, tuple) and a_[0] == gp else None for a_ in res.atoms]
            if got == want_bytes and res.kind == 'bytes':
                rep.ok(rid, c, f'bytes_le permutation ({label})', 'byte order 3 2 1 0 5 4 7 6 8..15')
            else:
                rep.fail(rid, c, f'bytes_le permutation ({label})',
                         f'hex_to_le_guid(raw=True) produces byte order {got}; RFC 4122 bytes_le is {want_bytes}', fn)
            continue
        perm = _perm(res, gp)
        if perm == want:
            rep.ok(rid, c, f'bytes_le permutation ({label})', 'byte order 3 2 1 0 5 4 7 6 8..15')
        else:
            got_bytes = [perm[i] // 2 for i in range(0, len(perm), 2)] if perm and len(perm) == 32 else perm
            rep.fail(rid, c, f'bytes_le permutation ({label})',
                     f'hex_to_le_guid produces byte order {got_bytes}; RFC 4122 bytes_le is {want_bytes}', fn)
        dashes = [i for i, x in enumerate(res.atoms) if x == '-']
        if dashes == [8, 13, 18, 23]:
            rep.ok(rid, c, f'canonical 8-4-4-4-12 text form ({label})')
        else:
            rep.fail(rid, c, f'canonical 8-4-4-4-12 text form ({label})', f'dash positions {dashes}', fn)
    # checksum uses the LE guid of the KID under the key, first 8 bytes
    cs = need(find_func(cls, 'generate_checksum'), 'generate_checksum')
    ev = TermEval(class_consts(cls))
    paths = [p_ for p_ in ev.run(cs, {}) if p_.done == 'return']
    texts = {getattr(p_.result, 'text', repr(p_.result)) for p_ in paths}
    ok = bool(texts) and all(
        re.fullmatch(r'AES\.new\(keypair\.KEY\.raw, AES\.MODE_ECB\)\.encrypt\('
                     r'PlayReady\.hex_to_le_guid\(keypair\.KID\.raw, raw=True\)\)\[:8\]', t_) for t_ in texts)
    if ok:
        rep.ok(rid, f'{PR}::PlayReady.generate_checksum', 'AES-ECB(key, kid_le)[:8]')
    else:
        rep.fail(rid, f'{PR}::PlayReady.generate_checksum', 'AES-ECB(key, kid_le)[:8]',
                 f'checksum is not the first 8 bytes of AES-ECB(key, little-endian kid): {sorted(texts)}', cs)


def r11_6(rep: Report) -> None:
    """PlayReady key-seed algorithm (Microsoft, "PlayReady key seed"): with T = the first 30 bytes of
    the seed and K = the key id as little-endian GUID bytes, A = SHA256(T|K), B = SHA256(T|K|T),
    C = SHA256(T|K|T|K), key[i] = A[i]^A[i+16]^B[i]^B[i+16]^C[i]^C[i+16].  The function is
    interpreted over terms (sa/termeval.py): hash objects carry the sequence of their inputs through
    update()/copy(), digests are terms, the key is a list of XOR sets - so a running hash that is
    snapshotted, three separate hashes and a nested XOR loop all evaluate to the same value."""
    from ..termeval import ByteArray, Digest, Opaque, TermEval, Xor, class_consts
    rid = 'R11.6'
    rel = 'dashlive/drm/playready.py'
    tree = rep.repo.tree(rel)
    cls = need(find_class(tree, 'PlayReady'), 'PlayReady')
    fn = need(find_func(cls, 'generate_content_key'), 'PlayReady.generate_content_key')
    construct = f'{rel}::PlayReady.generate_content_key'
    params = [a_.arg for a_ in fn.args.args]
    if len(params) < 3:
        raise AnalysisError('generate_content_key(clz, keyId, keySeed) signature changed')
    kid, seed = params[1], params[2]
    # private helpers of the class are evaluated in place; the GUID conversion stays a named term
    ev = TermEval.for_class(cls)
    for keep in (fn.name, 'hex_to_le_guid'):
        ev.methods.pop(keep, None)
    paths = [p_ for p_ in ev.run(fn, {}) if p_.done == 'return']
    if not paths:
        raise AnalysisError('generate_content_key: no returning path evaluated')
    keysize = 16
    for n_, p_ in enumerate(paths, 1):
        res = p_.result
        tag = f' (path {n_}: {"; ".join(p_.notes)[:80]})' if len(paths) > 1 else ''
        if not (isinstance(res, list) and all(isinstance(x, Xor) for x in res)):
            rep.fail(rid, construct, 'xor fold',
                     f'the returned key is not a byte array of XOR folds (evaluates to {str(res)[:80]}){tag}', fn)
            continue
        if len(res) != keysize:
            rep.fail(rid, construct, 'xor fold', f'the key has {len(res)} bytes, not {keysize}{tag}', fn)
            continue
        digests: list[Digest] = []
        for x in res:
            for t_ in x.terms:
                if t_[0] == 'byte' and isinstance(t_[1], Digest) and t_[1] not in digests:
                    digests.append(t_[1])
        digests.sort(key=lambda d: len(d.inputs))
        # inputs: T = <seed>[:30], K = hex_to_le_guid(<kid>, raw=True)
        T = K = None
        problems = []
        for d in digests:
            for v in d.inputs:
                txt = v.text if isinstance(v, Opaque) else repr(v)
                if re.fullmatch(r'.+\[:30\]', txt) and 'hex_to_le_guid' not in txt:
                    T = T or v
                elif re.search(r'hex_to_le_guid\(.*raw=True\)$', txt):
                    K = K or v
        if T is None:
            rep.fail(rid, construct, 'seed truncated to 30 bytes',
                     f'no digest input is the key seed truncated to its first 30 bytes{tag}', fn)
        else:
            rep.ok(rid, construct, 'seed truncated to 30 bytes', f'T = {T.text}')
        if K is None:
            rep.fail(rid, construct, 'key id hashed as little-endian GUID bytes',
                     f'`{kid}` is not converted with hex_to_le_guid(raw=True) before hashing{tag}', fn)
        else:
            rep.ok(rid, construct, 'key id hashed as little-endian GUID bytes', f'K = {K.text}')
        want = {(T, K): 'A', (T, K, T): 'B', (T, K, T, K): 'C'}
        roles: dict = {}
        for d in digests:
            role = want.get(d.inputs) if T is not None and K is not None else None
            shown = '|'.join(getattr(v, 'text', repr(v)) for v in d.inputs)
            if role is None:
                rep.fail(rid, construct, f'hash inputs of digest #{digests.index(d) + 1}',
                         f'a digest of update({shown or "?"}) enters the key; the key-seed algorithm hashes only '
                         '(T|K), (T|K|T) and (T|K|T|K) with T = seed[:30], K = little-endian key id - an '
                         f'untruncated or re-ordered input changes every derived key{tag}', fn)
            else:
                roles[d] = role
                rep.ok(rid, construct, f'hash inputs of SHA-{role}', shown)
        if sorted(roles.values()) == ['A', 'B', 'C'] and len(digests) == 3:
            rep.ok(rid, construct, 'three distinct digests A, B, C')
        elif len(roles) == len(digests):
            rep.fail(rid, construct, 'three distinct digests A, B, C',
                     f'the XOR fold combines digests {sorted(roles.values())}, not exactly A, B and C{tag}', fn)
        bad_i = None
        for i, x in enumerate(res):
            exp = frozenset(('byte', d, j) for d in digests for j in (i, i + keysize))
            if x.terms != exp or len(digests) != 3:
                bad_i = (i, x)
                break
        if bad_i is None:
            rep.ok(rid, construct, 'xor fold', 'key[i] = xor of bytes i and i+16 of each digest')
        else:
            i, x = bad_i
            shown = sorted((('ABC?'[digests.index(t_[1])] if t_[0] == 'byte' and t_[1] in digests and
                             digests.index(t_[1]) < 3 else '?') + f'[{t_[2] if t_[0] == "byte" else t_[1]}]')
                           for t_ in x.terms)
            rep.fail(rid, construct, 'xor fold',
                     f'key[{i}] folds {shown}: each of the three digests must contribute exactly its bytes '
                     f'i and i+16{tag}', fn)


def r11_7(rep: Report) -> None:
    """WRMHEADER context (PlayReady.generate_wrmheader): the values rendered for the default key -
    default_kid, default_key, checksum - all come from the one key selected by `default_kid`, and each
    entry of the per-key list pairs kid and checksum of the same key.  Decided on the terms the
    function builds (sa/termeval.py): anything else - e.g. a local left over from the loop - shows
    up as a different term."""
    from ..termeval import Opaque, Path, TermEval, class_consts
    rid = 'R11.7'
    tree = rep.repo.tree(PR)
    cls = need(find_class(tree, 'PlayReady'), 'PlayReady')
    fn = need(find_func(cls, 'generate_wrmheader'), 'PlayReady.generate_wrmheader')
    c = f'{PR}::PlayReady.generate_wrmheader'
    ev = TermEval(class_consts(cls))
    seen: list[dict] = []

    def observe(call: ast.Call, env: dict) -> None:
        if (call_name(call) or '').split('.')[-1] != 'render_template':
            return
        ctx: dict = {}
        for k in call.keywords:
            if k.arg is None:
                v = ev.eval(k.value, env)
                if not isinstance(v, dict):
                    raise AnalysisError('generate_wrmheader: template context is not a dict display')
                ctx.update(v)
            else:
                ctx[k.arg] = ev.eval(k.value, env)
        seen.append(dict(ctx))
    ev.observe = observe
    ev.run(fn, {})
    ev.observe = None
    if not seen:
        raise AnalysisError('generate_wrmheader: render_template(...) not reached')

    def text(v) -> str:
        return v.text if isinstance(v, Opaque) else repr(v)
    for ctx in seen:
        if ctx.get('?unknown'):
            raise AnalysisError('generate_wrmheader: the template context is updated in a way that is not evaluated')
        ck, dk, dkey = text(ctx.get('checksum')), text(ctx.get('default_kid')), text(ctx.get('default_key'))
        m = re.fullmatch(r'self\.generate_checksum\((.+)\)', ck)
        key_term = m.group(1) if m else None
        ok = bool(m) and dkey == f'{key_term}.KEY.raw' and f'{key_term}.KID.raw' in dk \
            and re.fullmatch(r'keys\[\w+\.lower\(\)\]', key_term or '') is not None
        # the licence URL template may name the default key too: {default_kid} is filled from the same key
        la = text(ctx.get('la_url')) if 'la_url' in ctx else ''
        mla = re.search(r'\bdefault_kid=([^,()]+(?:\([^()]*\))?[^,()]*)', la)
        if mla and key_term and not mla.group(1).strip().startswith(key_term + '.KID'):
            rep.fail(rid, c, 'licence URL names the default key',
                     f'the `default_kid` field of the licence URL is filled from `{mla.group(1).strip()[:60]}`, the header\'s '
                     f'default key is `{key_term}`: with more than one key the LA_URL names a key id other than the KID '
                     'it stands beside (a loop variable that is still in scope after the loop is the last key, not the '
                     'default one)', fn)
        elif mla:
            rep.ok(rid, c, 'licence URL names the default key', f'default_kid = {mla.group(1).strip()[:50]}')
        if ok:
            rep.ok(rid, c, 'default kid / key / checksum from one key', f'key = {key_term}')
        else:
            rep.fail(rid, c, 'default kid / key / checksum from one key',
                     f'the header is rendered with checksum = {ck[:60]}, default_key = {dkey[:50]}, default_kid = '
                     f'{dk[:60]}: the three must be computed from the key selected by default_kid '
                     '(a CHECKSUM of another key beside the default KID makes the header unusable)', fn)
    # per-key entries
    loops = [n for n in ast.walk(fn) if isinstance(n, ast.For) and 'keys' in norm(n.iter)
             and isinstance(n.target, ast.Name)]
    if not loops:
        raise AnalysisError('generate_wrmheader: loop over the key set not found')
    n_items = 0
    for loop in loops:
        lists = {x.func.value.id for x in ast.walk(loop) if isinstance(x, ast.Call) and isinstance(x.func, ast.Attribute)
                 and x.func.attr == 'append' and isinstance(x.func.value, ast.Name)}
        env = {name: [] for name in lists}
        env[loop.target.id] = Opaque(loop.target.id)
        paths = TermEval(class_consts(cls))._block(loop.body, [Path(env=env)])
        for p_ in paths:
            for name in lists:
                for item in p_.env.get(name, []):
                    if not (isinstance(item, dict) and 'kid' in item and 'checksum' in item):
                        continue
                    n_items += 1
                    kid, ck = text(item['kid']), text(item['checksum'])
                    v = loop.target.id
                    if ck == f'self.generate_checksum({v})' and f'{v}.KID.raw' in kid:
                        rep.ok(rid, c, 'per-key entry pairs kid and checksum')
                    else:
                        rep.fail(rid, c, 'per-key entry pairs kid and checksum',
                                 f'a KID entry is built with kid = {kid[:60]} and checksum = {ck[:60]}: not the kid '
                                 f'and checksum of the same key `{v}`', loop)
    if not n_items:
        raise AnalysisError('generate_wrmheader: per-key entries (kid, checksum) not found')


def analyse(rep: Report) -> None:
    rep.explanation = (
        'Structural side of C11: location gating of each DRM system, agreement of the two '
        'DrmContext construction sites, template facts (Jinja AST) tying every pssh/pro payload to '
        'the flag that enables it, the ClearKey handler only echoing looked-up keys with its '
        'decode exceptions covered, and a symbolic evaluation of hex_to_le_guid proving the byte '
        'permutation equals RFC 4122 bytes_le. Key-seed derivation, checksum values and PRO '
        'parse-back are cryptographic value equalities and not decided.')
    rep.rule('R11.1', 'cenc/moov/pro generators are enabled only under the same-named DrmLocation', floor=9)
    rep.rule('R11.2', 'manifest and init segment build DRM data from the same roles and key set', floor=3)
    rep.rule('R11.3', 'templates emit pssh/pro only where the context enables them', floor=12)
    rep.rule('R11.4', 'ClearKey endpoint returns only looked-up keys; decode errors handled', floor=5)
    rep.rule('R11.5', 'GUID byte order equals RFC 4122 bytes_le', floor=3)
    rep.rule('R11.6', 'PlayReady key-seed algorithm: hash input sequences, truncation and XOR fold', floor=6)
    rep.rule('R11.7', 'WRMHEADER: default kid, key and checksum come from one key; entries pair kid and checksum', floor=2)
    rep.rule('R11.8', 'the requested systems and locations are what the drm= text says, item by item (C10 R10.5)', floor=1)
    location_gating(rep, 'R11.1')
    r11_2(rep)
    r11_3(rep)
    r11_4(rep)
    r11_5(rep)
    r11_6(rep)
    r11_7(rep)
    # "the systems and locations requested": the drm= text is taken apart item by item (C10's rule)
    from ..core import lift
    from . import c10 as _c10

    def _run(sub):
        sub.rule('R10.5', 'every listed DRM system gets its own location set', floor=0)
        _c10.r10_5(sub)
    lift(rep, 'R11.8', 'C10', _run, ('R10.5',), 'dashlive/server/options/drm_options.py::_drm_selection_from_string',
         'each listed system gets the locations written next to it')

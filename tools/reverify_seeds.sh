#!/bin/sh
# tools/reverify_seeds.sh : re-run every recorded seed's demonstration on the current /repo HEAD in scratch
# worktrees (clean must exit 0, patched must exit non-zero); prints one line per seed.
mkdir -p /tmp/ev
one() {
  n=$1; WT=/tmp/ev/rv-$n
  git -C /repo worktree add -q --detach $WT HEAD 2>/dev/null || { echo "$n WORKTREE-FAIL"; return; }
  cd $WT
  PYTHONPATH=$WT timeout 900 /venv/bin/python /verif/seeded/$n/demo.py >/dev/null 2>&1; a=$?
  if git apply /verif/seeded/$n/patch.diff 2>/dev/null; then
    PYTHONPATH=$WT timeout 900 /venv/bin/python /verif/seeded/$n/demo.py >/dev/null 2>&1; b=$?
  else b=NOAPPLY; fi
  cd /; git -C /repo worktree remove --force $WT
  if [ "$a" = 0 ] && [ "$b" != 0 ] && [ "$b" != NOAPPLY ]; then echo "$n ok"; else echo "$n PROBLEM clean=$a patched=$b"; fi
}
export -f one 2>/dev/null
ls /verif/seeded | xargs -P 8 -I{} sh -c "$(declare -f one 2>/dev/null); one {}" 

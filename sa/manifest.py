"""Generates /verif/MANIFEST.json from the tables below (python -m sa.manifest)."""
from __future__ import annotations

import importlib
import json
from pathlib import Path

VERIF = Path(__file__).resolve().parent.parent

# property -> (technique, level text, level note, design ref)
CLAIMS: dict[str, tuple[str, str, str, str]] = {
    'C18': (
        'check-site inventory with data-dependence of check arguments over the validator package',
        'Detection side only: for each corruption kind named by the property (wrong decode time, '
        'wrong sequence number, trun offset outside mdat, wrong saio offset, missing moov/ftyp, '
        'missing mandatory MPD attribute, SegmentTimeline gap, availabilityStartTime changed '
        'across refresh) there must be a call of the ValidationChecks family - of a comparison or '
        'presence kind as the row demands - whose arguments, expanded through local and self '
        'definitions and enclosing tests, read every fact a detecting check needs, attached to '
        'the element that owns the fact; the check family itself must route verdicts through '
        'check_true -> add_error; counted loops must advance by a positive step. An element\'s own checks are not switched off by state carried over a manifest refresh (R18.10). Where the expectation is an equality (decode time, sequence number, offsets, availabilityStartTime across a refresh) a detecting check is two-sided (R18.12); the decode-time comparison is bounded by the tolerance chosen where the segment was created (R18.13). Every S@t of a timeline sets the running start, tracked per element (R18.11).',
        'Not decided: absence of false positives on server output (needs the server values), '
        'sufficiency of each comparison, termination in general.',
        'DESIGN.md section 4, C18'),
    'C19': (
        'interval/zone abstract interpretation of toIsoDuration + def-use lint + regex-AST check',
        'Decides, for every input at once, the structural clauses of C19: every number placed in a '
        'bounded xs:duration field (3-digit fraction, minutes, seconds) is proven inside its range '
        'by interval analysis of the formatter on all paths (so rounding must carry); the parsed '
        'fractional second is not a truncated scaled float; only a zero offset is rewritten to Z '
        '(regex AST) and the parser rebuilds the offset from sign/hour/minute; the Jinja filters '
        'are the library functions; the fraction digits keep their place value on the way to the microsecond (no strip/pad on the left, no scaling by magnitude); a time zone is attached with replace(tzinfo=..) only to a value that has none (R19.7). A static necessary condition - not the numeric round trip.',
        'Not decided: half-millisecond accuracy of the float arithmetic itself, the tick '
        'conversions (value arithmetic). Axioms: durations are >= 0; x - floor(x) in [0,1). '
        'Trusted: CPython ast, re._parser.',
        'DESIGN.md section 4, C19'),
    'C03': (
        'binary layout extraction (reader/writer agreement) + data-dependence and path rules over the segment handler',
        'Decides the structural protocol that makes a rewritten segment point at its payload, for '
        'every stored segment and option vector: the parse and encode sides of every box the '
        'handler re-encodes (tfhd tfdt trun samples saiz saio senc/PIFF mfhd emsg sidx styp) agree '
        'field by field; the recomputed trun.data_offset / saio.offsets / tfhd.base_data_offset '
        'depend on final positions (moof.position, moof.size, mdat.header_size, senc.position) and '
        'are rewritten in place with the stream position restored; the saio rewrite can only be '
        'skipped under the `saio` bug option; nothing writes to the encoded bytes between encode() '
        'and getvalue() except the guarded corruption hook; every path of generate_media_segment '
        'that inserts a box (emsg before moof, tfdt or PIFF into traf) reaches the reset of '
        'tfhd.base_data_offset / the forcing of trun.data_offset before encode (boolean flag '
        'propagation over all paths); the edit API invalidates caches and propagates sizes. Every path to encode (edited or not) resets the tfhd base read from the stored file and forces the trun data_offset field, because the fragment is re-based and trun.post_encode can add the field only by growing the encoded box (R03.7). The saio offset is decided as a linear form per path (first senc entry minus the tfhd base, or minus the moof position); a reset saio is written with one entry unless there is no senc sample (R03.8); every path through Mp4Atom.__setattr__ that assigns a public field reaches trigger_change(), with or without a cached encoding (R03.9). The offset of a senc entry is its distance from the start of the senc box (R03.10, premise of the saio form).',
        'Not decided: byte identity of mdat, the numerical value of an offset for a given file. '
        'Trusted: the layout idiom table of the extractor (classes it cannot model are reported '
        'by name and the analysed count has a floor).',
        'DESIGN.md section 4, C03'),
    'C04': (
        'binary layout extraction: parse-side and encode-side layout trees aligned item by item',
        'For each of the codec classes of mp4.py that own a parse/encode pair (floor 44, discovered '
        'from the source so a new box class is covered) the reader and writer bodies are turned '
        'into layout trees - bit width, signedness, guard normal form, loops, nested codecs, '
        'super() chains and helpers inlined - and must agree in order, width, sign, guards and '
        'repetition for every field value; reserved bytes the reader discards must be regenerated '
        'as all-zero/all-one constants; byte-string fields must be declared Binary/HexBinary; the '
        'edit API must invalidate cached encodings and propagate size deltas, and encode() must '
        'back-patch sizes before the post-encode fix-ups; the box header reader/writer must agree; '
        'FieldReader.read() results must not be used as values. This is the reader/writer '
        'agreement that byte-exact round-tripping needs, decided for all inputs. Mp4Atom._invalidate is decided per path: leaving the cache alone implies `_encoded is None`, clearing without recursing implies no parent. The expandable descriptor size is read back as written for sizes on both sides of every seven-bit boundary (R04.9: partial evaluation of writer and reader loops over constants, no repository code runs); the raw header kept for a lazily loaded box holds every byte the header parser consumed (R04.10); every peek of a payload length is on a path that implies the length positive, as BufferedReader.peek asserts (R04.11). A value a parser read is not replaced by a default (R04.12); bytes handed to a Binary field are stored whatever their content (R04.13).',
        'Not decided: equality of values (floats, dates), lazy vs eager field equality, the JSON '
        'round trip as a whole, bounded edit sequences. Guard linkages accepted: presence tests on '
        'the writer side (`x is not None`, `\'x\' in _fields`) against any reader-side condition.',
        'DESIGN.md section 4, C04'),
    'C05': (
        'Jinja2 template-AST analysis with an XML-context tokenizer + sanitiser-strength rules',
        'All nine .mpd templates, the patch template and the files they include are parsed (never '
        'rendered); each of the ~500 output expressions gets its lexical XML context, filter '
        'chain and guard stack. For every stored string, query value and Host header at once: an '
        'expression that can carry such text must reach element content / attribute values only '
        'through a sanitiser whose strength (read from the body of xmlSafe on every run) covers '
        'what that context needs, or through a formatter with an XML-inert alphabet, or be '
        'numeric / fixed vocabulary by the field table or a class annotation; |safe in '
        'autoescaped files only on known producers; xs:duration / xs:dateTime / unsigned-int '
        'attributes must use their lexical formatter; attributes required for MPD@type must be '
        'emitted on every mode branch the manifest supports; URL templates may only use DASH '
        'identifiers; URL text is escaped exactly once. The rules of C19 about the xs:dateTime / xs:duration formatters run here too (R05.8). A representation read before a media file is indexed on demand is not used after the indexing call (R05.10, may-analysis) - the structural half of "no AdaptationSet is empty".',
        'Not decided: uniqueness of ids, non-empty AdaptationSets, non-negative durations '
        '(run-time values). Trusted: the Jinja2 parser; Flask\'s autoescape-by-extension rule '
        '(restated); the field table (free text vs numeric vs vocabulary vs file-derived), where '
        'anything not listed and not annotated numeric is treated as free text.',
        'DESIGN.md section 4, C05'),
    'C06': (
        'linear normal forms of the byte-range convention + def-use chain of the declared duration + zone proof of the range refusal + path-sensitive linear evaluation of the indexer clock',
        'Only the conventions the static manifests and the media endpoints must share: '
        'generateSegmentList computes the inclusive end as pos + size - 1 (linear normal form), '
        'renders `start-end`, and an open range ends at length - 1 on the reader side; the '
        'duration rendered as mediaPresentationDuration in every template is mpd.mediaDuration, '
        'which ManifestContext.update_timing takes from the static timing context, which '
        'DashTiming.calculate_vod_params computes from the timing reference and nothing else; on '
        'every normal return of LiveMedia.calculate_media_segment_index first <= number <= last is '
        'implied (difference-bound proof, roles found by the producing calls) and the refusal is '
        'the ValueError the caller maps to 404; the static first/last range is startNumber .. '
        'startNumber + N - 1 on every path that implies a static mode; the indexer start clock is '
        'the tfdt or the previous end and the end is start + sample durations (linear evaluation of '
        'one fragment); static number and file index differ by start_number - 1; the stored media duration is the sum of the fragment durations wherever it is computed (R06.12). The sample durations and sizes the indexer sums are the ones in the file (R06.13, lift of C04 R04.12).',
        'Not decided: counts, gaplessness, tiling of ranges, decode times - arithmetic on stored data.',
        'DESIGN.md section 4, C06'),
    'C07': (
        'static option-registry reconstruction + parser/formatter summaries compared as inverse pairs',
        'The registry of DashOption objects is rebuilt from the source (all constructions, the error '
        'factory, and the per-event generator evaluated over the DEFAULT_VALUES literals; floor 55 '
        'options, so a new option is covered without touching the checker). For every option each '
        'from_string/to_string pair is summarised (result types, none-literal test and its case '
        'sensitivity, quoting, list separators) and must be an inverse pair for the values that '
        'can be forwarded: no list rendered as Python repr, None written as text the parser '
        'accepts, reserved characters escaped where free text or a `+` can occur, join/split '
        'separators equal. Option reads reachable from the media entry points must carry a media '
        'usage; the resolved start/depth must be stored before the URL parameters are computed; '
        'both parameter generators must apply usage mask, exclude and default removal, and each '
        'parameter set must reach the matching AdaptationSet type. OptionsContainer.clone shares no group container with its source (R07.6). Each piece of a split option text is decided from the piece (R07.5); the start option written into a URL is parsed back to the same instant and offset (R07.8, rules of C19).',
        'Not decided: identity of float formatting, values outside the enumerated type lattice, '
        'XML escaping of the query text (C05). Parser/formatter summaries recognise the idioms in '
        'use (constant-collection none tests, join/split, quote/unquote); an unrecognised formatter '
        'is treated as custom and only its list/None obligations are checked.',
        'DESIGN.md section 4, C07'),
    'C09': (
        'template-AST comparison of patch and manifest + option-set agreement between the two endpoints',
        'Only the clauses of C09 that are agreements between two pieces of source: the patch '
        'template renders mpdId from the expression of MPD@id, each XPath selector addresses an '
        'element/attribute the manifest template emits from the same expression, both render the '
        'SegmentTimeline from the same included template, PatchLocation is emitted under '
        'options.patch with the same expressions; the options ServePatch forces (patch, '
        'segmentTimeline) are exactly the query names the PatchLocation URL omits and both '
        'handlers parse options through the same restrictions/features; originalPublishTime is '
        'fromtimestamp(publish) and the manifest sets publish=int(publishTime.timestamp()) with a '
        'whole-second publishTime; every manifest advertising the patch feature also has '
        'segmentTimeline, live mode and a patch template. availabilityStartTime stands still between a manifest and its patch (back-off confined to the start of the anchored unit). PatchLocation and Location are completed with their own parameter sets (R09.6). calculate_segment_from_timecode hands on what get_segment_index found, unchanged (R09.7); the nearest-start search decides with the duration of the segment it steps over (R09.8).',
        'Not decided: that two manifests at T1 < T2 agree on shared segments, monotonic windows '
        '(histories/arithmetic).',
        'DESIGN.md section 4, C09'),
    'C10': (
        'mutation inventory with guard stacks + location-gating rule + single-implementation rule',
        'Every statement that can change the atom tree between load_fragment() and encode() in '
        'generate_init_segment is enumerated with its stack of enclosing tests and loops and '
        'compared with the two edits the property allows (append of `drm.moov(default_kid)` for an '
        'encrypted track, per system of the DrmContext, under `drm.moov is not None`; removal of '
        'mehd under mode == live): any other edit call, attribute store or weaker guard is a '
        'violation for every request at once. Both init routes must reach that one function and '
        'encode nothing themselves; each DRM system may hand out a moov/cenc/pro generator only '
        'under the membership test of the same-named DrmLocation (Marlin: none); cenc and moov '
        'share one generator; the fragment is the stored segment 0 loaded read-write and the key '
        'set comes from the representation. pssh key ids are identity conversions of the key set, and a pssh without key ids is built only on paths that bound the number of keys by one (R10.7) every listed system is decided from its own item of the drm= text (R10.5);; default locations replace a requested set only for None unless nothing can empty a request.',
        'Not decided: byte identity of untouched boxes (follows from C04 as far as reader/writer '
        'agreement goes), pssh payload contents. Patterns are matched on resolved names (the '
        'receiver of load_fragment, the loop variable of the DrmContext), not on line positions.',
        'DESIGN.md section 4, C10'),
    'C11': (
        'location-gating rule (path-condition entailment) + template-AST facts + abstract interpretation over terms (GUID permutation, hash input sequences, XOR fold, base64url codec)',
        'Structural half of C11: per DRM system the cenc/moov/pro generators are enabled only '
        'under the same-named DrmLocation test (PlayReady cenc additionally version > 1.0); the '
        'manifest and the init segment construct DrmContext with the same roles and the key-set '
        'sources are compared; in the templates every pssh/pro payload sits under the flag that '
        'enables it, inside the right element, base64-rendered, default_KID comes from '
        'adp.default_kid|uuid and each per-system include is guarded by that system; the ClearKey '
        'handler only appends entries inside the iteration over the key lookup, pairs KID and KEY '
        'of one stored key, covers its decode exceptions and uses inverse base64url mappings; '
        'hex_to_le_guid is interpreted over terms (text, dashed text, raw bytes) and must equal the '
        'RFC 4122 bytes_le permutation; generate_content_key interpreted over terms must return '
        'key[i] = A[i]^A[i+16]^B[i]^B[i+16]^C[i]^C[i+16] with A, B, C the digests of (T|K), (T|K|T), '
        '(T|K|T|K), T = seed[:30], K = little-endian key id (agreement of the construction with the '
        'published key-seed algorithm, not of key bytes). Default locations replace a requested set only for None unless nothing can empty a request (pair rule). The WRMHEADER default KID, key, CHECKSUM and the licence URL default_kid come from one key (R11.7). The requested systems and locations are what the drm= text says, item by item (R11.8, lift of C10 R10.5).',
        'Not decided (cryptographic value equality, out of reach of static analysis): computed key '
        'bytes, AES checksum values, PRO parse-back.',
        'DESIGN.md section 4, C11'),
    'C12': (
        'must-fact path analysis of the ownership test + exception coverage + return-nullability rule',
        'Access and error discipline of the multi-period routes: in every verb method of a route '
        'with <mps_name> and <int:ppk> the refusal `period is None or period.parent_pk != '
        'current_mps.pk -> 404` dominates every use of the period; the beyond-the-end ValueError '
        'exists and the caller maps ValueError to 404; no implementation of '
        'calculate_media_segment_index returns an Optional parameter unchanged as the number the '
        'caller asserts; VOD/live period starts are the running sum of durations with unique ids '
        'per repetition. The index / pass-counter slice of the live listing loop is evaluated for 1..6 stored periods. The nearest-start search decides with the duration of the segment it steps over (R12.7).',
        'Not decided: tiling of the time-shift window in live mode, source-offset mapping, decode '
        'times (arithmetic).',
        'DESIGN.md section 4, C12'),
    'C13': (
        'path-sensitive zone-domain abstract interpretation of get_http_range + call-site rules',
        'For every Range header value at once: on each exit path of get_http_range the zone '
        'domain must imply 0 <= start <= end <= length-1 where the status is 206 and '
        'unsatisfiability (start >= length or start > end) where it is 416; the Content-Range '
        'text must be built from the definitions of start/end that reach the return; both '
        'callers must map ValueError to 400, slice with an inclusive end, and nothing else may '
        'read the Range header. For the suffix form the start is max(0, length - N) with N the parsed suffix length written out through the locals (structural clause, path conditions decide the sign where max() is not used). The length on-demand ranges are computed against is the size of the stored file, taken after its writer closed it (R13.6, typestate over every write-open). Decides the status/bounds/Content-Range clauses; body equality '
        'only structurally (same variables, inclusive convention).',
        "Axioms: pieces of split('-') parse to ints >= 0 or raise ValueError; length >= 0. "
        'Trusted: CPython ast; the zone closure. Not decided: equality of the body bytes.',
        'DESIGN.md section 4, C13'),
    'C14': (
        'binary layout extraction for SCTE-35/emsg + syntactic width-bound and loop-guard rules',
        'Layout agreement (encode then parse is the identity as far as order/width/sign/guards go) '
        'for the 15 SCTE-35 codec classes, the MPEG section framing and EventMessageBox v0/v1; '
        'codec protocol lint (dispatcher calls a method every subclass defines with the right '
        'arity, write_bytes argument roles, parse() returns its dict on every path); every value '
        'create_binary_signal passes into a fixed-width field must be a constant, bool, masked, '
        'reduced or clamped expression of that width; the emsg time kwarg set per version is the '
        'field that version encodes and v0 is the delta from the segment start; the event loop '
        'step and every division by the interval sit behind a `interval <= 0` refusal; the '
        'out-of-band listing enumerates ids 0..count-1 from start in steps of interval. The out-of-band listing is decided by evaluating the listing code over linear forms in start / interval for count 0..4. The arms of every alternative of an SCTE-35 encoder have the same length modulo 8 bits (R14.12); a default is not overwritten by the target of the loop that looks for a replacement (R14.11).',
        'Not decided: exactly-once selection of events per segment (boundary arithmetic), CRC '
        'values. Many SCTE-35 codec asymmetries are genuine and recorded as known findings (the '
        'server only emits splice_insert + segmentation descriptor without components).',
        'DESIGN.md section 4, C14'),
    'C15': (
        'route-table enumeration + decorator-stack normalisation + call-graph effect analysis + must-fact path rules',
        'For every (route, HTTP verb) pair read from routes.py (146 pairs, handlers resolved along '
        'the MRO, HEAD falling back to get): if a persistent-state store (model attribute store, '
        'session.add/delete, x.add()/x.delete(), file create/unlink) with a commit is reachable in '
        'the resolved call graph, the normalised guard (class `decorators` + per-method decorators) '
        'must demand the documented role (media; admin or the verified in-body self guard for '
        'User). The role decorators themselves are path-checked (every path to func() passed the '
        'authenticated/admin/permission refusals), no model store may precede a CSRF check inside a '
        'verb method (the check commits the session), and CsrfProtection.check must refuse re-use, '
        'record the token, sign cookie key + service + salt exactly as the issuer does and raise on '
        'mismatch. A handler added or changed without the right decorator is a missing element of '
        'the enumeration, for every request at once. The whole submitted token is verified (no cut other '
        'than the salt prefix unless it keeps more than a genuine token has) and the HMAC input sequences of '
        'issue and check agree per strict-origin value (term evaluation). Records of used CSRF tokens are removed only once expired, or from outside the request paths (R15.7).',
        'May-reach over resolved call edges (unresolved dynamic calls are not followed); role data '
        'and browser cookie behaviour are run-time and not decided; jwt_required() alone is treated '
        'as anonymous because the guest identity is handed to every visitor. Policy table and the '
        'two accepted in-body guards (EditUser.post, LoginPage.post) are confirmed by reading and '
        're-verified structurally on every run.',
        'DESIGN.md section 4, C15'),
    'C16': (
        'interprocedural exception-escape analysis over the resolved call graph + path/structure rules',
        'From every routed (handler, verb) entry point: each explicit raise (and each assertion on '
        'a request-controlled value) that can propagate out along resolved call edges without '
        'meeting an except clause that covers its type is reported, unless a triage row names the '
        'invariant that makes it unreachable; option-parser/consumer agreement (every value the '
        '`drm` and `time` parsers accept is handled downstream) is decided on every run and the '
        'corresponding rows are only honoured while it holds; parser calls on uploaded or fetched '
        'bytes must sit under a handler; counted while-loops on request paths need a provably '
        'positive step; attributes read from library modules and annotated builtin containers must '
        'exist; int(x, base) on a known int is a definite TypeError; the synthetic-error selection '
        'is by equality, counted only on the addressed branch, and no other literal 5xx exists. Loops that '
        'read until a sentinel end at end of input (R16.12). A payload is peeked at only where its length is positive (R16.16). What a rejecting membership test validated is the value that goes on (R16.17).',
        'Decides explicit error signals, loop progress and definite crashes on resolved edges; not '
        'the absence of implicit Python exceptions (KeyError, AttributeError on None ...), not '
        'response-time bounds. Signals raised inside the MP4 parser are decided at the parser call '
        'sites (stored, indexed media is trusted to parse again). Triage rows were confirmed by '
        'reading the callers.',
        'DESIGN.md section 4, C16'),
    'C17': (
        'ORM schema extraction + typed deletion-site enumeration + delete-rule matching',
        'The foreign keys, relationships (with cascades), the association table and the unique '
        'constraints are read from the mapped_column/relationship/Table declarations; every site '
        'that deletes a model instance is enumerated with typed receivers. For every history at '
        'once: a foreign key whose parent can be deleted must have a delete rule (cascade on the '
        'parent relationship, ORM nullify on a nullable column, ondelete, association table, or '
        're-target-before-delete at the site); the JSON soft reference Stream.timing_ref must be '
        'cleared or re-targeted where its media file is deleted; the columns the property calls '
        'names must carry a uniqueness constraint; replace-on-upload must delete row and file '
        'together. Referential consistency is decided as far as it is a property of schema + '
        'deletion sites. Bulk DELETE statements only on models that own nothing and that nothing refers to (R17.8). A passive_deletes relationship over the association table counts as managing no rows while SQLite enforces no foreign keys (R17.1); a Blob row records the size of the file it names, measured after the file was closed (R17.11). A row that is replaced is looked up by the value its replacement is created with (R17.10), with nothing stored into that value in between.',
        'Not decided: interleavings of concurrent requests, 200/4xx behaviour of listed streams '
        'after a history, byte-exact serving of uploads. Trusted: SQLAlchemy cascade semantics as '
        'documented; typed-receiver resolution of the call graph.',
        'DESIGN.md section 4, C17'),
    'C08': (
        'abstract interpretation of DashTiming.__init__ + calculate_live_params in a difference-bound '
        '(zone) domain with calendar-floor ghosts, trace-partitioned per path',
        'The clauses of C08 that are difference constraints, on every path through the live timing '
        'code (276 paths): availabilityStartTime <= now; availabilityStartTime <= publishTime <= now on '
        'a whole second; 0 <= timeShiftBufferDepth <= elapsedTime == now - availabilityStartTime; '
        'firstAvailableTime == elapsedTime - timeShiftBufferDepth >= 0; every symbolic start value '
        'is >= 60 s old; with a period p > 0 publishTime is availabilityStartTime + int(elapsed//p)*p; '
        'no divisor can be zero; parser and branch table agree on the symbolic values. A symbolic start backs '
        'off only at the start of the calendar unit it is anchored at; the C19 rules about the ISO date-time '
        'parser of the explicit start run here too (R08.10), including that a parsed start is never relabelled with replace(tzinfo=..) unless it has no zone (R19.7).',
        'Axioms: wall clock >= 2020-01-01Z; explicit start <= now; depth/mup/leeway are int or None; '
        'segment_duration, timescale >= 1; calendar spans. Not decided: publishTime monotone in now, '
        'lag < p + 1 s, same instant within a UTC day (two-run / three-variable clauses). '
        'Trusted: CPython ast, the transfer functions of sa/timealg.py.',
        'DESIGN.md section 4, C08'),
    'C20': (
        'linear normal forms + must-fact data-flow + zone-domain proof over BufferedReader',
        'Window discipline of BufferedReader for every operation sequence: each absolute position '
        'handed to the underlying reader contains the window offset, each tell() is translated '
        'back; every byte string returned by peek/read/readall is bounded by a count clamped to '
        'size - pos when the size is known; every exit of seek implies 0 <= pos <= size; cache '
        'eviction/insertion keep the counter paired and bucket keys aligned; seek moves to offset / pos + offset / size + offset before clamping (R20.8); results are byte strings also at the end of the window (R20.9). No name the window size goes by is tested by truthiness (R20.6). These are necessary '
        'conditions of slice-equivalence, not the equivalence itself.',
        'Axiom: a known window size is >= 0. Not decided: equality with BytesIO over operation '
        'sequences, LRU choice. Trusted: CPython ast.',
        'DESIGN.md section 4, C20'),
}

NOT_APPLICABLE: dict[str, str] = {
    'C01': 'Retrievability at instant T is numerical agreement of two separately written '
           'integer/timedelta window computations (timeline generator vs. request handler) over '
           'clock phase, loop count and leeway; no structural necessary condition exists beyond '
           'option forwarding (decided under C07) - the failing cases are window-edge arithmetic '
           'that no sound static argument in reach can bound.',
    'C02': 'Exact tfdt / sequence / duration values and A/V alignment after N loops are modular '
           'arithmetic over per-track timescales; only field widths (C04) are visible in code '
           'shape, which is far weaker than the property.',
}

PENDING = 'checker for this property is not built yet in this session (see DESIGN.md section 4)'
ALL = [f'C{i:02d}' for i in range(1, 21)]


def build() -> dict:
    checks = []
    for pid in ALL:
        if pid not in CLAIMS:
            continue
        tech, text, note, ref = CLAIMS[pid]
        checks.append({
            'property_id': pid,
            'quick_cmd': f'./check {pid} --tier quick',
            'thorough_cmd': f'./check {pid} --tier thorough',
            'evidence_file': f'/verif/evidence/{pid}.json',
            'replay_cmd_template': f'./check {pid} --tier quick --replay {{path}}',
            'engine': 'sa',
            'level_claimed': {'category': 'other', 'text': text, 'design_ref': ref},
            'level_note': note,
            'technique': 'static analysis: ' + tech,
        })
    na = []
    for pid in ALL:
        if pid in CLAIMS:
            continue
        na.append({'property_id': pid, 'reason': NOT_APPLICABLE.get(pid, PENDING)})
    return {
        'version': 1,
        'setup_cmd': '/venv/bin/python -B -c "import ast, jinja2; print(\'sa framework needs no build\')"',
        'hooks': {
            'guard': 'DASHLIVE_VERIF',
            'enable': 'no hooks: the checkers read /repo sources and never run them',
            'baseline_off_cmd': 'cd /repo && /venv/bin/python -m pytest -ra -q -p no:cacheprovider '
                                '--timeout=900 --continue-on-collection-errors',
            'source_commits': [],
            'add_only': True,
        },
        'engines': [{
            'name': 'sa',
            'path': '/verif/sa',
            'serves_properties': sorted(CLAIMS),
            'kind_free_text': 'repository-specific static analysis in Python (ast index, call graph, '
                              'structured path engine, zone-domain abstract interpreter, binary '
                              'layout extractor, Jinja2 template-AST analyser, field taint)',
        }],
        'checks': checks,
        'not_applicable': na,
        'notes': 'exit 0 = all rule instances hold (listed known findings are printed as '
                 'KNOWN-FINDING); exit 1 = VIOLATION lines; exit 2 = ANALYSIS-ERROR (fail closed).',
    }


if __name__ == '__main__':
    m = build()
    (VERIF / 'MANIFEST.json').write_text(json.dumps(m, indent=1) + '\n')
    print(f"MANIFEST.json: {len(m['checks'])} checks, {len(m['not_applicable'])} not applicable")

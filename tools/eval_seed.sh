#!/bin/sh
# usage: tools/eval_seed.sh <PROP> <name>   (patch+demo in /tmp/wt-out/<name>, worktree /tmp/wt/<name>)
PROP=$1; NAME=$2; WT=/tmp/wt/$NAME; OUT=/tmp/wt-out/$NAME
cd $WT || exit 2
echo "--- worktree diff stat"; git diff --stat | tail -3
echo "--- demo with patch"; (PYTHONPATH=$WT timeout 600 /venv/bin/python $OUT/demo.py >/tmp/wt-out/$NAME.demo_patched.log 2>&1; echo "exit=$?")
git stash -q
echo "--- demo clean"; (PYTHONPATH=$WT timeout 600 /venv/bin/python $OUT/demo.py >/tmp/wt-out/$NAME.demo_clean.log 2>&1; echo "exit=$?")
git stash pop -q
echo "--- tests with patch"; /venv/bin/python -m pytest -q -p no:cacheprovider --timeout=900 --continue-on-collection-errors 2>&1 | tail -1
echo "--- apply to /repo and run checks"
cd /repo && git status --short | head -3
git -C /repo apply $OUT/patch.diff || { echo "PATCH DOES NOT APPLY"; exit 3; }
cd /verif
for p in C03 C04 C05 C06 C07 C09 C10 C11 C12 C13 C14 C15 C16 C17 C18 C19 C20; do
  out=$(./check $p --tier quick 2>&1); code=$?
  if [ $code -ne 0 ]; then echo "[$p exit=$code]"; echo "$out" | grep -E "VIOLATION|^  R|ANALYSIS-ERROR" | cut -c1-330 | head -8; fi
done
git -C /repo checkout -- . && git -C /repo status --short | head -3
echo "--- done"

"""CLI:  python -m sa.check <ID> --tier quick|thorough [--replay path]"""
from __future__ import annotations

import argparse
import importlib
import os
import sys

from .core import run_check


def main(argv: list[str] | None = None) -> int:
    ap = argparse.ArgumentParser()
    ap.add_argument('prop')
    ap.add_argument('--tier', default=os.environ.get('VERIF_TIER', 'quick'),
                    choices=['quick', 'thorough'])
    ap.add_argument('--replay', default=None)
    args = ap.parse_args(argv)
    prop = args.prop.upper()
    try:
        mod = importlib.import_module(f'sa.props.{prop.lower()}')
    except ModuleNotFoundError:
        print(f'ANALYSIS-ERROR property={prop} no checker for this property')
        return 2
    selftest = getattr(mod, 'selftest', None)
    if selftest is None:
        from .variants import VARIANTS
        from .selftest import make_selftest
        if prop in VARIANTS:
            selftest = make_selftest(prop, VARIANTS[prop])
    return run_check(prop, mod.analyse, args.tier, selftest, args.replay)


if __name__ == '__main__':
    sys.stdout.reconfigure(line_buffering=True)
    code = main()
    sys.stdout.flush()
    os._exit(code)

"""C18 - the bundled validator flags corruptions (detection side only).

R18.1  check-site inventory: for each corruption kind of the property there is
       a call of the check family (ValidationChecks.check_* / add_error) whose
       arguments are data-dependent on all the facts a detecting check must
       read, in a function of the validator package.
R18.2  the check is attached to the element that owns the fact (receiver is
       self.elt / self.attrs of that element class).
R18.3  validator loops make progress (counted while-loops).
"""
from __future__ import annotations

import ast

from ..core import (AnalysisError, Report, call_name, dotted, enclosing_class, enclosing_function,
                    find_class, find_func, need, norm, short)
from ..index import Index

V = 'dashlive/mpeg/dash/validator'

# corruption kind -> (file, facts every detecting check must read, description)
COMPARE = ('check_equal', 'check_almost_equal', 'check_less_than', 'check_less_than_or_equal',
           'check_greater_than', 'check_greater_or_equal', 'check_not_equal', 'check_true')
PRESENCE = ('check_not_none', 'check_equal', 'check_true', 'check_includes', 'add_error')

# corruption kind -> (file, facts every detecting check must read, accepted check methods, what)
CATALOGUE = [
    ('wrong decode time', f'{V}/media_segment.py',
     ['base_media_decode_time', 'expected_decode_time'], COMPARE,
     'tfdt.base_media_decode_time compared with the expected decode time'),
    ('wrong sequence number', f'{V}/media_segment.py',
     ['sequence_number', 'expected_seg_num'], COMPARE,
     'mfhd.sequence_number compared with the expected segment number'),
    ('trun offset outside mdat', f'{V}/media_segment.py',
     ['base_data_offset', 'data_offset', 'mdat.position', 'header_size'], COMPARE,
     'tfhd.base_data_offset + trun.data_offset compared with the mdat payload start'),
    ('sample data past the end of the mdat', f'{V}/media_segment.py',
     [r're:\b(?!mdat\b)\w+\.size\b', 'trun.samples', 'mdat.position + mdat.size'],
     ('check_less_than_or_equal', 'check_less_than', 'check_equal', 'check_true'),
     'end of the trun sample run (offset + every sample size) compared with the end of the mdat box'),
    ('wrong saio offset', f'{V}/media_segment.py',
     ['saio.offsets', 'senc.position', 'samples[0].offset'], COMPARE,
     'saio.offsets[0] + base compared with senc.position + first sample offset'),
    ('mandatory init box removed (moov)', f'{V}/init_segment.py',
     ['moov'], PRESENCE, 'presence of the moov box'),
    ('mandatory init box removed (ftyp)', f'{V}/init_segment.py',
     ["'ftyp'", 'atom_type'], PRESENCE, 'first box is ftyp'),
    ('mandatory MPD attribute removed (live)', f'{V}/manifest.py',
     ['self.availabilityStartTime'], ('check_not_none',),
     'availabilityStartTime present for a live manifest'),
    ('mandatory MPD attribute removed (type)', f'{V}/manifest.py',
     ['self.mpd_type'], ('check_equal',), 'MPD@type matches the mode'),
    ('gap in a SegmentTimeline', f'{V}/segment_timeline.py',
     ["get('t')", 'duration'], ('check_equal', 'check_almost_equal', 'check_less_than_or_equal',
                                'check_greater_or_equal'),
     'S@t compared with the end of the previous S element (previous t + d)'),
    ('availabilityStartTime changed across a refresh', f'{V}',
     [r're:\bprev\w*\.availabilityStartTime\b', r're:(?<!prev_manifest)\.manifest\.availabilityStartTime\b'], COMPARE,
     'availabilityStartTime of the refreshed manifest compared with the previous one'),
]

# kinds whose expectation is an equality (within a tolerance): the detecting check must be two-sided
TWO_SIDED = ('wrong decode time', 'wrong sequence number', 'wrong saio offset', 'trun offset outside mdat',
             'availabilityStartTime changed across a refresh')

CHECKS = ('check_true', 'check_none', 'check_not_none', 'check_equal', 'check_not_equal',
          'check_includes', 'check_not_in', 'check_less_than', 'check_less_than_or_equal',
          'check_greater_than', 'check_greater_or_equal', 'check_starts_with',
          'check_almost_equal', 'check_is_instance', 'add_error')


def _expand(fn: ast.AST, node: ast.AST, depth: int = 0) -> str:
    """text of an expression with local names replaced by their definitions"""
    txt = norm(node)
    if depth > 3:
        return txt
    if depth == 0:
        # the same expression with plain once-assigned locals written out (current = self.manifest)
        from ..core import subst_locals
        sub = norm(subst_locals(fn, node))
        if sub != txt:
            txt = f'{txt} = {sub}'
    extra = []
    for n in ast.walk(node):
        if isinstance(n, ast.Attribute) and isinstance(n.value, ast.Name) and n.value.id == 'self' \
                and isinstance(n.ctx, ast.Load):
            for a in ast.walk(fn):
                if isinstance(a, ast.Assign) and norm(a.targets[0]) == norm(n):
                    extra.append(_expand(fn, a.value, depth + 1))
        if isinstance(n, ast.Name):
            for a in ast.walk(fn):
                if isinstance(a, (ast.Assign, ast.AnnAssign)) and a.value is not None:
                    tg = a.targets[0] if isinstance(a, ast.Assign) else a.target
                    if isinstance(tg, ast.Name) and tg.id == n.id:
                        extra.append(_expand(fn, a.value, depth + 1))
                    elif isinstance(tg, ast.Tuple) and any(
                            isinstance(e, ast.Name) and e.id == n.id for e in tg.elts):
                        extra.append(_expand(fn, a.value, depth + 1))
                if isinstance(a, ast.AugAssign) and isinstance(a.target, ast.Name) and a.target.id == n.id \
                        and depth < 2:
                    extra.append('+= ' + _expand(fn, a.value, depth + 1))
                if isinstance(a, (ast.For, ast.comprehension)) and isinstance(a.target, ast.Name) \
                        and a.target.id == n.id and depth < 3:
                    extra.append('in ' + norm(a.iter))
            # names bound by try: x = expr inside the function are covered above
    return txt + ' <- ' + ' ; '.join(extra) if extra else txt


def _has_fact(fact: str, text: str) -> bool:
    if fact.startswith('re:'):
        import re
        return re.search(fact[3:], text) is not None
    return fact in text


def check_sites(rep: Report, rel: str):
    rels = [rel] if rel.endswith('.py') else rep.repo.py_files(rel)
    for r in rels:
        # functions in normal form: a loop over a table of attribute names is one check per row
        for _cls, fn in rep.repo.expanded_functions(r):
            for n in ast.walk(fn):
                if isinstance(n, ast.Call) and isinstance(n.func, ast.Attribute) and n.func.attr in CHECKS:
                    inner = enclosing_function(n)
                    yield r, (inner if inner is not None else fn), n


def r18_1_2(rep: Report) -> None:
    # the check family really records an error when the predicate fails
    et = rep.repo.tree(f'{V}/errors.py')
    vc = need(find_class(et, 'ValidationChecks'), 'ValidationChecks')
    ct = need(find_func(vc, 'check_true'), 'check_true')
    if 'self.add_error' in norm(ct) or 'add_error' in norm(ct):
        rep.ok('R18.1', f'{V}/errors.py::ValidationChecks.check_true', 'failing check records an error')
    else:
        rep.fail('R18.1', f'{V}/errors.py::ValidationChecks.check_true', 'failing check records an error',
                 'check_true no longer calls add_error when the result is false', ct)
    n_family = len([m for m in vc.body if isinstance(m, ast.FunctionDef) and m.name.startswith('check_')])
    if n_family < 12:
        raise AnalysisError('ValidationChecks family shrank')
    for m in vc.body:
        if isinstance(m, ast.FunctionDef) and m.name.startswith('check_') and m.name != 'check_true':
            if 'self.check_true' in norm(m):
                rep.ok('R18.1', f'{V}/errors.py::ValidationChecks.{m.name}', 'delegates to check_true')
            else:
                rep.fail('R18.1', f'{V}/errors.py::ValidationChecks.{m.name}', 'delegates to check_true',
                         f'{m.name} does not route its verdict through check_true', m)
    for kind, rel, facts, methods, desc in CATALOGUE:
        hits = []
        for r, fn, call in check_sites(rep, rel):
            if call.func.attr not in methods:
                continue
            args = list(call.args) + [k.value for k in call.keywords if k.arg not in ('msg', 'clause', 'template')]
            text = ' | '.join(_expand(fn, a) for a in args)
            # a check guarded by a test counts with its guard
            cond = ''
            p = getattr(call, '_parent', None)
            while p is not None and p is not fn:
                if isinstance(p, ast.If):
                    cond += ' ' + _expand(fn, p.test)
                p = getattr(p, '_parent', None)
            if all(_has_fact(f, text + cond) for f in facts):
                hits.append((r, fn, call))
        construct = rel if rel.endswith('.py') else f'{rel}/*'
        if hits and kind in TWO_SIDED:
            # the expectation is an equality: a value that is too small is as wrong as one that is too large
            def symmetric(fn_, call_) -> bool:
                if call_.func.attr in ('check_equal', 'check_almost_equal', 'check_not_equal'):
                    return True
                txt = ' | '.join(_expand(fn_, a) for a in call_.args)
                return 'abs(' in txt or (call_.func.attr == 'check_true' and ('==' in txt or '!=' in txt))
            sym = [h for h in hits if symmetric(h[1], h[2])]
            r0, fn0, call0 = (sym or hits)[0]
            cl0 = enclosing_class(call0)
            c0 = f'{r0}::{cl0.name + "." if cl0 else ""}{fn0.name}'
            if sym:
                rep.ok('R18.12', c0, kind, f'{short(call0, 60)} is two-sided')
            else:
                rep.fail('R18.12', c0, kind,
                         f'the only check that reads {facts} is `{short(call0, 70)}`, an ordering test of a signed '
                         'difference: a value on the other side of the expectation (earlier / smaller than expected) passes '
                         'unreported. The expectation is an equality - compare with check_equal / check_almost_equal or test '
                         'abs(difference)', call0)
        if hits:
            r, fn, call = hits[0]
            cl = enclosing_class(call)
            rep.ok('R18.1', f'{r}::{cl.name + "." if cl else ""}{fn.name}', kind,
                   f'{short(call, 70)} reads {facts}')
            recv = norm(call.func.value)
            if recv in ('self.elt', 'self.attrs', 'period.attrs', 'self') or recv.endswith(('.elt', '.attrs')):
                rep.ok('R18.2', f'{r}::{cl.name + "." if cl else ""}{fn.name}', kind, f'attached to {recv}')
            else:
                rep.fail('R18.2', f'{r}::{cl.name + "." if cl else ""}{fn.name}', kind,
                         f'the detecting check is attached to `{recv}`, not to the element it examines', call)
        else:
            rep.fail('R18.1', construct, kind,
                     f'no validator check reads {facts} ({desc}): this corruption is not detected at '
                     'the element that carries it')


def r18_3(rep: Report) -> None:
    rid = 'R18.3'
    n = 0
    for rel in rep.repo.py_files(V):
        tree = rep.repo.tree(rel)
        for loop in [x for x in ast.walk(tree) if isinstance(x, ast.While)]:
            fn = enclosing_function(loop)
            cl = enclosing_class(loop)
            construct = f'{rel}::{cl.name + "." if cl else ""}{fn.name if fn else "?"}'
            names = {norm(x) for x in ast.walk(loop.test) if isinstance(x, (ast.Name, ast.Attribute))}
            steps = [s for s in ast.walk(loop) if isinstance(s, ast.AugAssign)
                     and isinstance(s.op, (ast.Add, ast.Sub)) and norm(s.target) in names]
            key = f'while {short(loop.test, 50)}'
            n += 1
            if not steps:
                # loops over futures / queues: progress comes from the awaited work
                rep.ok(rid, construct, key, 'no arithmetic counter (event/queue loop)')
                continue
            for s in steps:
                v = s.value
                if isinstance(v, ast.Constant) and isinstance(v.value, (int, float)) and v.value > 0:
                    rep.ok(rid, construct, key + ' ' + norm(s), 'positive constant step')
                else:
                    guarded = any(isinstance(i, ast.If) and norm(v) in norm(i.test)
                                  and any(op in norm(i.test) for op in ('<= 0', '< 1', '== 0', 'is None'))
                                  for i in ast.walk(fn))
                    if guarded:
                        rep.ok(rid, construct, key + ' ' + norm(s), 'step tested against zero')
                    else:
                        rep.fail(rid, construct, key + ' ' + norm(s),
                                 f'loop advances by `{norm(v)}` (a value read from the manifest or the '
                                 'media) without a positivity test: a zero duration stalls the validator', s)
    if n == 0:
        rep.ok(rid, V, 'no while loops')


def r18_4(rep: Report) -> None:
    """an expectation that may be absent is a number or None; 0 is a value (first segment of a VOD
    stream: decode time 0, startNumber 0).  A detecting check guarded by the truthiness of such an
    expectation is skipped for 0 - the corruption of exactly that segment goes unreported."""
    rid = 'R18.4'
    for rel in rep.repo.py_files(V):
        tree = rep.repo.tree(rel)
        for cls in [n for n in ast.walk(tree) if isinstance(n, ast.ClassDef)]:
            opt: dict[str, str] = {}
            for b in cls.body:
                if isinstance(b, ast.AnnAssign) and isinstance(b.target, ast.Name):
                    a = norm(b.annotation)
                    if 'None' in a and any(k in a for k in ('int', 'float', 'timedelta', 'Decimal')):
                        opt[b.target.id] = a
            if not opt:
                continue
            for call in [n for n in ast.walk(cls) if isinstance(n, ast.Call)
                         and isinstance(n.func, ast.Attribute)
                         and (n.func.attr.startswith('check_') or n.func.attr == 'add_error')]:
                fn = enclosing_function(call)
                # a local that only names the expectation: expected = self.expected_decode_time
                alias: dict[str, str] = {}
                if fn is not None:
                    for a_ in ast.walk(fn):
                        if isinstance(a_, (ast.Assign, ast.AnnAssign)) and getattr(a_, 'value', None) is not None:
                            tg_ = a_.targets[0] if isinstance(a_, ast.Assign) and len(a_.targets) == 1 else getattr(a_, 'target', None)
                            if isinstance(tg_, ast.Name) and isinstance(a_.value, ast.Attribute) and norm(a_.value.value) == 'self':
                                alias[tg_.id] = a_.value.attr if tg_.id not in alias else ''
                    for x_ in ast.walk(fn):
                        if isinstance(x_, ast.Name) and isinstance(x_.ctx, ast.Store) and x_.id in alias:
                            n_st = sum(1 for y_ in ast.walk(fn) if isinstance(y_, ast.Name) and y_.id == x_.id
                                       and isinstance(y_.ctx, ast.Store))
                            if n_st != 1:
                                alias[x_.id] = ''

                def self_attr(e: ast.AST) -> str | None:
                    if isinstance(e, ast.Attribute) and norm(e.value) == 'self':
                        return e.attr
                    if isinstance(e, ast.Name) and alias.get(e.id):
                        return alias[e.id]
                    return None
                child = call
                for a in _ancestors(call):
                    if isinstance(a, ast.If) and any(child is x or _contains(x, child) for x in a.body):
                        conj = a.test.values if isinstance(a.test, ast.BoolOp) and isinstance(a.test.op, ast.And) \
                            else [a.test]
                        for t in conj:
                            attr = None
                            truthy = False
                            if self_attr(t) is not None:
                                attr, truthy = self_attr(t), True
                            elif isinstance(t, ast.Compare) and isinstance(t.ops[0], ast.IsNot) \
                                    and self_attr(t.left) is not None \
                                    and isinstance(t.comparators[0], ast.Constant) \
                                    and t.comparators[0].value is None:
                                attr = self_attr(t.left)
                            if attr not in opt:
                                continue
                            construct = f'{rel}::{cls.name}.{fn.name if fn else "?"}'
                            key = f'{call.func.attr} under self.{attr}'
                            if truthy:
                                rep.fail(rid, construct, key,
                                         f'`{short(call, 60)}` runs only when `self.{attr}` ({opt[attr]}) is '
                                         'truthy: an expectation of 0 (first segment, decode time 0) is '
                                         'treated as "no expectation" and the check is skipped', a, file=rel)
                            else:
                                rep.ok(rid, construct, key, f'guard `self.{attr} is not None`')
                    # the same guard written as an early exit in front of the check: `if self.x is None: return`
                    for fld in ('body', 'orelse', 'finalbody'):
                        blk_ = getattr(a, fld, None)
                        if not (isinstance(blk_, list) and any(child is x for x in blk_)):
                            continue
                        for prev in blk_[:[i_ for i_, x in enumerate(blk_) if x is child][0]]:
                            if not (isinstance(prev, ast.If) and not prev.orelse and prev.body
                                    and isinstance(prev.body[-1], (ast.Return, ast.Continue, ast.Raise, ast.Break))):
                                continue
                            t = prev.test
                            attr = None
                            truthy = False
                            if isinstance(t, ast.UnaryOp) and isinstance(t.op, ast.Not) and self_attr(t.operand) is not None:
                                attr, truthy = self_attr(t.operand), True
                            elif isinstance(t, ast.Compare) and len(t.ops) == 1 and isinstance(t.ops[0], ast.Is) \
                                    and self_attr(t.left) is not None and isinstance(t.comparators[0], ast.Constant) \
                                    and t.comparators[0].value is None:
                                attr = self_attr(t.left)
                            if attr not in opt or not any(
                                    self_attr(x) == attr for arg in list(call.args) + [k.value for k in call.keywords]
                                    for x in ast.walk(arg)):
                                continue
                            construct = f'{rel}::{cls.name}.{fn.name if fn else "?"}'
                            key = f'{call.func.attr} under self.{attr}'
                            if truthy:
                                rep.fail(rid, construct, key,
                                         f'`{short(call, 60)}` is skipped by `{short(prev, 40)}` when `self.{attr}` ({opt[attr]}) is '
                                         'not truthy: an expectation of 0 (first segment, decode time 0) is treated as '
                                         '"no expectation" and the check is skipped', prev, file=rel)
                            else:
                                rep.ok(rid, construct, key, f'early exit on `self.{attr} is None`')
                    if isinstance(a, (ast.FunctionDef, ast.AsyncFunctionDef)):
                        break
                    child = a


def _ancestors(n: ast.AST):
    p = getattr(n, '_parent', None)
    while p is not None:
        yield p
        p = getattr(p, '_parent', None)


def _contains(root: ast.AST, node: ast.AST) -> bool:
    return any(x is node for x in ast.walk(root))


def r18_5(rep: Report) -> None:
    """a reported error stays in the session's report: outside DashElement.reset_errors itself, errors
    are cleared (`X.reset_errors()`, `X.errors = []`, `.errors.clear()`) only for an object whose
    errors were put into the validation history earlier in the same function
    (`self.history.append(ValidationHistory(.., errors=X.get_errors()))`)."""
    from ..core import dfs_order
    rid = 'R18.5'
    pkg = 'dashlive/mpeg/dash/validator'
    sites = 0
    for rel in rep.repo.py_files(pkg):
        for cls_, fn in rep.repo.expanded_functions(rel):
            if fn.name in ('reset_errors', 'reset', '__init__'):
                continue
            order = dfs_order(fn)
            archived: list[tuple[int, str]] = []
            for n in ast.walk(fn):
                if isinstance(n, ast.Call) and (call_name(n) or '').endswith('history.append'):
                    for g in ast.walk(n):
                        if isinstance(g, ast.Call) and isinstance(g.func, ast.Attribute) and g.func.attr == 'get_errors':
                            archived.append((order[id(n)], norm(g.func.value)))
            for n in ast.walk(fn):
                recv = None
                if isinstance(n, ast.Call) and isinstance(n.func, ast.Attribute) and n.func.attr == 'reset_errors':
                    recv = norm(n.func.value)
                elif isinstance(n, ast.Call) and isinstance(n.func, ast.Attribute) and n.func.attr == 'clear' \
                        and norm(n.func.value).endswith('errors'):
                    recv = norm(n.func.value)[:-len('.errors')] or 'self'
                elif isinstance(n, ast.Assign) and isinstance(n.targets[0], ast.Attribute) \
                        and n.targets[0].attr == 'errors' and isinstance(n.value, (ast.List, ast.Tuple)) \
                        and not n.value.elts:
                    recv = norm(n.targets[0].value)
                if recv is None:
                    continue
                sites += 1
                construct = f'{rel}::{(cls_.name + ".") if cls_ is not None else ""}{fn.name}'
                if any(o < order[id(n)] and r == recv for o, r in archived):
                    rep.ok(rid, construct, f'{recv}: errors archived before they are cleared')
                else:
                    rep.fail(rid, construct, f'{recv}: errors archived before they are cleared',
                             f'`{short(n, 60)}` clears the errors of `{recv}`, which were not copied into the '
                             f'validation history first (archived here: {sorted({r for _o, r in archived}) or "nothing"}): '
                             'findings recorded on that object - e.g. a changed availabilityStartTime noted by '
                             'validate() - vanish from the final report', n, file=rel)
    if not sites:
        raise AnalysisError('no error reset found in the validator (refresh() changed?)')


def r18_6(rep: Report) -> None:
    """the validator runs to completion: a `super().m(..)` call in the validator package passes
    arguments the inherited `m` accepts (number of positional arguments, keyword names, required
    parameters).  A mismatch is a TypeError on every stream that contains the element."""
    from ..index import Index
    rid = 'R18.6'
    pkg = 'dashlive/mpeg/dash/validator'
    idx = Index(rep.repo, 'dashlive/mpeg/dash')
    n_calls = 0
    for q, c in sorted(idx.classes.items()):
        if not c.rel.startswith(pkg):
            continue
        mro = idx.mro(c)
        for mname, f in c.methods.items():
            for n in ast.walk(f.node):
                if not (isinstance(n, ast.Call) and isinstance(n.func, ast.Attribute)
                        and isinstance(n.func.value, ast.Call) and isinstance(n.func.value.func, ast.Name)
                        and n.func.value.func.id == 'super' and not n.func.value.args):
                    continue
                target = None
                for k in mro[1:]:
                    if n.func.attr in k.methods:
                        target = k.methods[n.func.attr]
                        break
                if target is None:
                    continue            # defined outside the repository (object, a library base)
                n_calls += 1
                a = target.node.args
                params = [x.arg for x in a.posonlyargs + a.args][1:]
                n_def = len(a.defaults)
                required = params[:len(params) - n_def] if n_def else list(params)
                kwonly_req = [x.arg for x, d in zip(a.kwonlyargs, a.kw_defaults) if d is None]
                construct = f'{c.rel}::{c.name}.{mname}'
                key = f'super().{n.func.attr}(..) -> {target.cls.name if target.cls is not None else "?"}'
                if any(isinstance(x, ast.Starred) for x in n.args) or any(k.arg is None for k in n.keywords):
                    rep.ok(rid, construct, key, 'argument list forwarded with * / **')
                    continue
                problem = None
                if len(n.args) > len(params) and a.vararg is None:
                    problem = (f'{len(n.args)} positional argument(s) given, {target.cls.name}.{n.func.attr} '
                               f'takes {len(params)}')
                names = {k.arg for k in n.keywords}
                allowed = set(params) | {x.arg for x in a.kwonlyargs}
                if problem is None and a.kwarg is None and names - allowed:
                    problem = f'unexpected keyword argument(s) {sorted(names - allowed)}'
                supplied = set(params[:len(n.args)]) | names
                missing = [p_ for p_ in required if p_ not in supplied] + [p_ for p_ in kwonly_req if p_ not in names]
                if problem is None and missing:
                    problem = f'required argument(s) {missing} not given'
                if problem is None:
                    rep.ok(rid, construct, key)
                else:
                    rep.fail(rid, construct, key,
                             f'`{short(n, 60)}`: {problem} - a TypeError whenever this element is validated, so the '
                             'validator does not terminate normally on a stream that contains it', n, file=c.rel)
    if n_calls < 10:
        raise AnalysisError(f'only {n_calls} super() calls resolved in the validator package')


def _always_default_params(idx, pkg: str) -> dict[str, dict[str, object]]:
    """method qualname -> {parameter: constant default} for parameters that no *live* call in the
    package passes (by position or keyword): inside the package such a parameter always has its
    default.  Optimistic fixpoint (as in conditional constant propagation): start from "every
    defaulted parameter keeps its default", drop the parameters some call outside dead code passes,
    recompute the dead code, repeat."""
    funcs = {q: f for q, f in idx.functions.items() if f.rel.startswith(pkg) and f.cls is not None}
    cand: dict[str, dict[str, object]] = {}
    pos: dict[str, list[str]] = {}
    for q, f in funcs.items():
        a = f.node.args
        params = [x.arg for x in a.args][1:]
        pos[q] = params
        defaults = dict(zip(params[len(params) - len(a.defaults):], a.defaults)) if a.defaults else {}
        for p_, d in defaults.items():
            try:
                cand.setdefault(q, {})[p_] = ast.literal_eval(d)
            except (ValueError, SyntaxError):
                pass
    by_name: dict[str, list[str]] = {}
    for q, f in funcs.items():
        by_name.setdefault(f.node.name, []).append(q)
    for _ in range(10):
        given: dict[str, set] = {}
        for q, f in idx.functions.items():
            if not f.rel.startswith(pkg):
                continue
            dead = _dead_by_default(f.node, cand.get(q, {}))
            for n in ast.walk(f.node):
                if isinstance(n, ast.Call) and isinstance(n.func, ast.Attribute) and id(n) not in dead:
                    g = given.setdefault(n.func.attr, set())
                    for i, a_ in enumerate(n.args):
                        g.add('*' if isinstance(a_, ast.Starred) else i)
                    for k in n.keywords:
                        g.add(k.arg if k.arg is not None else '**')
        changed = False
        for q in list(cand):
            g = given.get(funcs[q].node.name, set())
            for p_ in list(cand[q]):
                i = pos[q].index(p_)
                if '*' in g or '**' in g or i in g or p_ in g:
                    del cand[q][p_]
                    changed = True
        if not changed:
            break
    return {q: v for q, v in cand.items() if v}


def _dead_by_default(fn: ast.AST, consts: dict[str, object]) -> set[int]:
    """ids of statements under an `if` whose test compares an always-default parameter with a constant
    and is false"""
    dead: set[int] = set()
    for n in ast.walk(fn):
        if not isinstance(n, ast.If) or not isinstance(n.test, ast.Compare) or len(n.test.ops) != 1:
            continue
        l, r = n.test.left, n.test.comparators[0]
        if isinstance(l, ast.Name) and l.id in consts and isinstance(r, ast.Constant):
            a_, b_ = consts[l.id], r.value
            try:
                val = {ast.Gt: lambda: a_ > b_, ast.GtE: lambda: a_ >= b_, ast.Lt: lambda: a_ < b_,
                       ast.LtE: lambda: a_ <= b_, ast.Eq: lambda: a_ == b_, ast.NotEq: lambda: a_ != b_,
                       }[type(n.test.ops[0])]()
            except (KeyError, TypeError):
                continue
            for b in (n.body if not val else n.orelse):
                for x in ast.walk(b):
                    dead.add(id(x))
    return dead


# one named method, with the reason it is not judged; the reason is re-checked on every run
NOT_REACHED = {
    ('Scte35Binary', 'validate'):
        'Scte35Binary objects are held only by Scte35EventElement._children, whose validate() is called only '
        'from DashEvent.validate under `depth > 0`; no call in the package passes a depth, so it is always -1',
}


def _scte35_chain_is_dead(idx, always) -> bool:
    ev = 'dashlive.mpeg.dash.validator.events.'
    de = idx.functions.get(ev + 'DashEvent.validate')
    if de is None:
        return False
    # (1) DashEvent.validate(depth=-1) calls validate() on its children only under `depth > 0`
    a = de.node.args
    params = [x.arg for x in a.args][1:]
    if params != ['depth'] or len(a.defaults) != 1:
        return False
    try:
        if ast.literal_eval(a.defaults[0]) != -1:
            return False
    except (ValueError, SyntaxError):
        return False
    dead = _dead_by_default(de.node, {'depth': -1})
    calls = [n for n in ast.walk(de.node) if isinstance(n, ast.Call) and isinstance(n.func, ast.Attribute)
             and n.func.attr == 'validate']
    if not calls or any(id(n) not in dead for n in calls):
        return False
    # (2) Scte35Binary is constructed only inside Scte35EventElement, Scte35EventElement only inside
    #     DashEvent, DashEvent only inside EventStreamBase (into self.events)
    for cls_name, owner in (('Scte35Binary', 'Scte35EventElement'), ('Scte35EventElement', 'DashEvent'),
                            ('DashEvent', 'EventStreamBase')):
        for q, f in idx.functions.items():
            for n in ast.walk(f.node):
                if isinstance(n, ast.Call) and call_name(n) == cls_name:
                    if f.cls is None or f.cls.name != owner:
                        return False
    # (3) every validate() call on an element of `self.events` passes no depth
    n_sites = 0
    for q, f in idx.functions.items():
        for loop in ast.walk(f.node):
            if isinstance(loop, (ast.For, ast.comprehension)) and norm(loop.iter) == 'self.events' \
                    and isinstance(loop.target, ast.Name):
                scope = loop if isinstance(loop, ast.For) else f.node
                for n in ast.walk(scope):
                    if isinstance(n, ast.Call) and isinstance(n.func, ast.Attribute) and n.func.attr == 'validate' \
                            and norm(n.func.value) == loop.target.id:
                        n_sites += 1
                        if n.args or n.keywords:
                            return False
    return n_sites > 0


def r18_7(rep: Report) -> None:
    """the validator runs to completion: `self.x` is read only where some class of the hierarchy
    defines x (an entry of an `attributes` table, an assignment to self.x, a method, property or class
    attribute).  Anything else is an AttributeError when the statement runs.  Methods that are only
    called under a test that is false for the argument values the package ever passes (a `depth`
    parameter left at its default) are not judged."""
    from ..index import Index
    rid = 'R18.7'
    pkg = 'dashlive/mpeg/dash/validator'
    idx = Index(rep.repo, 'dashlive/mpeg/dash')
    always = _always_default_params(idx, pkg)
    # methods called only from dead code: fixpoint over by-name edges
    live_calls: set[str] = set()
    funcs = {q: f for q, f in idx.functions.items() if f.rel.startswith(pkg)}
    for q, f in funcs.items():
        dead = _dead_by_default(f.node, always.get(q, {}))
        for n in ast.walk(f.node):
            if isinstance(n, ast.Call) and id(n) not in dead:
                nm = n.func.attr if isinstance(n.func, ast.Attribute) else (
                    n.func.id if isinstance(n.func, ast.Name) else None)
                if nm:
                    live_calls.add(nm)
    n_reads = 0
    for q, c in sorted(idx.classes.items()):
        if not c.rel.startswith(pkg):
            continue
        names: set[str] = set()
        open_world = False
        for k in idx.mro(c):
            if any(b for b in k.ext_bases if b.split('.')[-1] not in ('ABC', 'object', 'Generic', 'Protocol')):
                open_world = True
            names |= set(k.methods) | set(k.attrs)
            for st in k.node.body:
                if isinstance(st, (ast.Assign, ast.AnnAssign)):
                    t = st.targets[0] if isinstance(st, ast.Assign) else st.target
                    if isinstance(t, ast.Name) and t.id == 'attributes' and getattr(st, 'value', None) is not None:
                        for tup in ast.walk(st.value):
                            if isinstance(tup, ast.Tuple) and tup.elts and isinstance(tup.elts[0], ast.Constant) \
                                    and isinstance(tup.elts[0].value, str):
                                names.add(tup.elts[0].value)
            for n in ast.walk(k.node):
                if isinstance(n, ast.Attribute) and isinstance(n.ctx, ast.Store) and isinstance(n.value, ast.Name) \
                        and n.value.id == 'self':
                    names.add(n.attr)
                if isinstance(n, ast.Call) and call_name(n) == 'setattr' and n.args and norm(n.args[0]) == 'self' \
                        and len(n.args) > 1 and isinstance(n.args[1], ast.Constant):
                    names.add(n.args[1].value)
                if isinstance(n, ast.FunctionDef) and n.name == '__getattr__':
                    open_world = True
        if open_world:
            continue
        for mname, f in c.methods.items():
            if mname not in live_calls and not mname.startswith('__'):
                continue                    # never called from live code of the package
            if (c.name, mname) in NOT_REACHED:
                chain_ok = _scte35_chain_is_dead(idx, always)
                if chain_ok:
                    rep.ok(rid, f'{c.rel}::{c.name}.{mname}', 'not reached', NOT_REACHED[(c.name, mname)])
                    continue
            dead = _dead_by_default(f.node, always.get(f.qual, {}))
            for n in ast.walk(f.node):
                if isinstance(n, ast.Attribute) and isinstance(n.ctx, ast.Load) and isinstance(n.value, ast.Name) \
                        and n.value.id == 'self' and id(n) not in dead and not n.attr.startswith('__'):
                    n_reads += 1
                    if n.attr in names:
                        continue
                    rep.fail(rid, f'{c.rel}::{c.name}.{mname}', f'self.{n.attr}',
                             f'`self.{n.attr}` is read but no class of the hierarchy of {c.name} defines `{n.attr}` '
                             '(not in an `attributes` table, never assigned, not a method or property): an '
                             'AttributeError stops the validator when this statement runs', n, file=c.rel)
    if n_reads < 500:
        raise AnalysisError(f'only {n_reads} attribute reads found in the validator package')
    rep.ok(rid, pkg, 'attribute reads resolve', f'{n_reads} reads of self.<name> in live methods')


def r18_8(rep: Report) -> None:
    """the element tree is walked by duck typing: DashElement's recursive walkers call a fixed set of
    methods on every object that some `children()` returns (`for child in self.children(): child.m()`).
    Every class whose instances are put into a list that a `children()` method returns must define
    each of those methods (in its repository class hierarchy); otherwise the walk raises AttributeError
    on any manifest that contains such an element - the validator does not terminate normally."""
    from ..index import Index
    rid = 'R18.8'
    pkg = 'dashlive/mpeg/dash/validator'
    idx = Index(rep.repo, 'dashlive/mpeg/dash')
    base = next((c for c in idx.classes.values() if c.rel == f'{pkg}/dash_element.py' and c.name == 'DashElement'), None)
    if base is None:
        raise AnalysisError('anchor vanished: validator DashElement')
    # the protocol: methods called on the loop variable of `for v in self.children()` in DashElement
    protocol: dict[str, str] = {}
    for mname, f in base.methods.items():
        for loop in ast.walk(f.node):
            if isinstance(loop, (ast.For, ast.comprehension)) and isinstance(loop.target, ast.Name) \
                    and isinstance(loop.iter, ast.Call) and norm(loop.iter.func) == 'self.children':
                scope = loop if isinstance(loop, ast.For) else getattr(loop, '_parent', f.node)
                for c_ in ast.walk(scope):
                    if isinstance(c_, ast.Call) and isinstance(c_.func, ast.Attribute) \
                            and isinstance(c_.func.value, ast.Name) and c_.func.value.id == loop.target.id:
                        protocol.setdefault(c_.func.attr, mname)
    if len(protocol) < 3:
        raise AnalysisError(f'DashElement walkers over children(): only {sorted(protocol)} found')
    by_name: dict[str, list] = {}
    for c in idx.classes.values():
        if c.rel.startswith(pkg):
            by_name.setdefault(c.name, []).append(c)
    n_sites = 0
    for q, c in sorted(idx.classes.items()):
        if not c.rel.startswith(pkg) or 'children' not in c.methods:
            continue
        ch = c.methods['children'].node
        attrs = {n.attr for r in ast.walk(ch) if isinstance(r, ast.Return) and r.value is not None
                 for n in ast.walk(r.value) if isinstance(n, ast.Attribute) and isinstance(n.value, ast.Name)
                 and n.value.id == 'self' and isinstance(n.ctx, ast.Load) and not isinstance(getattr(n, '_parent', None), ast.Call)}
        if not attrs:
            continue
        # every constructor call whose result is stored into one of those attributes, in any class of
        # the hierarchy below and above (the list may be filled by a subclass or a base)
        family = [k for k in idx.mro(c) if k.rel.startswith(pkg)] + [k for k in idx.subclasses(c) if k.rel.startswith(pkg)]
        members: dict[str, ast.AST] = {}
        for k in family:
            for f in k.methods.values():
                for n in ast.walk(f.node):
                    val = None
                    if isinstance(n, (ast.Assign, ast.AugAssign, ast.AnnAssign)) and getattr(n, 'value', None) is not None:
                        tg = n.targets[0] if isinstance(n, ast.Assign) else n.target
                        if isinstance(tg, ast.Attribute) and norm(tg.value) == 'self' and tg.attr in attrs:
                            val = n.value
                    elif isinstance(n, ast.Call) and isinstance(n.func, ast.Attribute) \
                            and n.func.attr in ('append', 'extend', 'insert') \
                            and isinstance(n.func.value, ast.Attribute) and norm(n.func.value.value) == 'self' \
                            and n.func.value.attr in attrs and n.args:
                        val = n.args[-1]
                    if val is None:
                        continue
                    for x in ast.walk(val):
                        if isinstance(x, ast.Call) and isinstance(x.func, ast.Name) and x.func.id in by_name:
                            members.setdefault(x.func.id, x)
        for cname, site in sorted(members.items()):
            for k in by_name[cname]:
                n_sites += 1
                have = set()
                for a_ in idx.mro(k):
                    have |= set(a_.methods)
                external = idx.ext_base_names(k) - {'object', 'ABC', 'Generic'}
                missing = sorted(m for m in protocol if m not in have)
                construct = f'{k.rel}::{k.name}'
                key = f'listed by {c.name}.children()'
                if missing and not external:
                    rep.fail(rid, construct, key,
                             f'{k.name} objects are returned by {c.name}.children() but {k.name} does not define '
                             f'{missing}: DashElement.{protocol[missing[0]]}() calls it on every child, an AttributeError '
                             f'on any manifest where a {c.name} element has child elements', site, file=c.rel)
                else:
                    rep.ok(rid, construct, key, f'defines {sorted(protocol)}')
    if n_sites < 6:
        raise AnalysisError(f'only {n_sites} element classes found behind children() lists')


def r18_9(rep: Report) -> None:
    """decode-time and sequence-number corruptions are found by *chaining*: what a media segment says
    comes next becomes the expectation (`expected_decode_time`, `expected_seg_num`) of its successor.
    In the loop over the media segments the carried values must therefore be renewed from the current
    segment on every iteration that goes on to the next one - whether or not the segment had to be
    fetched in this pass.  A carry renewed only for freshly validated segments leaves the first segment
    fetched after a manifest refresh without a predecessor, and a wrong tfdt / sequence number there is
    reported by nothing."""
    rid = 'R18.9'
    rel = f'{V}/representation.py'
    n_loops = 0
    for _cls, fn in rep.repo.expanded_functions(rel):
        for loop in [n for n in ast.walk(fn) if isinstance(n, (ast.For, ast.AsyncFor))]:
            if 'media_segments' not in norm(loop.iter):
                continue
            elem = [x.id for x in ast.walk(loop.target) if isinstance(x, ast.Name)]
            # the expectations set on the current element and the locals they are read from
            exp_sets = [a_ for a_ in ast.walk(loop) if isinstance(a_, ast.Assign) and isinstance(a_.targets[0], ast.Attribute)
                        and a_.targets[0].attr.startswith('expected_') and isinstance(a_.targets[0].value, ast.Name)
                        and a_.targets[0].value.id in elem]
            if not exp_sets:
                continue
            n_loops += 1
            construct = f'{rel}::{_cls.name + "." if _cls is not None else ""}{fn.name}'
            stored = {x.id for a_ in ast.walk(loop) for t_ in (a_.targets if isinstance(a_, ast.Assign) else
                                                               [a_.target] if isinstance(a_, (ast.AnnAssign, ast.AugAssign)) else [])
                      for x in ast.walk(t_) if isinstance(x, ast.Name) and isinstance(x.ctx, ast.Store)}

            def roots(e: ast.AST, depth: int = 0) -> set[str]:
                """loop-assigned locals an expression is computed from, through locals defined in the loop"""
                out: set[str] = set()
                for x in ast.walk(e):
                    if isinstance(x, ast.Name) and x.id in stored and x.id not in elem:
                        out.add(x.id)
                return out
            carried: set[str] = set()
            for a_ in exp_sets:
                todo = list(roots(a_.value))
                seen: set[str] = set()
                while todo:
                    v = todo.pop()
                    if v in seen:
                        continue
                    seen.add(v)
                    defs = [d.value for d in ast.walk(loop) if isinstance(d, (ast.Assign, ast.AnnAssign))
                            and getattr(d, 'value', None) is not None
                            and norm(d.targets[0] if isinstance(d, ast.Assign) else d.target) == v]
                    from_elem = [d for d in defs if any(isinstance(x, ast.Name) and x.id in elem for x in ast.walk(d))]
                    if from_elem:
                        carried.add(v)          # this local is what is taken over from a segment
                    for d in defs:
                        todo.extend(roots(d))
            if not carried:
                raise AnalysisError(f'{fn.name}: the expectations of a media segment are not derived from its predecessor')

            def exits(stmts: list[ast.stmt], have: frozenset) -> list[tuple[str, frozenset]]:
                """(how the block is left, carried locals renewed from the current segment so far)"""
                cur = [have]
                out: list[tuple[str, frozenset]] = []
                for st in stmts:
                    nxt = []
                    for h in cur:
                        if isinstance(st, ast.If):
                            for kind, h2 in exits(st.body, h) + exits(st.orelse, h):
                                (nxt if kind == 'fall' else out).append(h2 if kind == 'fall' else (kind, h2))
                        elif isinstance(st, (ast.With, ast.AsyncWith)):
                            for kind, h2 in exits(st.body, h):
                                (nxt if kind == 'fall' else out).append(h2 if kind == 'fall' else (kind, h2))
                        elif isinstance(st, ast.Try):
                            res = exits(st.body, h) + [e_ for hd in st.handlers for e_ in exits(hd.body, h)]
                            for kind, h2 in res:
                                if kind == 'fall':
                                    for k3, h3 in exits(st.orelse + st.finalbody, h2):
                                        (nxt if k3 == 'fall' else out).append(h3 if k3 == 'fall' else (k3, h3))
                                else:
                                    out.append((kind, h2))
                        elif isinstance(st, (ast.For, ast.AsyncFor, ast.While)):
                            nxt.append(h)       # what an inner loop assigns is not certain
                        elif isinstance(st, ast.Continue):
                            out.append(('continue', h))
                        elif isinstance(st, (ast.Break, ast.Return, ast.Raise)):
                            out.append(('leave', h))
                        else:
                            h2 = set(h)
                            if isinstance(st, (ast.Assign, ast.AnnAssign)) and getattr(st, 'value', None) is not None:
                                tg = st.targets[0] if isinstance(st, ast.Assign) else st.target
                                if isinstance(tg, ast.Name) and tg.id in carried:
                                    if any(isinstance(x, ast.Name) and x.id in elem for x in ast.walk(st.value)) or \
                                            isinstance(st.value, ast.Constant):
                                        h2.add(tg.id)
                            nxt.append(frozenset(h2))
                    cur = nxt
                return out + [('fall', h) for h in cur]
            res = exits(loop.body, frozenset())
            goes_on = [h for kind, h in res if kind in ('fall', 'continue')]
            for v in sorted(carried):
                key = f'`{v}` renewed on every iteration'
                if goes_on and all(v in h for h in goes_on):
                    rep.ok(rid, construct, key, f'{len(goes_on)} way(s) to the next iteration')
                else:
                    rep.fail(rid, construct, key,
                             f'`{v}` (what the next media segment is checked against) is taken from the current segment '
                             'on some paths of the loop body only: a segment that is skipped - already validated in an '
                             'earlier pass - breaks the chain, and the first segment fetched after a refresh is checked '
                             'against nothing (a wrong decode time or sequence number there goes unreported)', loop)
    if n_loops < 1:
        raise AnalysisError('the loop that chains media segment expectations was not found')


def r18_10(rep: Report) -> None:
    """R18.10  an element of a refreshed manifest is checked like any other: the calls that run an element's own
    checks in `validate()` (`validate_self`, `super().validate()`, `<attribute>.validate()`) are not guarded by
    an attribute that `merge_previous_element` copies from the element of the previous manifest.  A guard on
    carried state (`if not self._validated`, with `_validated` taken over from `prev`) switches the checks off
    for every element that existed before the refresh - a corruption that arrives with the refreshed
    manifest is reported by nothing."""
    rid = 'R18.10'
    classes: dict[str, tuple[str, ast.ClassDef]] = {}
    for rel in rep.repo.py_files(V):
        for c in rep.repo.tree(rel).body:
            if isinstance(c, ast.ClassDef):
                classes[c.name] = (rel, c)

    def lineage(name: str, seen=()) -> list[ast.ClassDef]:
        if name not in classes or name in seen:
            return []
        c = classes[name][1]
        out = [c]
        for b in c.bases:
            bn = b.id if isinstance(b, ast.Name) else (b.attr if isinstance(b, ast.Attribute) else None)
            if bn:
                out += lineage(bn, seen + (name,))
        return out
    n = 0
    for name, (rel, c) in sorted(classes.items()):
        val = find_func(c, 'validate')
        if val is None:
            continue
        carried: dict[str, ast.AST] = {}
        for k in lineage(name):
            mg = find_func(k, 'merge_previous_element')
            if mg is None:
                continue
            prevs = {a.arg for a in mg.args.args[1:]}
            tainted = set(prevs)
            for st in ast.walk(mg):
                if isinstance(st, (ast.Assign, ast.AnnAssign)) and getattr(st, 'value', None) is not None:
                    tgs = st.targets if isinstance(st, ast.Assign) else [st.target]
                    if any(isinstance(x, ast.Name) and x.id in tainted for x in ast.walk(st.value)):
                        for t in tgs:
                            if isinstance(t, ast.Name):
                                tainted.add(t.id)
                            if isinstance(t, ast.Attribute) and norm(t.value) == 'self':
                                carried[t.attr] = st
        if not carried:
            continue
        n += 1
        construct = f'{rel}::{name}.validate'
        bad = None
        aliases: dict[str, str] = {}
        for st in ast.walk(val):
            if isinstance(st, ast.Assign) and len(st.targets) == 1 and isinstance(st.targets[0], ast.Name):
                for x in ast.walk(st.value):
                    if isinstance(x, ast.Attribute) and norm(x.value) == 'self' and x.attr in carried:
                        aliases[st.targets[0].id] = x.attr
        for call in [x for x in ast.walk(val) if isinstance(x, ast.Call) and isinstance(x.func, ast.Attribute)
                     and x.func.attr.startswith('validate')]:
            recv = norm(call.func.value)
            if not (recv in ('self', 'super()') or recv.startswith('self.')):
                continue
            child = call
            for a in _ancestors(call):
                if isinstance(a, (ast.If, ast.While)) and not any(x is child for x in ast.walk(a.test)):
                    for x in ast.walk(a.test):
                        attr = None
                        if isinstance(x, ast.Attribute) and norm(x.value) == 'self' and x.attr in carried:
                            attr = x.attr
                        if isinstance(x, ast.Name) and x.id in aliases:
                            attr = aliases[x.id]
                        # a test of the carried object itself for presence is not a guard on carried state
                        if attr is not None and not recv.startswith(f'self.{attr}'):
                            bad = (call, a, attr)
                if a is val:
                    break
                child = a
            # an early return on carried state in front of the call
            for st in val.body:
                if st.lineno >= call.lineno:
                    break
                if isinstance(st, ast.If) and any(isinstance(b, ast.Return) for b in st.body):
                    for x in ast.walk(st.test):
                        if isinstance(x, ast.Attribute) and norm(x.value) == 'self' and x.attr in carried:
                            # "nothing to iterate over": the guarded call is a helper of this class that only walks the
                            # carried collection the test finds empty (the loop that used to stand here, extracted)
                            t_ = norm(st.test)
                            empty = t_ in (f'len(self.{x.attr}) == 0', f'not self.{x.attr}', f'not len(self.{x.attr})')
                            callee = None
                            if recv == 'self':
                                for k in lineage(name):
                                    callee = callee or find_func(k, call.func.attr, raw=True)
                            walks = callee is not None and any(
                                isinstance(l_, (ast.For, ast.AsyncFor)) and f'self.{x.attr}' in norm(l_.iter) for l_ in ast.walk(callee))
                            if empty and walks:
                                continue
                            bad = (call, st, x.attr)
        if bad is None:
            rep.ok(rid, construct, 'own checks not guarded by carried state', f'carried over a refresh: {sorted(carried)}')
        else:
            call, guard, attr = bad
            rep.fail(rid, construct, 'own checks not guarded by carried state',
                     f'`{short(call, 40)}` runs only under `{short(guard.test, 50)}`, and `self.{attr}` is taken over from the '
                     f'element of the previous manifest (`{short(carried[attr], 50)}`): after a refresh the checks of every '
                     'element that existed before are skipped, so a corruption in the refreshed manifest goes unreported', call)
    rep.extra['classes_with_carried_state'] = n


def r18_13(rep: Report) -> None:
    """R18.13  how far a decode time may be off is decided where the MediaSegment is created (one frame, two for
    the first segment of a live window, half a frame for audio) and handed over as `tolerance`.  The comparison of
    the decode time with its expectation must use that value - `delta=self.tolerance`, directly or through a
    local bound once to it - otherwise corruptions below the other quantity (a whole second, say) pass."""
    from ..core import subst_locals
    rid = 'R18.13'
    rel = f'{V}/media_segment.py'
    tree = rep.repo.tree(rel)
    cls = need(find_class(tree, 'MediaSegment'), 'MediaSegment')
    n = 0
    for _c, fn in rep.repo.expanded_functions(rel):
        if _c is not cls:
            continue
        for call in [x for x in ast.walk(fn) if isinstance(x, ast.Call) and isinstance(x.func, ast.Attribute)
                     and x.func.attr in ('check_almost_equal', 'check_less_than_or_equal', 'check_less_than',
                                         'check_greater_or_equal', 'check_greater_than', 'check_true')]:
            # the forms a tolerance comparison takes: check_almost_equal(a, b, delta=T); a bound on the absolute
            # difference, check_less_than_or_equal(abs(d), T) / check_greater_or_equal(T, abs(d)) / check_true(abs(d) <= T)
            kind = call.func.attr
            delta, none_ok = None, False
            if kind == 'check_almost_equal':
                txt = ' '.join(_expand(fn, a) for a in call.args)
                delta = next((k.value for k in call.keywords if k.arg == 'delta'), call.args[2] if len(call.args) > 2 else None)
                none_ok = True
            else:
                if kind == 'check_true':
                    c = call.args[0] if call.args else None
                    if not (isinstance(c, ast.Compare) and len(c.ops) == 1):
                        continue
                    a, b = c.left, c.comparators[0]
                    if isinstance(c.ops[0], (ast.Gt, ast.GtE)):
                        a, b = b, a
                    elif not isinstance(c.ops[0], (ast.Lt, ast.LtE)):
                        continue
                elif len(call.args) >= 2:
                    a, b = call.args[0], call.args[1]
                    if kind.startswith('check_greater'):
                        a, b = b, a
                else:
                    continue
                txt = _expand(fn, a)
                if 'abs(' not in txt and ' - ' not in txt:      # a difference, signed (R18.12 decides that) or absolute
                    continue
                delta = b
            if 'expected_decode_time' not in txt:
                continue
            n += 1
            construct = f'{rel}::MediaSegment.{fn.name}'
            got = norm(subst_locals(fn, delta, allow_calls=True)) if delta is not None else '(none: exact equality)'
            if (delta is None and none_ok) or got == 'self.tolerance':
                rep.ok(rid, construct, 'decode time compared within the segment tolerance', got)
            else:
                rep.fail(rid, construct, 'decode time compared within the segment tolerance',
                         f'the decode time is compared with its expectation within `{got}`, not within `self.tolerance` - the '
                         'frame-sized tolerance chosen where the segment was created: a decode time that is off by less than '
                         'that other quantity is accepted', call)
    if n == 0:
        raise AnalysisError('MediaSegment: the almost-equal comparison of the decode time was not found')


def r18_11(rep: Report) -> None:
    """R18.11  a gap in a SegmentTimeline is an `S@t` that differs from the running end of the previous entry; the
    validator finds it because the segments it then asks for carry other decode times.  That needs every
    `S@t` to be honoured: on every path through the loop over the S elements on which `t is not None` can
    hold, the running start is set from `t` before the entry is recorded."""
    from ..flow import Disjunctive, Flow
    from ..pathcond import PathCond, f_and, f_not, satisfiable, show as pc_show
    rel = f'{V}/segment_timeline.py'
    tree = rep.repo.tree(rel)
    cls = need(find_class(tree, 'SegmentTimeline'), 'SegmentTimeline')
    fn = need(find_func(cls, '__init__'), 'SegmentTimeline.__init__')
    construct = f'{rel}::SegmentTimeline.__init__'
    tvars = {a.targets[0].id for a in ast.walk(fn) if isinstance(a, ast.Assign) and isinstance(a.targets[0], ast.Name)
             and isinstance(a.value, ast.Call) and (call_name(a.value) or '').endswith('.get')
             and a.value.args and isinstance(a.value.args[0], ast.Constant) and a.value.args[0].value == 't'}
    loop_vars = {x.id for lp in ast.walk(fn) if isinstance(lp, ast.For) for x in ast.walk(lp.target) if isinstance(x, ast.Name)}
    own = {a.targets[0].id for a in ast.walk(fn) if isinstance(a, ast.Assign) and isinstance(a.targets[0], ast.Name)
           and a.targets[0].id in tvars and isinstance(a.value, ast.Call) and isinstance(a.value.func, ast.Attribute)
           and isinstance(a.value.func.value, ast.Name) and a.value.func.value.id in loop_vars}
    if not own:
        raise AnalysisError("SegmentTimeline.__init__: no `<x> = <S element of the loop>.get('t')` found")
    tvar = sorted(own)[0]

    def upd(st, facts):
        # `from-t:<name>`: the name holds a value computed from the S@t of the element at hand.  Reading the
        # attribute starts afresh (what was derived from the previous element's t is not from this one); a name
        # assigned from something else loses the mark - also the variable the attribute was read into
        # (`t = start` after a complaint makes the timeline contiguous again)
        facts = set(facts)
        if isinstance(st, (ast.Assign, ast.AnnAssign, ast.AugAssign)) and getattr(st, 'value', None) is not None:
            tg = st.targets[0] if isinstance(st, ast.Assign) else st.target
            if isinstance(tg, ast.Name):
                v = st.value
                is_source = (isinstance(v, ast.Call) and (call_name(v) or '').endswith('.get') and v.args
                             and isinstance(v.args[0], ast.Constant) and v.args[0].value == 't'
                             and isinstance(v.func, ast.Attribute) and isinstance(v.func.value, ast.Name)
                             and v.func.value.id in loop_vars)
                if is_source:
                    facts = {f for f in facts if not f.startswith('from-t:')} | {f'from-t:{tg.id}'}
                else:
                    tainted = any(isinstance(x, ast.Name) and f'from-t:{x.id}' in facts for x in ast.walk(v))
                    if isinstance(st, ast.AugAssign):
                        tainted = tainted or f'from-t:{tg.id}' in facts
                    facts.discard(f'from-t:{tg.id}')
                    if tainted:
                        facts.add(f'from-t:{tg.id}')
        return facts
    sites: list = []

    def on_stmt(st, states):
        if isinstance(st, (ast.If, ast.While, ast.For, ast.With, ast.Try)):
            return
        for c in ast.walk(st):
            if isinstance(c, ast.Call) and (call_name(c) or '').endswith('SegmentEntry') and c.args and isinstance(c.args[0], ast.Name):
                for x in states:
                    sites.append((c, c.args[0].id, x))
    def decide(test, facts):
        # check_not_none(x) answers `x is not None` (R18.1 reads the family): known where x is known not to be None
        neg = False
        while isinstance(test, ast.UnaryOp) and isinstance(test.op, ast.Not):
            test, neg = test.operand, not neg
        if isinstance(test, ast.Call) and (call_name(test) or '').endswith('.check_not_none') and test.args \
                and isinstance(test.args[0], ast.Name) and f'notnone:{test.args[0].id}' in facts:
            return not neg
        return None
    Flow(Disjunctive(PathCond(upd=upd, decide=decide), cap=256), on_stmt=on_stmt).run(fn, [PathCond.initial()])
    if not sites:
        raise AnalysisError('SegmentTimeline.__init__: no SegmentEntry(<start>, ..) construction reached')
    given = f_not(('atom', f'{tvar} is None'))
    bad = [(c, v, x) for c, v, x in sites if f'from-t:{v}' not in x[2] and satisfiable(f_and(x[0], given))]
    if not bad:
        rep.ok('R18.11', construct, 'every S@t sets the running start', f'{len(sites)} path state(s) at the entry')
    else:
        c, v, x = bad[0]
        rep.fail('R18.11', construct, 'every S@t sets the running start',
                 f'an entry is recorded with `{v}` on a path where `{tvar}` (S@t) can be present but `{v}` was not set from it '
                 f'(path: {pc_show(x[0])[:140]}): a `t` on a later S element - the only way a manifest expresses a gap - is '
                 'ignored, the validator asks for contiguous segments and reports nothing', c)


def analyse(rep: Report) -> None:
    rep.explanation = (
        'Detection side of C18 as an inventory: for each corruption kind of the property the '
        'validator package is searched for a check call whose arguments (expanded through local '
        'definitions and enclosing tests) read every fact a detecting check needs, and whose '
        'receiver is the element that owns the fact. Absence of false positives on server output '
        'and sufficiency of each comparison are not decided.')
    rep.rule('R18.1', 'a check reads the facts needed to detect each corruption kind', floor=20)
    rep.rule('R18.2', 'the detecting check is attached to the element that owns the fact', floor=6)
    rep.rule('R18.3', 'validator while-loops make progress', floor=1)
    rep.rule('R18.4', 'checks on optional numeric expectations are guarded by `is not None`', floor=3)
    rep.rule('R18.5', 'errors are cleared only after they were archived in the validation history', floor=1)
    rep.rule('R18.6', 'super() calls in the validator pass arguments the inherited method accepts', floor=10)
    rep.rule('R18.7', 'attributes read from self are defined somewhere in the class hierarchy', floor=1)
    rep.rule('R18.8', 'every class listed by a children() method defines what the tree walkers call', floor=6)
    rep.rule('R18.9', 'the expectation chained from one media segment to the next is renewed on every iteration', floor=1)
    rep.rule('R18.10', 'an element\'s own checks are not switched off by state carried over a manifest refresh', floor=1)
    rep.rule('R18.11', 'every S@t of a SegmentTimeline sets the running start (a gap is visible)', floor=1)
    rep.rule('R18.12', 'an expectation that is an equality is checked on both sides', floor=5)
    rep.rule('R18.13', 'the decode time is compared within the tolerance the segment was created with', floor=1)
    r18_1_2(rep)
    r18_3(rep)
    r18_4(rep)
    r18_5(rep)
    r18_6(rep)
    r18_7(rep)
    r18_8(rep)
    r18_9(rep)
    r18_10(rep)
    r18_11(rep)
    r18_13(rep)

"""C10 - init segments carry exactly the requested protection data.

R10.1  mutation inventory of generate_init_segment: between load_fragment() and
       encode() the atom tree is changed by exactly
         * atom.moov.append_child(pssh)  under representation.encrypted, inside the
           loop over the DrmContext, under `drm.moov is not None`
         * del atom.moov.mvex.mehd           under mode == 'live'
       anything else (another edit call, attribute store, weaker guard) is reported.
R10.2  every init-segment route reaches generate_init_segment and nothing else
       on those handlers encodes an atom.
R10.3  location gating: a DRM system hands out a `moov` generator only under
       `DrmLocation.MOOV in locations`; Marlin hands out none.
R10.4  the fragment is loaded read-write and the pssh is built for the
       representation's default KID from the representation's key ids.
"""
from __future__ import annotations

import ast

from ..core import (AnalysisError, Report, call_name, dotted, find_class, find_func, need,
                    norm, short, ancestors, enclosing_function)
from ..index import Index

MR = 'dashlive/server/requesthandler/media_requests.py'
EDIT_CALLS = {'append_child', 'insert_child', 'remove_child', 'replace_child', 'remove_descriptor',
              'insert', 'append', 'remove', 'pop', 'extend', 'clear', 'update_size', 'set_children'}


def guards_of(node: ast.AST, fn: ast.AST) -> list[str]:
    out = []
    child = node
    for a in ancestors(node):
        if isinstance(a, ast.If):
            in_body = any(child is b for b in a.body)
            out.append(norm(a.test) if in_body else f'not ({norm(a.test)})')
        elif isinstance(a, ast.For):
            out.append(f'for {norm(a.target)} in {norm(a.iter)}')
        elif isinstance(a, ast.Try):
            pass
        if a is fn:
            break
        child = a
    return list(reversed(out))


def r10_1(rep: Report) -> None:
    rid = 'R10.1'
    tree = rep.repo.tree(MR)
    cls = need(find_class(tree, 'MediaRequestBase'), 'MediaRequestBase')
    fn = need(find_func(cls, 'generate_init_segment'), 'generate_init_segment')
    c = f'{MR}::MediaRequestBase.generate_init_segment'
    load = [n for n in ast.walk(fn) if isinstance(n, ast.Assign) and isinstance(n.value, ast.Call)
            and call_name(n.value) == 'self.load_fragment']
    enc = [n for n in ast.walk(fn) if isinstance(n, ast.Call) and call_name(n) == 'atom.encode']
    if len(load) != 1 or len(enc) != 1 or norm(load[0].targets[0]) != 'atom':
        raise AnalysisError('generate_init_segment: load_fragment/encode idiom not recognised')
    import re
    from ..pathcond import PathCond, atoms_of, entails as pc_entails, satisfiable, f_and, show as pc_show
    from ..flow import Disjunctive, Flow
    atom = norm(load[0].targets[0])
    seen: set[str] = set()

    def gen(st):
        out = []
        if st is load[0]:
            out.append('loaded')
        if any(c_ is enc[0] for c_ in ast.walk(st)):
            out.append('encoded')
        if isinstance(st, ast.Delete) and any(norm(t) == MEHD_PATH.format(atom=atom) for t in st.targets):
            out.append('mehd-deleted')
        # `try: del atom.moov.mehd  except AttributeError: ...` - the handler path is "there was no mehd"
        h = getattr(st, '_parent', None)
        if isinstance(h, ast.ExceptHandler) and h.type is not None and 'AttributeError' in norm(h.type):
            tr = getattr(h, '_parent', None)
            if isinstance(tr, ast.Try) and any(
                    isinstance(d, ast.Delete) and any(norm(t) == MEHD_PATH.format(atom=atom) for t in d.targets)
                    for b_ in tr.body for d in ast.walk(b_)):
                out.append('mehd-deleted')
        return out

    def loop_of(node):
        for a_ in ancestors(node):
            if isinstance(a_, ast.For):
                return a_
            if a_ is fn:
                break
        return None

    def pssh_ok(n: ast.Call, states) -> tuple[bool, str]:
        lp = loop_of(n)
        if lp is None or not isinstance(lp.target, ast.Name):
            return False, 'the append is not inside a loop over the DRM context'
        loopvar = lp.target.id
        it = lp.iter
        if isinstance(it, ast.Name):
            ds = [a_ for a_ in ast.walk(fn) if isinstance(a_, ast.Assign) and norm(a_.targets[0]) == it.id]
            it = ds[0].value if len(ds) == 1 else it
        if isinstance(lp.iter, ast.Name) and not (isinstance(it, ast.Call) and call_name(it) == 'DrmContext'):
            # two phases: hooks = [d.moov for d in DrmContext(..) if d.moov is not None] under the
            # encryption test (an empty list otherwise), then one pssh per hook
            ds = [a_ for a_ in ast.walk(fn) if isinstance(a_, (ast.Assign, ast.AnnAssign))
                  and getattr(a_, 'value', None) is not None
                  and norm(a_.targets[0] if isinstance(a_, ast.Assign) else a_.target) == lp.iter.id]
            comps = [a_ for a_ in ds if isinstance(a_.value, ast.ListComp)]
            empties = [a_ for a_ in ds if isinstance(a_.value, (ast.List, ast.Tuple)) and not a_.value.elts]
            if len(comps) == 1 and len(comps) + len(empties) == len(ds):
                comp = comps[0].value
                g = comp.generators[0] if len(comp.generators) == 1 else None
                if g is not None and isinstance(g.target, ast.Name) and isinstance(g.iter, ast.Call) \
                        and call_name(g.iter) == 'DrmContext' and norm(comp.elt) == f'{g.target.id}.moov' \
                        and any(norm(i_) == f'{g.target.id}.moov is not None' for i_ in g.ifs):
                    guarded = any(isinstance(a_, ast.If) and re.fullmatch(r'\w+\.encrypted', norm(a_.test))
                                  and any(comps[0] is b_ or any(comps[0] is y for y in ast.walk(b_)) for b_ in a_.body)
                                  for a_ in ancestors(comps[0]))
                    arg = n.args[0]
                    src = arg
                    if isinstance(arg, ast.Name):
                        d2 = [a_ for a_ in ast.walk(lp) if isinstance(a_, ast.Assign) and norm(a_.targets[0]) == arg.id]
                        src = d2[0].value if len(d2) == 1 else None
                    if not guarded:
                        return False, 'the list of moov hooks is filled outside the encryption test of the representation'
                    if src is None or not re.fullmatch(rf'{loopvar}\(\w+\.default_kid\)', norm(src)):
                        return False, f'the appended child is not `{loopvar}(<representation>.default_kid)`'
                    return True, ''
        if not (isinstance(it, ast.Call) and call_name(it) == 'DrmContext'):
            return False, f'the loop iterates `{norm(lp.iter)}`, not a DrmContext(...)'
        arg = n.args[0]
        src = arg
        if isinstance(arg, ast.Name):
            ds = [a_ for a_ in ast.walk(lp) if isinstance(a_, ast.Assign) and norm(a_.targets[0]) == arg.id]
            src = ds[0].value if len(ds) == 1 else None
        src_text = norm(src) if src is not None else ''
        if isinstance(src, ast.Call) and isinstance(src.func, ast.Name):
            # the hook kept in a local first: create_pssh = drm.moov
            fd = [a_.value for a_ in ast.walk(lp) if isinstance(a_, ast.Assign) and norm(a_.targets[0]) == src.func.id]
            if len(fd) == 1:
                src_text = norm(fd[0]) + src_text[len(src.func.id):]
        if src is None or not re.fullmatch(rf'{loopvar}\.moov\([\w.]+\.default_kid\)', src_text):
            return False, f'the appended child is not `{loopvar}.moov(<representation>.default_kid)`'
        for x in states:
            ats = atoms_of(x[0])
            encs = [t for t in ats if re.fullmatch(r'[\w.]+\.encrypted', t)]
            if not encs or pc_entails(x[0], ('atom', encs[0])) is not True:
                return False, 'a path to the append does not imply the encryption test of the representation'
            if pc_entails(x[0], ('not', ('atom', f'{loopvar}.moov is None'))) is not True:
                return False, f'a path to the append does not imply `{loopvar}.moov is not None`'
        return True, ''

    live_atoms: set[str] = set()

    def on_stmt(st, states):
        if isinstance(st, (ast.If, ast.While, ast.For, ast.With, ast.Try)):
            return
        states = [x for x in states if 'loaded' in x[2] and 'encoded' not in x[2]]
        if not states:
            if any(c_ is enc[0] for c_ in ast.walk(st)):
                pass
            else:
                return
        for n in ast.walk(st):
            mut = None
            kind = None
            if isinstance(n, ast.Call) and isinstance(n.func, ast.Attribute) and n.func.attr in EDIT_CALLS \
                    and norm(n.func.value).startswith(atom):
                mut = norm(n)
                if n.func.attr == 'append_child' and norm(n.func.value) == f'{atom}.moov' and len(n.args) == 1:
                    kind = 'pssh'
            elif isinstance(n, ast.Delete) and any(norm(t).startswith(atom) for t in n.targets):
                mut = norm(n)
                if len(n.targets) == 1 and norm(n.targets[0]) == MEHD_PATH.format(atom=atom):
                    kind = 'mehd'
            elif isinstance(n, (ast.Assign, ast.AugAssign)):
                tg = n.targets if isinstance(n, ast.Assign) else [n.target]
                if any(norm(t).startswith(atom + '.') or norm(t).startswith(atom + '[') for t in tg):
                    mut = norm(n)
            if mut is None or not states:
                continue
            if kind == 'pssh':
                seen.add('pssh')
                ok, why = pssh_ok(n, states)
                if ok:
                    rep.ok(rid, c, 'moov.append_child(pssh)')
                else:
                    rep.fail(rid, c, 'moov.append_child(pssh)',
                             f'`{mut}`: {why}; a pssh may only be appended for an encrypted track, per '
                             'selected DRM system, when that system has a moov hook', n)
            elif kind == 'mehd':
                seen.add('mehd')
                bad = None
                for x in states:
                    lives = [t for t in atoms_of(x[0]) if re.fullmatch(r"\w+ == 'live'", t)]
                    live_atoms.update(lives)
                    if not lives or pc_entails(x[0], ('atom', lives[0])) is not True:
                        bad = x
                if bad is None:
                    rep.ok(rid, c, 'del moov.mehd', 'only in live mode')
                else:
                    rep.fail(rid, c, 'del moov.mehd',
                             f"`{mut}` is performed on a path that does not imply live mode "
                             f"({pc_show(bad[0])[:100]}); mehd may only be removed in live mode", n)
            else:
                rep.fail(rid, c, mut,
                         f'`{mut}` changes the init segment tree; only a pssh append per DRM with a moov '
                         'hook and the removal of mehd in live mode are allowed', n)

    encode_states: list = []

    def on_stmt2(st, states):
        on_stmt(st, states)
        if not isinstance(st, (ast.If, ast.While, ast.For, ast.With, ast.Try)) \
                and any(c_ is enc[0] for c_ in ast.walk(st)):
            encode_states.extend(states)
    Flow(Disjunctive(PathCond(gen=gen, attr_alias=True), cap=512), on_stmt=on_stmt2).run(fn, [PathCond.initial()])
    # in live mode the mehd box is removed on every path to the encoder
    if 'mehd' in seen and live_atoms:
        la = sorted(live_atoms)[0]
        missed = [x for x in encode_states if 'mehd-deleted' not in x[2]
                  and satisfiable(f_and(x[0], ('atom', la)))]
        if missed:
            rep.fail(rid, c, 'mehd removed whenever live',
                     f'a path reaches atom.encode() in live mode without removing mehd '
                     f'({pc_show(missed[0][0])[:100]})', enc[0])
        else:
            rep.ok(rid, c, 'mehd removed whenever live')
    for m in ('pssh', 'mehd'):
        if m not in seen:
            rep.fail(rid, c, f'missing:{m}', f'the expected `{m}` edit is no longer performed', fn)
    rep.ok(rid, c, 'inventory complete', f'{len(seen)} edits between load_fragment and encode')
    hi = enc[0].lineno
    # the response body is exactly atom.encode()
    ret = [n for n in ast.walk(fn) if isinstance(n, ast.Return) and n.lineno > hi]
    body_var = next((norm(n.targets[0]) for n in ast.walk(fn) if isinstance(n, ast.Assign)
                     and norm(n.value) == f'{atom}.encode()'), None)
    body_ok = body_var is not None and any(
        isinstance(r.value, ast.Call) and r.value.args and isinstance(r.value.args[0], ast.Tuple)
        and norm(r.value.args[0].elts[0]) == body_var and norm(r.value.args[0].elts[1]) == '200'
        for r in ret)
    if body_ok:
        rep.ok(rid, c, 'body is atom.encode()')
    else:
        rep.fail(rid, c, 'body is atom.encode()', 'response body is not the encoded atom tree', fn)


def r10_2(rep: Report) -> None:
    rid = 'R10.2'
    tree = rep.repo.tree(MR)
    for cname in ('LiveMedia', 'ServeMpsInitSeg'):
        cls = need(find_class(tree, cname), cname)
        get = need(find_func(cls, 'get'), f'{cname}.get')
        c = f'{MR}::{cname}.get'
        calls = [n for n in ast.walk(get) if isinstance(n, ast.Call)
                 and call_name(n) == 'self.generate_init_segment']
        if len(calls) == 1:
            g = guards_of(calls[0], get)
            if cname == 'LiveMedia':
                if g == ["segment_num == 'init'"]:
                    rep.ok(rid, c, 'init -> generate_init_segment')
                else:
                    rep.fail(rid, c, 'init -> generate_init_segment',
                             f'generate_init_segment is called under {g}', calls[0])
            else:
                rep.ok(rid, c, 'init -> generate_init_segment')
        else:
            rep.fail(rid, c, 'init -> generate_init_segment',
                     'init route does not call generate_init_segment exactly once', get)
        others = [n for n in ast.walk(get) if isinstance(n, ast.Call)
                  and isinstance(n.func, ast.Attribute) and n.func.attr == 'encode'
                  and 'atom' in norm(n.func.value)]
        if others:
            rep.fail(rid, c, 'no second encoder', 'the handler encodes atoms itself', others[0])
        else:
            rep.ok(rid, c, 'no second encoder')


def _shrinks(e: ast.AST) -> bool:
    """an expression that can turn a non-empty set into an empty one"""
    for n in ast.walk(e):
        if isinstance(n, ast.BinOp) and isinstance(n.op, (ast.Sub, ast.BitAnd)):
            return True
        if isinstance(n, ast.Call) and isinstance(n.func, ast.Attribute) and n.func.attr in (
                'difference', 'intersection', 'difference_update', 'intersection_update', 'discard', 'remove', 'clear', 'pop'):
            return True
        if isinstance(n, (ast.SetComp, ast.ListComp, ast.GeneratorExp)) and any(g.ifs for g in n.generators):
            return True
        if isinstance(n, ast.Call) and call_name(n) in ('set', 'frozenset') and not n.args:
            return True
        if isinstance(n, ast.Call) and call_name(n) == 'filter':
            return True
    return False


def empty_location_set_possible(rep: Report) -> ast.AST | None:
    """a statement between the drm option and the DRM systems that can leave a requested location set empty
    (the option parser builds one location per listed name, so the sets it makes have at least one member)"""
    for rel, cname, fname in (('dashlive/server/requesthandler/drm_context.py', 'DrmContext', 'generate_drm_location_tuples'),
                              ('dashlive/server/requesthandler/drm_context.py', 'DrmContext', '__init__'),
                              ('dashlive/server/options/drm_options.py', None, '_drm_selection_from_string')):
        tree = rep.repo.tree(rel)
        scope = find_class(tree, cname) if cname else tree
        fn = find_func(scope, fname) if scope is not None else None
        if fn is None:
            continue
        for st in ast.walk(fn):
            if isinstance(st, (ast.Assign, ast.AnnAssign, ast.AugAssign)):
                tg = st.targets if isinstance(st, ast.Assign) else [st.target]
                if any(isinstance(t, ast.Name) and 'loc' in t.id.lower() for t in tg):
                    if isinstance(st, ast.AugAssign) and isinstance(st.op, (ast.Sub, ast.BitAnd)):
                        return st
                    if getattr(st, 'value', None) is not None and _shrinks(st.value):
                        return st
            if isinstance(st, ast.Expr) and isinstance(st.value, ast.Call) and isinstance(st.value.func, ast.Attribute) \
                    and 'loc' in norm(st.value.func.value).lower() and _shrinks(st.value):
                return st
            if isinstance(st, ast.Call) and call_name(st) and call_name(st).endswith('.append'):
                for a in st.args:
                    if isinstance(a, ast.Tuple) and any(_shrinks(x) for x in a.elts):
                        return st
    return None


def location_gating(rep: Report, rid: str) -> None:
    """shared with C11"""
    for rel, cname, expect in (
            ('dashlive/drm/playready.py', 'PlayReady',
             {'moov': ['DrmLocation.MOOV in locations'], 'pro': ['DrmLocation.PRO in locations'],
              'cenc': ['DrmLocation.CENC in locations and version > 1.0']}),
            ('dashlive/drm/clearkey.py', 'ClearKey',
             {'moov': ['DrmLocation.MOOV in locations'], 'cenc': ['DrmLocation.CENC in locations'],
              'pro': None}),
            ('dashlive/drm/marlin.py', 'Marlin', {'moov': None, 'cenc': None, 'pro': None})):
        tree = rep.repo.tree(rel)
        cls = need(find_class(tree, cname), cname)
        fn = need(find_func(cls, 'generate_manifest_context'), f'{cname}.generate_manifest_context')
        c = f'{rel}::{cname}.generate_manifest_context'
        ctor = [n for n in ast.walk(fn) if isinstance(n, ast.Call)
                and call_name(n) == 'DrmManifestContext']
        if len(ctor) != 1:
            raise AnalysisError(f'{cname}: DrmManifestContext(...) construction not found')
        kws = {k.arg: k.value for k in ctor[0].keywords}
        from ..pathcond import PathCond, entails as pc_entails, parse as pc_parse, show as pc_show
        from ..flow import Disjunctive, Flow
        tracked = {getattr(kws.get(loc), 'id', None): loc for loc in expect if isinstance(kws.get(loc), ast.Name)}

        def upd(st, facts, _tracked=tracked):
            tgt = val = None
            if isinstance(st, ast.Assign) and len(st.targets) == 1:
                tgt, val = st.targets[0], st.value
            elif isinstance(st, ast.AnnAssign):
                tgt, val = st.target, st.value
            if isinstance(tgt, ast.Name) and tgt.id in _tracked and val is not None:
                facts = frozenset(f for f in facts if not f.startswith(f'val:{tgt.id}='))
                kind = 'None' if isinstance(val, ast.Constant) and val.value is None else norm(val)
                facts = facts | {f'val:{tgt.id}={kind}'}
            return facts
        at_ctor: list = []

        rebinds: list = []

        def on_stmt(st, states, _ctor=ctor[0]):
            if isinstance(st, (ast.If, ast.While, ast.For, ast.With, ast.Try)):
                return
            if any(x_ is _ctor for x_ in ast.walk(st)):
                at_ctor.extend(states)
            # the requested location set is replaced (a default, a filtered copy ...)
            tg = st.targets if isinstance(st, ast.Assign) else ([st.target] if isinstance(st, (ast.AnnAssign, ast.AugAssign)) else [])
            if any(isinstance(t, ast.Name) and t.id == 'locations' for t in tg):
                rebinds.extend((st, x_) for x_ in states)
        Flow(Disjunctive(PathCond(upd=upd), cap=512), on_stmt=on_stmt).run(fn, [PathCond.initial()])
        if not at_ctor:
            raise AnalysisError(f'{cname}: DrmManifestContext(...) is not reached')
        # the requested locations are replaced by the system's default only when none were given: an EMPTY
        # request (every requested location filtered away, `drm=clearkey-pro`) is a request for nothing
        if rebinds:
            none_given = ('atom', 'locations is None')
            wrong = [(st_, x_) for st_, x_ in rebinds if pc_entails(x_[0], none_given) is not True]
            shrink = empty_location_set_possible(rep) if wrong else None
            if wrong and shrink is None:
                rep.ok(rid, c, 'locations replaced only when None',
                       'replaced on a path that does not imply `locations is None`, but nothing between the drm option and '
                       'the DRM systems can empty a requested set')
            elif wrong:
                rep.fail(rid, c, 'locations replaced only when None',
                         f'`{short(wrong[0][0], 60)}` replaces the requested location set on a path that does not imply '
                         f'`locations is None` (path: {pc_show(wrong[0][1][0])[:100]}): an empty request gets the '
                         f'default locations, and `{short(shrink, 60)}` (line {shrink.lineno}) can empty a requested set: pssh data '
                         'appears where none was asked for', wrong[0][0])
            else:
                rep.ok(rid, c, 'locations replaced only when None', f'{len(rebinds)} path(s)')
        gens: dict[str, set[str]] = {}
        for loc, want in expect.items():
            v = kws.get(loc)
            if v is None:
                rep.fail(rid, c, loc, f'DrmManifestContext(...) has no `{loc}`', ctor[0])
                continue
            if want is None:
                if isinstance(v, ast.Constant) and v.value is None:
                    rep.ok(rid, c, loc, 'constant None')
                else:
                    rep.fail(rid, c, loc,
                             f'{cname} defines no {loc} data but passes `{norm(v)}`', v)
                continue
            if not isinstance(v, ast.Name):
                rep.fail(rid, c, loc, f'`{loc}={norm(v)}` is not a gated local', v)
                continue
            goal = pc_parse(ast.parse(want[0], mode='eval').body)
            bad = None
            missing = None
            from ..pathcond import satisfiable as _sat, f_and as _f_and
            for x in at_ctor:
                kinds = [f.split('=', 1)[1] for f in x[2] if f.startswith(f'val:{v.id}=')]
                kind = kinds[0] if kinds else 'unassigned'
                if kind == 'None':
                    if _sat(_f_and(x[0], goal)):
                        missing = x
                    continue
                gens.setdefault(loc, set()).add(kind)
                if kind == 'unassigned' or pc_entails(x[0], goal) is not True:
                    bad = (kind, x)
            if missing is not None:
                rep.fail(rid, c, f'{loc} whenever requested',
                         f'the `{loc}` generator stays None on a path where {want} can hold '
                         f'(path condition: {pc_show(missing[0])[:120]}): a selected location gets no protection data',
                         fn)
            else:
                rep.ok(rid, c, f'{loc} whenever requested')
            if bad is None:
                rep.ok(rid, c, loc, f'non-None only under {want}')
            else:
                rep.fail(rid, c, loc,
                         f'the `{loc}` generator is `{bad[0]}` on a path that does not imply {want} '
                         f'(path condition: {pc_show(bad[1][0])[:120]}); it must only be enabled under {want}', fn)
        # moov and cenc share one generator
        if expect.get('moov') and expect.get('cenc'):
            gm, gc = gens.get('moov', set()), gens.get('cenc', set())
            if gm == gc and gm:
                rep.ok(rid, c, 'cenc and moov share the generator', str(sorted(gm)))
            else:
                rep.fail(rid, c, 'cenc and moov share the generator',
                         f'manifest pssh generator {sorted(gc)} differs from the init '
                         f'segment generator {sorted(gm)}', fn)


def load_fragment_facts(lf: ast.FunctionDef) -> dict:
    """what load_fragment hands to mp4.Options and to the BufferedReader window, as terms
    (sa/termeval.py): keyword arguments written out or collected in a dict and passed with **"""
    from ..termeval import Opaque, TermEval
    ev = TermEval({})
    modes: set = set()
    windows: list[tuple[str, str]] = []

    def text(v):
        return v.text if isinstance(v, Opaque) else repr(v)

    def kwargs_of(call, env) -> dict:
        out = {}
        for k in call.keywords:
            if k.arg is None:
                v = ev.eval(k.value, env)
                if isinstance(v, dict):
                    out.update(v)
                else:
                    out['**'] = v
            else:
                out[k.arg] = ev.eval(k.value, env)
        return out

    def observe(call, env):
        cn = (call_name(call) or '')
        if cn.endswith('Options') and cn.split('.')[-1] == 'Options':
            modes.add(kwargs_of(call, env).get('mode', None))
        elif cn.split('.')[-1] == 'BufferedReader':
            kw = kwargs_of(call, env)
            windows.append((text(kw.get('offset')), text(kw.get('size'))))
    ev.observe = observe
    ev.run(lf, {})
    return {'modes': modes, 'windows': windows}


def r10_4(rep: Report) -> None:
    rid = 'R10.4'
    tree = rep.repo.tree(MR)
    cls = need(find_class(tree, 'MediaRequestBase'), 'MediaRequestBase')
    lf = need(find_func(cls, 'load_fragment'), 'load_fragment')
    c = f'{MR}::MediaRequestBase.load_fragment'
    facts = load_fragment_facts(lf)
    if facts['modes'] == {'rw'}:
        rep.ok(rid, c, "mode='rw'")
    else:
        rep.fail(rid, c, "mode='rw'", f'fragments are not loaded read-write (mode {sorted(map(str, facts["modes"]))})', lf)
    seg = 'media.representation.segments[seg_index]'
    if facts['windows'] and all(w == (f'{seg}.pos', f'{seg}.size') for w in facts['windows']):
        rep.ok(rid, c, 'window is the stored segment')
    else:
        rep.fail(rid, c, 'window is the stored segment',
                 f'the fragment window is not (frag.pos, frag.size) of segments[seg_index]: {facts["windows"]}', lf)
    fn = need(find_func(cls, 'generate_init_segment'), 'generate_init_segment')
    c2 = f'{MR}::MediaRequestBase.generate_init_segment'
    t = norm(fn)
    if 'self.load_fragment(media, 0, options)' in t:
        rep.ok(rid, c2, 'segment index 0')
    else:
        rep.fail(rid, c2, 'segment index 0', 'init segment is not stored segment 0', fn)
    if 'models.Key.get_kids(representation.kids)' in t and 'DrmContext(current_stream, keys, options)' in t:
        rep.ok(rid, c2, 'keys = representation.kids')
    else:
        rep.fail(rid, c2, 'keys = representation.kids',
                 'the pssh key set is not looked up from the representation key ids', fn)


def r10_5(rep: Report) -> None:
    """the drm= parser gives every listed system its own location set: no value assigned on
    only some paths of one list item may be read for the next item"""
    from ..idioms import partial_defs_in_loops
    rel = 'dashlive/server/options/drm_options.py'
    tree = rep.repo.tree(rel)
    fn = need(find_func(tree, '_drm_selection_from_string'), f'{rel}::_drm_selection_from_string')
    construct = f'{rel}::_drm_selection_from_string'
    loops, found = partial_defs_in_loops(fn)
    if loops == 0:
        raise AnalysisError('_drm_selection_from_string no longer iterates over the listed systems')
    if not found:
        rep.ok('R10.5', construct, 'per-item state', f'{loops} loop(s): every per-item value is assigned on all paths before use')
    for loop, var, use in found:
        rep.fail('R10.5', construct, f'per-item state:{var}',
                 f'`{var}` is assigned on some paths of one list item only and read at line {use.lineno}: '
                 'an entry without its own value inherits the previous entry\'s (e.g. '
                 '`drm=playready-cenc,clearkey` gives clearkey the location set {cenc})', use)
    # .. and every item is decided from the item: nothing inside the loop reads the whole option text
    from ..idioms import whole_reads_in_item_loops
    n_split, whole = whole_reads_in_item_loops(fn)
    if n_split == 0:
        raise AnalysisError('_drm_selection_from_string: the loop over the pieces of the option text was not found')
    if not whole:
        rep.ok('R10.5', construct, 'items decided from the item', f'{n_split} loop(s) over the pieces of the option text')
    for loop, base, use in whole:
        rep.fail('R10.5', construct, f'items decided from the item:{base}',
                 f'inside the loop over `{norm(loop.iter)}` the whole text `{base}` is read (`{short(getattr(use, "_parent", use), 60)}`): '
                 'what one listed system gets depends on how the others are written (e.g. `drm=playready-pro,clearkey` '
                 'gives clearkey no location at all, or all of them, because another item has a `-`)', use)


# where the MovieExtendsHeaderBox lives (ISO/IEC 14496-12 8.8.2: mehd is a child of mvex); a deletion by
# any other path finds nothing - R10.6 checks every box path against the containment table below
MEHD_PATH = '{atom}.moov.mvex.mehd'

# ISO/IEC 14496-12 containment of the boxes the server's code reaches by attribute path (the parser
# is generic: `a.b` on a box looks for a *direct* child of type b and raises AttributeError otherwise)
BOX_CHILDREN: dict[str, set[str]] = {
    'moov': {'mvhd', 'trak', 'mvex', 'udta', 'pssh', 'meta', 'iods'},
    'mvex': {'mehd', 'trex', 'leva'},
    'trak': {'tkhd', 'tref', 'edts', 'mdia', 'udta', 'meta'},
    'mdia': {'mdhd', 'hdlr', 'minf', 'elng'},
    'minf': {'vmhd', 'smhd', 'hmhd', 'sthd', 'nmhd', 'dinf', 'stbl'},
    'stbl': {'stsd', 'stts', 'ctts', 'stsc', 'stsz', 'stz2', 'stco', 'co64', 'stss', 'sgpd', 'sbgp', 'saiz',
             'saio', 'subs'},
    'moof': {'mfhd', 'traf', 'pssh', 'meta'},
    'traf': {'tfhd', 'tfdt', 'trun', 'sbgp', 'sgpd', 'subs', 'saiz', 'saio', 'senc', 'uuid'},
    'sinf': {'frma', 'schm', 'schi'},
    'schi': {'tenc', 'uuid'},
    'edts': {'elst'},
    'dinf': {'dref'},
}


def r10_6(rep: Report) -> None:
    """box paths in the server code name direct children: `x.moov.mehd` asks moov for a direct child
    `mehd`, which ISO/IEC 14496-12 places in mvex - the lookup raises AttributeError, and a
    `del` under `except AttributeError: pass` silently removes nothing."""
    rid = 'R10.6'
    mp4 = rep.repo.tree('dashlive/mpeg/mp4.py')
    registered: set[str] = set()
    for n in ast.walk(mp4):
        if isinstance(n, ast.ClassDef):
            for d in n.decorator_list:
                if isinstance(d, ast.Call) and call_name(d) == 'fourcc' and d.args \
                        and isinstance(d.args[0], ast.Constant):
                    registered.add(d.args[0].value)
    known = registered | set(BOX_CHILDREN) | {c for v in BOX_CHILDREN.values() for c in v}
    if len(registered) < 30:
        raise AnalysisError('box registry (@fourcc) not found in mp4.py')
    n_paths = 0
    for rel in rep.repo.py_files('dashlive'):
        if rel.startswith('dashlive/mpeg/mp4') or '/migrations/' in rel:
            continue
        tree = rep.repo.tree(rel)
        for n in ast.walk(tree):
            if not (isinstance(n, ast.Attribute) and isinstance(n.value, ast.Attribute)):
                continue
            parent_, child = n.value.attr, n.attr
            if parent_ in BOX_CHILDREN and child in known and child not in ('parent', 'children'):
                n_paths += 1
                fn = enclosing_function(n)
                construct = f'{rel}::{fn.name if fn is not None else "<module>"}'
                if child in BOX_CHILDREN[parent_]:
                    rep.ok(rid, construct, f'{parent_}.{child}')
                else:
                    home = sorted(p_ for p_, cs in BOX_CHILDREN.items() if child in cs)
                    rep.fail(rid, construct, f'{parent_}.{child}',
                             f'`{norm(n)}` looks for a direct child `{child}` of `{parent_}`, but ISO/IEC 14496-12 '
                             f'places {child} in {home or "another container"}: the lookup raises AttributeError '
                             '(a deletion guarded by `except AttributeError` removes nothing)', n, file=rel)
    if n_paths < 10:
        raise AnalysisError(f'only {n_paths} box paths found in the server code')


_KEY_IDENTITY_CALLS = {'KeyMaterial', 'binascii.a2b_hex', 'binascii.unhexlify', 'bytes.fromhex', 'bytes', 'a2b_hex',
                       'unhexlify', 'list', 'tuple', 'sorted'}
_KEY_IDENTITY_ATTRS = {'raw', 'KID', 'kid', 'hex'}


def _not_identity(e: ast.AST) -> ast.AST | None:
    """the first sub-expression that can change the bytes of a key id (anything but KeyMaterial(..).raw,
    hex <-> bytes conversions and attribute reads of the key tuple), or None"""
    if isinstance(e, (ast.Name, ast.Constant)):
        return None
    if isinstance(e, ast.Attribute):
        if e.attr not in _KEY_IDENTITY_ATTRS:
            return e
        return _not_identity(e.value)
    if isinstance(e, ast.Call):
        cn = call_name(e) or ''
        if cn not in _KEY_IDENTITY_CALLS and not (isinstance(e.func, ast.Attribute) and e.func.attr in ('keys', 'values')):
            return e
        for a in list(e.args) + [k.value for k in e.keywords]:
            bad = _not_identity(a)
            if bad is not None:
                return bad
        if isinstance(e.func, ast.Attribute) and e.func.attr in ('keys', 'values'):
            return _not_identity(e.func.value)
        return None
    if isinstance(e, ast.Subscript):
        return e if isinstance(e.slice, ast.Slice) else _not_identity(e.value)
    return e


def pssh_without_key_ids(rep: Report, rid: str) -> None:
    """a pssh box that lists no key ids (the version 0 form) is only right for a key set of at most one key - with
    two or more keys the box has to name them (version 1).  For every construction of a ContentProtectionSpecificBox
    in the DRM package whose `key_ids` is the empty list on a path, the comparisons of that path bound
    `len(<key set>)` by 1."""
    from ..flow import Disjunctive, Flow
    from ..pathcond import PathCond, atoms_of, entails as pc_entails, f_not, sym_values
    n = 0
    for rel in rep.repo.py_files('dashlive/drm'):
        if 'ContentProtectionSpecificBox' not in rep.repo.source(rel):
            continue
        for cls_, fn in rep.repo.expanded_functions(rel):
            def boxes(st):
                return [c for c in ast.walk(st) if isinstance(c, ast.Call) and (call_name(c) or '').endswith('ContentProtectionSpecificBox')
                        and any(k.arg == 'key_ids' for k in c.keywords)]
            if not boxes(fn):
                continue
            upd, resolve = sym_values(max_len=300)
            at: list[tuple[ast.stmt, tuple]] = []

            def on_stmt(st, states, at=at):
                if isinstance(st, (ast.If, ast.While, ast.For, ast.Try, ast.With)):
                    return
                if boxes(st):
                    at.extend((st, x) for x in states)
            Flow(Disjunctive(PathCond(upd=upd, twin=resolve), cap=256), on_stmt=on_stmt).run(fn, [PathCond.initial()])
            construct = f'{rel}::{(cls_.name + ".") if cls_ else ""}{fn.name}'
            for st, state in at:
                for c in boxes(st):
                    kid = resolve(state, next(k.value for k in c.keywords if k.arg == 'key_ids'))
                    if not (isinstance(kid, (ast.List, ast.Tuple)) and not kid.elts):
                        continue
                    n += 1
                    pc = state[0]
                    ub = None
                    for t_ in atoms_of(pc):
                        try:
                            e_ = ast.parse(t_, mode='eval').body
                        except SyntaxError:
                            continue
                        if not (isinstance(e_, ast.Compare) and len(e_.ops) == 1 and isinstance(e_.left, ast.Call)
                                and norm(e_.left.func) == 'len' and isinstance(e_.comparators[0], ast.Constant)
                                and isinstance(e_.comparators[0].value, int)):
                            continue
                        k_ = e_.comparators[0].value
                        op = type(e_.ops[0])
                        if pc_entails(pc, f_not(('atom', t_))) is True:
                            op = {ast.Lt: ast.GtE, ast.LtE: ast.Gt, ast.Gt: ast.LtE, ast.GtE: ast.Lt, ast.Eq: ast.NotEq,
                                  ast.NotEq: ast.Eq}.get(op)
                        elif pc_entails(pc, ('atom', t_)) is not True:
                            continue
                        b_ = {ast.Lt: k_ - 1, ast.LtE: k_, ast.Eq: k_}.get(op)
                        if b_ is not None:
                            ub = b_ if ub is None else min(ub, b_)
                    key = 'a pssh without key ids only for at most one key'
                    if ub is not None and ub <= 1:
                        rep.ok(rid, construct, key, f'len(keys) <= {ub} on the path')
                    else:
                        rep.fail(rid, construct, key,
                                 f'`{norm(c)[:60]}` is built with no key ids on a path that allows '
                                 + (f'up to {ub} keys' if ub is not None else 'any number of keys') +
                                 ': a track with two key ids gets a pssh that names neither (the version 1 box with the KID list '
                                 'is due from two keys on)', st)
    if n == 0:
        rep.ok(rid, 'dashlive/drm', 'a pssh without key ids only for at most one key', 'no pssh is built without key ids')


def pssh_key_ids(rep: Report, rid: str) -> None:
    """every pssh box built by a DRM system lists the key ids as they are (the bytes the tenc box and the
    representation carry): the `key_ids=` argument is an empty list or a list of identity conversions of the
    members of the key set - no byte swapping (PlayReady's little-endian GUID form belongs in the WRMHEADER
    only), slicing or reordering of the bytes"""
    n = 0
    drm_trees = [rep.repo.tree(r) for r in rep.repo.py_files('dashlive/drm')]
    for rel in rep.repo.py_files('dashlive/drm'):
        tree = rep.repo.tree(rel)
        for fn in [x for x in ast.walk(tree) if isinstance(x, ast.FunctionDef)]:
            for call in [c for c in ast.walk(fn) if isinstance(c, ast.Call)
                         and (call_name(c) or '').endswith('ContentProtectionSpecificBox')]:
                arg = next((k.value for k in call.keywords if k.arg == 'key_ids'), None)
                if arg is None:
                    continue
                n += 1
                construct = f'{rel}::{fn.name}'
                ver = next((norm(k.value) for k in call.keywords if k.arg == 'version'), '?')
                key = f'key_ids of the version {ver} pssh'
                chain: list[tuple[ast.AST, ast.AST, int]] = [(arg, fn, call.lineno)]
                seen: set[int] = set()
                bad = None
                why = ''
                steps = 0
                while chain and steps < 200:
                    steps += 1
                    e, ctx, limit = chain.pop()
                    if isinstance(e, ast.Name):
                        defs = [a for a in ast.walk(ctx) if isinstance(a, (ast.Assign, ast.AnnAssign)) and a.lineno < limit
                                and getattr(a, 'value', None) is not None and id(a) not in seen
                                and any(isinstance(t, ast.Name) and t.id == e.id
                                        for t in (a.targets if isinstance(a, ast.Assign) else [a.target]))]
                        for a in defs:
                            seen.add(id(a))
                            chain.append((a.value, ctx, limit))
                        continue
                    if isinstance(e, (ast.List, ast.Tuple)):
                        chain.extend((x, ctx, limit) for x in e.elts)
                        continue
                    if isinstance(e, (ast.ListComp, ast.GeneratorExp)):
                        chain.append((e.elt, ctx, limit))
                        chain.extend((g.iter, ctx, limit) for g in e.generators)
                        continue
                    if isinstance(e, ast.IfExp):
                        chain.extend([(e.body, ctx, limit), (e.orelse, ctx, limit)])
                        continue
                    # a helper of the same module: what it returns
                    if isinstance(e, ast.Call) and id(e) not in seen:
                        nm = e.func.attr if isinstance(e.func, ast.Attribute) else (e.func.id if isinstance(e.func, ast.Name) else '')
                        helpers = [h for t_ in drm_trees for h in ast.walk(t_) if isinstance(h, ast.FunctionDef) and h.name == nm]
                        if len(helpers) == 1 and (call_name(e) or '') not in _KEY_IDENTITY_CALLS and nm not in ('keys', 'values'):
                            seen.add(id(e))
                            rets = [r.value for r in ast.walk(helpers[0]) if isinstance(r, ast.Return) and r.value is not None]
                            if rets:
                                chain.extend((r, helpers[0], 10 ** 9) for r in rets)
                                continue
                    # a field of a record class of the same module: what its constructions pass
                    if isinstance(e, ast.Attribute) and e.attr not in _KEY_IDENTITY_ATTRS and id(e) not in seen:
                        owners = [c for t_ in drm_trees for c in ast.walk(t_) if isinstance(c, ast.ClassDef)
                                  and any(isinstance(b, ast.AnnAssign) and isinstance(b.target, ast.Name) and b.target.id == e.attr
                                          for b in c.body)]
                        if len(owners) == 1:
                            seen.add(id(e))
                            made = []
                            for f2 in [x for t_ in drm_trees for x in ast.walk(t_) if isinstance(x, ast.FunctionDef)]:
                                for c2 in ast.walk(f2):
                                    if isinstance(c2, ast.Call) and (
                                            (call_name(c2) or '').split('.')[-1] == owners[0].name
                                            or (call_name(c2) == 'cls' and f2 in owners[0].body)):
                                        v = next((k.value for k in c2.keywords if k.arg == e.attr), None)
                                        if v is not None:
                                            made.append((v, f2, c2.lineno + 1))
                            if made:
                                chain.extend(made)
                                continue
                    b = _not_identity(e)
                    if b is not None:
                        bad, why = b, short(e, 70)
                        break
                if bad is None:
                    rep.ok(rid, construct, key, 'identity conversions of the key set')
                else:
                    rep.fail(rid, construct, key,
                             f'a key id of the pssh box is computed by `{why}`: `{short(bad, 50)}` can change its bytes, so the '
                             'box no longer lists the key ids of the track (tenc default_KID / Representation.kids)', bad)
    rep.extra['pssh_constructions'] = n


def analyse(rep: Report) -> None:
    rep.explanation = (
        'Mutation inventory of generate_init_segment (every tree edit between load_fragment and '
        'encode, with its guard stack compared against the two edits the property allows), the '
        'single-implementation rule for init routes, and location gating of each DRM system read '
        'from generate_manifest_context. Byte identity of untouched boxes follows from C04 only as '
        'far as reader/writer agreement goes; pssh payload contents are not decided.')
    rep.rule('R10.1', 'the init segment tree is edited only by the two allowed, correctly guarded edits',
             floor=4)
    rep.rule('R10.2', 'init routes reach generate_init_segment and nothing else encodes', floor=4)
    rep.rule('R10.3', 'DRM systems hand out a moov/cenc/pro generator only under the same-named location',
             floor=9)
    rep.rule('R10.4', 'fragment loaded read-write as the stored window; keys from the representation',
             floor=4)
    rep.rule('R10.5', 'the drm selection parser keeps no state between listed systems', floor=1)
    rep.rule('R10.6', 'box paths name direct children (ISO/IEC 14496-12 containment)', floor=10)
    rep.rule('R10.7', 'pssh boxes list the key ids of the key set unchanged', floor=2)
    r10_1(rep)
    r10_2(rep)
    location_gating(rep, 'R10.3')
    r10_4(rep)
    r10_5(rep)
    r10_6(rep)
    pssh_key_ids(rep, 'R10.7')
    pssh_without_key_ids(rep, 'R10.7')

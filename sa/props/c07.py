"""C07 - options given to a manifest reach its media requests with the same meaning.

The option registry is rebuilt statically (DashOption(...) constructions, the
http_error_factory calls, and the per-event option generator evaluated over the
DEFAULT_VALUES dict literals) and cross-checked against the lists concatenated
in OptionsRepository._all_options.

R07.1  from_string / to_string are an inverse pair (types, none literal,
       quoting of reserved characters, list separators).
R07.2  options read on the media path are forwarded to media URLs (usage mask).
R07.3  resolved start/depth are stored into the options before the URL
       parameters are computed.
R07.4  the usage mask / exclude / remove_defaults logic agrees between the two
       parameter generators.
"""
from __future__ import annotations

import ast
import re
from dataclasses import dataclass, field

from ..core import (AnalysisError, Report, call_name, dotted, find_class, find_func, need,
                    norm, short, ancestors)
from ..flow import Flow, MustFacts
from ..index import CallGraph, Index

OPT = 'dashlive/server/options'
MEDIA_USAGE = {'VIDEO', 'AUDIO', 'TEXT'}


@dataclass
class Opt:
    var: str
    rel: str
    full_name: str
    prefix: str
    cgi_name: str
    usage: set[str]
    from_string: str          # qualified-ish reference text
    to_string: str
    choices: list | None
    node: ast.AST | None = None
    default_kind: str = ''    # for generated event options


@dataclass
class FnSummary:
    returns: set[str] = field(default_factory=set)   # None str int float bool datetime list url-unquoted
    none_test: str = ''       # '' | 'sensitive' | 'insensitive'
    split: str | None = None
    unquotes: bool = False


@dataclass
class FmtSummary:
    kind: str                 # 'flatten' 'bool' 'quote' 'datetime' 'join' 'str' 'custom'
    join: str | None = None
    quotes: bool = False
    passes_none: bool = True


def _usage(e: ast.AST) -> set[str]:
    out = set()
    for n in ast.walk(e):
        if isinstance(n, ast.Attribute) and isinstance(n.value, ast.Name) and n.value.id == 'OptionUsage':
            out.add(n.attr)
    return out


def _kw(call: ast.Call, name: str):
    for k in call.keywords:
        if k.arg == name:
            return k.value
    return None


def _const(e):
    """value of a literal, or of a module-level constant (`EMPTY_STRINGS = frozenset({'', 'none'})`)"""
    if isinstance(e, ast.Call) and norm(e.func) in ('frozenset', 'set', 'tuple', 'list') and len(e.args) == 1:
        e = e.args[0]
    try:
        return ast.literal_eval(e)
    except Exception:
        pass
    if isinstance(e, (ast.Name, ast.Attribute)):
        name = e.id if isinstance(e, ast.Name) else e.attr
        mod = e
        while getattr(mod, '_parent', None) is not None:
            mod = mod._parent
        repo = getattr(mod, '_repo', None)
        mods = [mod] if isinstance(mod, ast.Module) else []
        if repo is not None:
            mods += [repo.tree(r) for r in repo.py_files(OPT)]
        for m in mods:
            for st in ast.walk(m):
                if isinstance(st, (ast.Assign, ast.AnnAssign)) and st.value is not None:
                    tg = st.targets[0] if isinstance(st, ast.Assign) else st.target
                    if isinstance(tg, ast.Name) and tg.id == name and tg.id.isupper():
                        v = _const(st.value) if not isinstance(st.value, (ast.Name, ast.Attribute)) else None
                        if v is not None:
                            return v
    return None


def read_registry(rep: Report, idx: Index) -> list[Opt]:
    opts: dict[str, Opt] = {}
    for rel in rep.repo.py_files(OPT):
        mod = idx.by_rel[rel]
        for var, val in mod.assigns.items():
            if not isinstance(val, ast.Call):
                continue
            cn = call_name(val)
            if cn == 'DashOption':
                cgi = _const(_kw(val, 'cgi_name'))
                fs = _kw(val, 'from_string')
                ts = _kw(val, 'to_string')
                ch = _kw(val, 'cgi_choices')
                choices = _const(ch) if ch is not None else None
                if ch is not None and choices is None:
                    # tuple([None, 'all'] + DrmSystem.values()) etc.
                    choices = ['<computed>']
                    for c in ast.walk(ch):
                        if isinstance(c, ast.List) and c.elts:
                            first = _const(c.elts[0])
                            choices = [first, '<computed>']
                            break
                opts[var] = Opt(var, rel, _const(_kw(val, 'full_name')), _const(_kw(val, 'prefix')) or '',
                                cgi, _usage(_kw(val, 'usage')),
                                norm(fs) if fs is not None else 'DashOption.string_or_none',
                                norm(ts) if ts is not None else 'flatten',
                                list(choices) if choices is not None else None, val)
            elif cn == 'http_error_factory':
                use = _const(val.args[0])
                fac = mod.functions.get('http_error_factory')
                if fac is None:
                    raise AnalysisError('http_error_factory vanished')
                inner = next((c for c in ast.walk(fac.node) if isinstance(c, ast.Call)
                              and call_name(c) == 'DashOption'), None)
                if inner is None:
                    raise AnalysisError('http_error_factory no longer builds a DashOption')
                fs = _kw(inner, 'from_string')
                ts = _kw(inner, 'to_string')
                opts[var] = Opt(var, rel, f'{use}Errors', '', f'{use[0]}err', {use.upper()},
                                norm(fs) if fs is not None else 'DashOption.string_or_none',
                                norm(ts) if ts is not None else 'flatten', None, val)
    # event options: evaluate EventBase.get_dash_options over DEFAULT_VALUES
    ev_mod = idx.by_rel.get('dashlive/server/events/base.py')
    if ev_mod is None:
        raise AnalysisError('events/base.py vanished')
    base_defaults = _const(ev_mod.classes['EventBase'].attrs.get('DEFAULT_VALUES'))
    if not isinstance(base_defaults, dict):
        raise AnalysisError('EventBase.DEFAULT_VALUES is not a dict literal')
    gen = ev_mod.classes['EventBase'].methods.get('get_dash_options')
    if gen is None:
        raise AnalysisError('EventBase.get_dash_options vanished')
    gen_usage = set()
    for c in ast.walk(gen.node):
        if isinstance(c, ast.Call) and call_name(c) == 'DashOption':
            gen_usage = _usage(_kw(c, 'usage'))
    fac = idx.by_rel['dashlive/server/events/factory.py'].classes['EventFactory']
    ev_types = fac.attrs.get('EVENT_TYPES')
    ev_classes = []
    if isinstance(ev_types, ast.Dict):
        for v in ev_types.values:
            q = idx.resolve_expr(fac.module, v)
            if q in idx.classes:
                ev_classes.append(idx.classes[q])
    if len(ev_classes) < 2:
        raise AnalysisError('EventFactory.EVENT_TYPES not readable')
    for ec in ev_classes:
        prefix = None
        defaults = dict(base_defaults)
        for k in idx.mro(ec):
            if 'PREFIX' in k.attrs and prefix is None:
                prefix = _const(k.attrs['PREFIX'])
        for k in reversed(idx.mro(ec)):
            dv = k.attrs.get('DEFAULT_VALUES')
            if dv is None:
                continue
            lit = _const(dv)
            if isinstance(lit, dict):
                defaults.update(lit)
            elif isinstance(dv, ast.Call) and call_name(dv) == 'merge':
                for a in dv.args:
                    la = _const(a)
                    if isinstance(la, dict):
                        defaults.update(la)
        if prefix is None:
            raise AnalysisError(f'{ec.name}.PREFIX not found')
        for key, dflt in defaults.items():
            if isinstance(dflt, bool):
                fs, ts, kind = 'DashOption.bool_from_string', 'DashOption.bool_to_string', 'bool'
            elif isinstance(dflt, int):
                fs, ts, kind = 'EventBase.int_or_default_from_string', 'default_to_string', 'int'
            else:
                fs, ts, kind = 'default_to_string', 'default_to_string', 'str'
            var = f'{ec.name}.{key}'
            opts[var] = Opt(var, ev_mod.rel, key, prefix, f'{prefix}__{key}', set(gen_usage),
                            fs, ts, [str(dflt)], None, kind)
    # cross-check with _all_options
    repo_mod = idx.by_rel[f'{OPT}/repository.py']
    allopt = repo_mod.classes['OptionsRepository'].attrs.get('_all_options')
    lists = [n.id for n in ast.walk(allopt) if isinstance(n, ast.Name)] if allopt is not None else []
    registered: set[str] = set()
    for lname in lists:
        q = repo_mod.imports.get(lname)
        if not q:
            continue
        m = idx.modules.get(q.rsplit('.', 1)[0])
        if m is None:
            continue
        val = m.assigns.get(lname)
        if val is None:
            continue
        for n in ast.walk(val):
            if isinstance(n, ast.Name):
                # imported option variables
                registered.add(n.id)
    out = []
    for var, o in opts.items():
        if '.' in var or var in registered:
            out.append(o)
    rep.extra['options_registered'] = len(out)
    rep.extra['options_defined_not_registered'] = sorted(v for v in opts if '.' not in v
                                                         and v not in registered)
    if len(out) < 55:
        raise AnalysisError(f'only {len(out)} registered options reconstructed (55 expected)')
    return out


# --------------------------------------------------------------------------
def resolve_fn(idx: Index, rel: str, ref: str):
    """(FunctionDef | Lambda | None, label)"""
    mod = idx.by_rel[rel]
    if ref.startswith('lambda'):
        return ast.parse(ref, mode='eval').body, 'lambda'
    if ref.startswith('DashOption.'):
        dm = idx.by_rel[f'{OPT}/dash_option.py']
        f = dm.classes['DashOption'].methods.get(ref.split('.', 1)[1])
        return (_expand(idx, f.node) if f else None), ref
    if ref == 'flatten':
        return None, 'flatten'
    if ref in ('default_to_string',):
        return None, 'str'
    if ref == 'EventBase.int_or_default_from_string':
        return None, 'int_or_default'
    if ref in mod.functions:
        return _expand(idx, mod.functions[ref].node), ref
    q = idx.resolve_name(mod, ref)
    if q in idx.functions:
        return _expand(idx, idx.functions[q].node), ref
    return None, ref


def _expand(idx: Index, node):
    """normal form of a parser / formatter (new helpers inlined, conditional expressions split)"""
    try:
        return idx.repo.normaliser.expand(node)
    except Exception:
        return node


def summarise_parser(fn, label: str) -> FnSummary:
    s = FnSummary()
    if label == 'int_or_default':
        s.returns = {'int'}
        s.none_test = 'sensitive'
        return s
    if label == 'str':
        s.returns = {'str'}
        return s
    if fn is None:
        raise AnalysisError(f'cannot resolve parser {label}')
    body = fn
    for n in ast.walk(body):
        if isinstance(n, ast.Compare) and isinstance(n.ops[0], ast.In):
            coll = _const(n.comparators[0])
            if coll is not None and ('none' in coll or '' in coll):
                s.none_test = 'insensitive' if '.lower()' in norm(n.left) else 'sensitive'
        if isinstance(n, ast.Call) and isinstance(n.func, ast.Attribute) and n.func.attr == 'split' \
                and n.args and isinstance(n.args[0], ast.Constant):
            if s.split is None:
                s.split = n.args[0].value
        if isinstance(n, ast.Call) and (call_name(n) or '').endswith('unquote_plus'):
            s.unquotes = True
        if isinstance(n, ast.Assign) and isinstance(n.value, ast.Call) and '.lower()' in norm(n.value) \
                and isinstance(n.targets[0], ast.Name):
            pass
    # delegation: `quoted = DashOption.string_or_none(value)` - the sibling decides what means "none"
    params_ = [a.arg for a in body.args.args] if isinstance(body, (ast.FunctionDef, ast.Lambda)) else []
    for n in ast.walk(body):
        if isinstance(n, ast.Call) and isinstance(n.func, ast.Attribute) and isinstance(n.func.value, ast.Name) \
                and n.func.value.id in ('DashOption', 'cls', 'clz') and n.args \
                and isinstance(n.args[0], ast.Name) and n.args[0].id in params_ and not s.none_test:
            mod_ = body
            while getattr(mod_, '_parent', None) is not None:
                mod_ = mod_._parent
            owner = next((c for c in getattr(mod_, 'body', []) if isinstance(c, ast.ClassDef)
                          and c.name == 'DashOption'), None)
            if owner is None and getattr(mod_, '_repo', None) is not None:
                owner = find_class(mod_._repo.tree(f'{OPT}/dash_option.py'), 'DashOption')
            callee = find_func(owner, n.func.attr) if owner is not None else None
            if callee is not None and callee is not body and getattr(callee, 'name', '') != getattr(body, 'name', None):
                sub = summarise_parser(callee, n.func.attr)
                s.none_test = sub.none_test
                if 'None' in sub.returns:
                    s.returns.add('None')
    low = any(isinstance(n, ast.Assign) and norm(n.value).endswith('.lower()') for n in ast.walk(body))
    if low and not s.none_test:
        s.none_test = 'insensitive'
    for n in ast.walk(body):
        if isinstance(n, ast.Compare) and low and any(
                isinstance(c, ast.Constant) and c.value == '' for c in n.comparators):
            s.none_test = 'insensitive'
        if isinstance(n, ast.Call) and isinstance(n.func, ast.Attribute) \
                and n.func.attr == 'startswith' and n.args and _const(n.args[0]) == 'none' and low:
            s.none_test = 'insensitive'
    for r in [n for n in ast.walk(body) if isinstance(n, ast.Return)]:
        v = r.value
        if v is None or (isinstance(v, ast.Constant) and v.value is None):
            s.returns.add('None')
        elif isinstance(v, ast.Call):
            cn = call_name(v) or ''
            if cn == 'int':
                s.returns.add('int')
            elif cn == 'float':
                s.returns.add('float')
            elif cn.endswith('from_isodatetime'):
                s.returns.add('datetime')
            elif cn.endswith('unquote_plus'):
                s.returns.add('str')
            else:
                s.returns.add('other')
        elif isinstance(v, (ast.List, ast.ListComp)):
            s.returns.add('list')
        elif isinstance(v, ast.Compare):
            s.returns.add('bool')
        elif isinstance(v, ast.Name):
            # find its construction
            kinds = set()
            for a in ast.walk(body):
                if isinstance(a, (ast.Assign, ast.AnnAssign)):
                    tg = a.targets[0] if isinstance(a, ast.Assign) else a.target
                    if isinstance(tg, ast.Name) and tg.id == v.id and a.value is not None:
                        if isinstance(a.value, (ast.List, ast.ListComp)):
                            kinds.add('list')
                        elif isinstance(a.value, ast.Call) and (call_name(a.value) or '').endswith(
                                'from_isodatetime'):
                            kinds.add('datetime')
            args = [a.arg for a in getattr(body, 'args', ast.arguments(args=[])).args] \
                if isinstance(body, ast.FunctionDef) else []
            if not kinds and v.id in args:
                kinds.add('str')
            s.returns |= kinds or {'other'}
        else:
            s.returns.add('other')
    return s


def summarise_formatter(fn, label: str) -> FmtSummary:
    if label == 'flatten':
        return FmtSummary('flatten')
    if label == 'str':
        return FmtSummary('str')
    if fn is None:
        raise AnalysisError(f'cannot resolve formatter {label}')
    txt = norm(fn)
    if isinstance(fn, ast.Lambda):
        for n in ast.walk(fn):
            if isinstance(n, ast.Call) and isinstance(n.func, ast.Attribute) and n.func.attr == 'join' \
                    and isinstance(n.func.value, ast.Constant):
                return FmtSummary('join', join=n.func.value.value)
        return FmtSummary('custom')
    if 'quote_plus(' in txt or 'urllib.parse.quote(' in txt:
        return FmtSummary('quote', quotes=True)
    if 'to_iso_datetime' in txt:
        return FmtSummary('datetime')
    rets = [n for n in ast.walk(fn) if isinstance(n, ast.Return)]
    if rets and all(isinstance(r.value, ast.Constant) and r.value.value in ('1', '0') for r in rets):
        return FmtSummary('bool')
    for n in ast.walk(fn):
        if isinstance(n, ast.Call) and isinstance(n.func, ast.Attribute) and n.func.attr == 'join' \
                and isinstance(n.func.value, ast.Constant):
            return FmtSummary('join', join=n.func.value.value)
    return FmtSummary('custom')


# calls that map distinct option values to distinct URL text
LOSSLESS_CALLS = {'quote', 'quote_plus', 'to_iso_datetime', 'str', 'flatten', 'toIsoDuration', 'repr'}
SPECIAL_CASED = {'videoErrors': 'verr', 'audioErrors': 'aerr', 'videoCorruption': 'vcorrupt'}


def r07_1(rep: Report, idx: Index, opts: list[Opt]) -> None:
    rid = 'R07.1'
    # special cases written explicitly in calculate_cgi_parameters
    mc = idx.functions.get(
        'dashlive.server.requesthandler.manifest_context.ManifestContext.calculate_cgi_parameters')
    if mc is None:
        raise AnalysisError('calculate_cgi_parameters vanished')
    special_found = set()
    for n in ast.walk(mc.node):
        if isinstance(n, ast.Assign) and isinstance(n.targets[0], ast.Subscript) \
                and isinstance(n.targets[0].slice, ast.Constant):
            special_found.add(n.targets[0].slice.value)
    for o in opts:
        construct = f'{o.rel}::{o.var}'
        media = bool(o.usage & (MEDIA_USAGE | {'TIME'}))
        pfn, plabel = resolve_fn(idx, o.rel, o.from_string)
        ffn, flabel = resolve_fn(idx, o.rel, o.to_string)
        ps = summarise_parser(pfn, plabel)
        fs = summarise_formatter(ffn, flabel)
        default = None
        if o.choices:
            default = o.choices[0]
            if isinstance(default, (tuple, list)):
                default = default[1]
        # (a) text type
        if 'list' in ps.returns or o.from_string == '_errors_from_string':
            if fs.kind in ('flatten', 'str'):
                if o.full_name in SPECIAL_CASED and SPECIAL_CASED[o.full_name] in special_found:
                    rep.ok(rid, construct, 'a:list formatted',
                           f'special-cased as `{SPECIAL_CASED[o.full_name]}` in calculate_cgi_parameters')
                else:
                    rep.fail(rid, construct, 'a:list formatted',
                             f'option `{o.cgi_name}` parses to a list but its to_string ({o.to_string}) '
                             f'returns the list itself: the URL text becomes Python repr '
                             f'(e.g. `{o.cgi_name}=[(503, 5)]`), which the parser cannot read back',
                             o.node)
            elif fs.kind == 'join':
                if ps.split is not None and fs.join != ps.split:
                    rep.fail(rid, construct, 'd:separator',
                             f'formatter joins with {fs.join!r}, parser splits on {ps.split!r}', o.node)
                else:
                    rep.ok(rid, construct, 'd:separator', f'join/split on {fs.join!r}')
            else:
                rep.ok(rid, construct, 'a:list formatted', f'custom formatter {o.to_string}')
        else:
            rep.ok(rid, construct, 'a:scalar text', f'{sorted(ps.returns)} via {fs.kind}')
        # (b) None round trip
        if 'None' in ps.returns and media and default not in (None, '', 'none') \
                and fs.kind in ('flatten', 'str', 'datetime', 'quote') \
                and not ('datetime' in ps.returns and fs.kind == 'quote'):
            if ps.none_test == 'insensitive':
                rep.ok(rid, construct, 'b:none literal')
            elif o.full_name in ('timeShiftBufferDepth', 'availabilityStartTime'):
                rep.ok(rid, construct, 'b:none literal',
                       'always overwritten with the resolved value before forwarding (R07.3)')
            else:
                rep.fail(rid, construct, 'b:none literal',
                         f'`{o.cgi_name}=none` parses to None, which differs from the default '
                         f'{default!r} and is forwarded as the text "None"; the parser only accepts '
                         f"'' and 'none' (case-sensitive) and raises ValueError on the media request",
                         o.node)
        # (c) quoting of reserved characters
        if media:
            free_text = False
            why = ''
            if 'datetime' in ps.returns and not fs.quotes:
                free_text, why = True, 'an ISO date-time with a positive UTC offset contains `+`'
            elif ps.returns <= {'str', 'None'} and 'str' in ps.returns and not fs.quotes \
                    and fs.kind in ('flatten', 'str'):
                computed = o.choices and '<computed>' in o.choices
                restricted = o.choices and len([c for c in o.choices if c not in (None, '')]) > 1 \
                    and o.default_kind != 'str' and not computed
                if not restricted:
                    free_text, why = True, 'free text may contain & # % + = or spaces'
            elif 'list' in ps.returns and fs.kind == 'join':
                # items the parser itself validates: DRM names from a fixed vocabulary; `code=position`
                # pairs of numbers / times (written into media URLs by calculate_cgi_parameters itself)
                validated = o.full_name in ('drmSelection',) or o.from_string == '_errors_from_string'
                if not validated:
                    free_text, why = True, 'list items are free text and may contain & # % + ='
            if free_text:
                rep.fail(rid, construct, 'c:quoting',
                         f'`{o.cgi_name}` is forwarded to media URLs unquoted although {why}; the '
                         'media endpoint then parses a different value (or fails)', o.node)
            else:
                rep.ok(rid, construct, 'c:quoting')
        # (f) a scalar formatter passes its argument to the text through lossless calls only
        if isinstance(ffn, ast.FunctionDef) and ffn.args.args and 'list' not in ps.returns:
            from ..termeval import TermEval, module_consts
            fparam = ffn.args.args[-1].arg
            paths = [p_ for p_ in TermEval(module_consts(rep.repo.tree(o.rel))).run(ffn, {})
                     if p_.done == 'return']
            lossy = None
            for p_ in paths:
                txt = getattr(p_.result, 'text', None)
                if txt is None:
                    continue
                try:
                    e_ = ast.parse(txt, mode='eval').body
                except SyntaxError:
                    continue
                for c_ in ast.walk(e_):
                    mentions = lambda x: any(isinstance(y, ast.Name) and y.id == fparam for y in ast.walk(x))
                    if isinstance(c_, ast.Call) and mentions(c_):
                        cn_ = (call_name(c_) or '').split('.')[-1]
                        direct = any(mentions(a_) for a_ in c_.args)
                        if isinstance(c_.func, ast.Attribute) and mentions(c_.func.value):
                            lossy = c_           # a method of the value itself: value.replace(..), value.lower()
                        elif direct and cn_ not in LOSSLESS_CALLS:
                            lossy = c_
                    elif isinstance(c_, ast.Subscript) and mentions(c_.value):
                        lossy = c_
            if lossy is None:
                rep.ok(rid, construct, 'f:lossless formatter')
            else:
                rep.fail(rid, construct, 'f:lossless formatter',
                         f'{ffn.name} renders `{short(lossy, 70)}`: the value is changed before it is written into '
                         'the URL by an operation not known to be lossless, so the media endpoint parses a '
                         'different option value than the manifest was built with', ffn, file=o.rel)


def r07_1e(rep: Report, idx: Index) -> None:
    """custom structured formatter of the DRM selection: the `all` shortcut may only be taken
    when it has looked at the locations of the entries (component-sensitive dependence)"""
    rid = 'R07.1'
    rel = f'{OPT}/drm_options.py'
    mod = idx.by_rel[rel]
    f = mod.functions.get('_drm_selection_to_string')
    if f is None:
        raise AnalysisError('_drm_selection_to_string vanished')
    fn = f.node
    param = fn.args.args[0].arg
    construct = f'{rel}::_drm_selection_to_string'
    binds: dict[str, set[str]] = {}
    for n in ast.walk(fn):
        tgt = it = None
        if isinstance(n, (ast.For, ast.comprehension)):
            tgt, it = n.target, n.iter
        if tgt is not None and isinstance(tgt, ast.Tuple) and len(tgt.elts) == 2:
            for i, e in enumerate(tgt.elts):
                if isinstance(e, ast.Name):
                    binds.setdefault(e.id, set()).add(f'v{i}')
    # assignments / appends with their control dependencies
    defs: dict[str, list[tuple[ast.AST, list[ast.AST]]]] = {}
    from ..core import ancestors as _anc
    for n in ast.walk(fn):
        name = val = None
        if isinstance(n, ast.Assign) and isinstance(n.targets[0], ast.Name):
            name, val = n.targets[0].id, n.value
        elif isinstance(n, ast.AnnAssign) and isinstance(n.target, ast.Name) and n.value is not None:
            name, val = n.target.id, n.value
        elif isinstance(n, ast.Call) and isinstance(n.func, ast.Attribute) and n.func.attr in ('append', 'add') \
                and isinstance(n.func.value, ast.Name) and n.args:
            name, val = n.func.value.id, n.args[0]
        if name is None:
            continue
        ctrl = [a.test for a in _anc(n) if isinstance(a, ast.If)]
        defs.setdefault(name, []).append((val, ctrl))

    def deps(e: ast.AST, depth: int = 0) -> set[str]:
        out: set[str] = set()
        if isinstance(e, ast.Subscript) and isinstance(e.value, ast.Subscript) \
                and isinstance(e.value.value, ast.Name) and e.value.value.id == param \
                and isinstance(e.slice, ast.Constant) and e.slice.value in (0, 1):
            return {f'v{e.slice.value}'}
        if isinstance(e, (ast.SetComp, ast.ListComp, ast.GeneratorExp)):
            local = {}
            for g in e.generators:
                if isinstance(g.target, ast.Tuple) and isinstance(g.iter, ast.Name) and g.iter.id == param:
                    for i, t in enumerate(g.target.elts):
                        if isinstance(t, ast.Name):
                            local[t.id] = {f'v{i}'}
            for n in ast.walk(e.elt):
                if isinstance(n, ast.Name):
                    out |= local.get(n.id, set()) or (deps(n, depth + 1) if n.id not in local else set())
            return out
        if isinstance(e, ast.Name):
            if e.id == param:
                return {'v0', 'v1'}
            if e.id in binds and e.id != '_':
                return set(binds[e.id])
            if e.id in defs and depth < 4:
                for val, ctrl in defs[e.id]:
                    out |= deps(val, depth + 1)
                    for c in ctrl:
                        out |= deps(c, depth + 1)
            return out
        for ch in ast.iter_child_nodes(e):
            out |= deps(ch, depth)
        return out
    n_sites = 0
    for n in ast.walk(fn):
        if isinstance(n, ast.Constant) and n.value == 'all':
            n_sites += 1
            tests = [a.test for a in _anc(n) if isinstance(a, ast.If)]
            d: set[str] = set()
            for t in tests:
                d |= deps(t)
            key = f"'all' shortcut under {[norm(t)[:50] for t in tests]}"
            if 'v1' in d:
                rep.ok(rid, construct, "e:'all' shortcut looks at the locations", key)
            else:
                rep.fail(rid, construct, "e:'all' shortcut looks at the locations",
                         f"the compact `all` form is chosen under {[norm(t) for t in tests]}, which "
                         'depends on the DRM names only: per-system location sets are dropped, so '
                         'drm=clearkey-cenc,marlin-cenc,playready-moov is forwarded as a different '
                         'selection', n)
    if n_sites == 0:
        rep.ok(rid, construct, "e:'all' shortcut looks at the locations", 'no shortcut used')
    # every entry is rendered with its own name and its own locations
    loop = [n for n in ast.walk(fn) if isinstance(n, ast.For) and isinstance(n.iter, ast.Name)]
    ok = False
    for lp in loop:
        names = [e.id for e in lp.target.elts] if isinstance(lp.target, ast.Tuple) else []
        if len(names) == 2:
            body = ' '.join(norm(b) for b in lp.body)
            if names[0] in body and names[1] in body and lp.iter.id == param:
                ok = True
    for comp in [n for n in ast.walk(fn) if isinstance(n, (ast.ListComp, ast.GeneratorExp, ast.SetComp))]:
        for g in comp.generators:
            if isinstance(g.target, ast.Tuple) and len(g.target.elts) == 2 and isinstance(g.iter, ast.Name) \
                    and g.iter.id == param and not g.ifs:
                names = [e.id for e in g.target.elts if isinstance(e, ast.Name)]
                used = {x.id for x in ast.walk(comp.elt) if isinstance(x, ast.Name)}
                if len(names) == 2 and set(names) <= used:
                    ok = True
    # the iterated collection must be the parameter itself, not a rewritten copy
    reassigned = any(isinstance(n, ast.Assign) and isinstance(n.targets[0], ast.Name)
                     and n.targets[0].id == param for n in ast.walk(fn))
    if ok and not reassigned:
        rep.ok(rid, construct, 'e:each entry rendered from its own name and locations')
    else:
        rep.fail(rid, construct, 'e:each entry rendered from its own name and locations',
                 'the formatter does not render every (drm, locations) entry of its argument '
                 f'(argument reassigned: {reassigned})', fn)


# --------------------------------------------------------------------------
EXEMPT_READS = {
    'mode': 'path component of every media URL, added by calculate_options',
    'encrypted': 'derived property of drmSelection',
    'segmentTimeline': 'set by the media handler from the URL form (time/ vs number)',
    'minimumUpdatePeriod': 'only feeds publishTime, which media generation does not use',
    'patch': 'manifest-only',
}


def r07_2(rep: Report, idx: Index, cg: CallGraph, opts: list[Opt]) -> None:
    rid = 'R07.2'
    by_full: dict[str, list[Opt]] = {}
    for o in opts:
        by_full.setdefault(o.full_name, []).append(o)
    prefixes = {o.prefix for o in opts if o.prefix}
    roots = []
    for q in ('dashlive.server.requesthandler.media_requests.LiveMedia.get',
              'dashlive.server.requesthandler.media_requests.ServeMpsMedia.get',
              'dashlive.server.requesthandler.media_requests.ServeMpsInitSeg.get'):
        if q not in idx.functions:
            raise AnalysisError(f'{q} vanished')
        roots.append(idx.functions[q])
    reach = cg.reachable(roots, skip_how=('by-name',))
    reads: dict[str, str] = {}
    for q, (f, _p) in reach.items():
        if not (f.rel.startswith('dashlive/server/requesthandler/media_requests')
                or f.rel.startswith('dashlive/mpeg/dash/timing')
                or f.rel.startswith('dashlive/server/requesthandler/drm_context')
                or f.rel.startswith('dashlive/server/events/factory')):
            continue
        for n in ast.walk(f.node):
            if isinstance(n, ast.Attribute) and isinstance(n.value, ast.Name) \
                    and n.value.id in ('options', 'opts') and isinstance(n.ctx, ast.Load):
                reads.setdefault(n.attr, f.construct())
    n = 0
    for name, where in sorted(reads.items()):
        if name in prefixes or name.startswith('_') or name in (
                'update', 'clone', 'toJSON', 'add_field', 'remove_field', 'log', 'iv_size',
                'strict', 'lazy_load', 'has_bug'):
            continue
        n += 1
        if name in EXEMPT_READS:
            rep.ok(rid, where, f'options.{name}', EXEMPT_READS[name])
            continue
        cands = by_full.get(name)
        if not cands:
            rep.fail(rid, where, f'options.{name}',
                     f'`options.{name}` is read on the media path but no registered option has '
                     'that name')
            continue
        if any(o.usage & MEDIA_USAGE for o in cands):
            rep.ok(rid, where, f'options.{name}', f'usage {sorted(cands[0].usage)}')
        else:
            rep.fail(rid, where, f'options.{name}',
                     f'`options.{name}` influences media generation ({where}) but its usage mask '
                     f'{sorted(cands[0].usage)} contains no media type: the value given to the '
                     'manifest never reaches the media URLs', cands[0].node)
    if n < 8:
        raise AnalysisError(f'only {n} option reads found on the media path')
    # event sub-options and DRM sub-options consumed by media requests must carry a media usage
    for o in opts:
        if o.prefix in ('ping', 'scte35', 'playready', 'marlin', 'clearkey'):
            construct = f'{o.rel}::{o.var}'
            if o.usage & MEDIA_USAGE:
                rep.ok(rid, construct, f'{o.prefix}.{o.full_name}')
            else:
                rep.fail(rid, construct, f'{o.prefix}.{o.full_name}',
                         'sub-option used when generating media is not forwarded to media URLs',
                         o.node)


def r07_3(rep: Report, idx: Index) -> None:
    rid = 'R07.3'
    f = idx.functions.get(
        'dashlive.server.requesthandler.manifest_context.ManifestContext.create_period')
    if f is None:
        raise AnalysisError('create_period vanished')
    construct = f.construct()

    def gen(st):
        out = []
        for c in ast.walk(st):
            if isinstance(c, ast.Call) and call_name(c) == 'self.calculate_cgi_parameters':
                out.append('computed')
        return out
    stores: dict[str, bool] = {}

    def on_stmt(st, s):
        if isinstance(st, ast.Assign) and len(st.targets) == 1:
            t = norm(st.targets[0])
            if t in ('opts.availabilityStartTime', 'opts.timeShiftBufferDepth',
                     'self.options.availabilityStartTime', 'self.options.timeShiftBufferDepth'):
                name = t.rsplit('.', 1)[1]
                src_ok = norm(st.value) == f'timing.{name}'
                stores[name] = ('computed' not in s) and src_ok
    Flow(MustFacts(gen), on_stmt=on_stmt).run(f.node, frozenset())
    for name in ('availabilityStartTime', 'timeShiftBufferDepth'):
        if stores.get(name):
            rep.ok(rid, construct, name, 'resolved value stored before calculate_cgi_parameters')
        else:
            rep.fail(rid, construct, name,
                     f'the resolved timing.{name} is not stored into the options before the URL '
                     'parameters are computed: media requests rebuild a different window', f.node)
    # the media side reads them back through the same DashTiming constructor
    n_sites = 0
    for q in ('dashlive.server.requesthandler.media_requests.MediaRequestBase.generate_media_segment',):
        g = idx.functions.get(q)
        if g is None:
            raise AnalysisError(f'{q} vanished')
        for c in ast.walk(g.node):
            if isinstance(c, ast.Call) and call_name(c) == 'DashTiming':
                n_sites += 1
                if len(c.args) == 3 and norm(c.args[2]) == 'options':
                    rep.ok(rid, g.construct(), 'DashTiming(now, reference, options)')
                else:
                    rep.fail(rid, g.construct(), 'DashTiming(now, reference, options)',
                             'media side does not rebuild timing from the request options', c)
    if n_sites == 0:
        raise AnalysisError('media side DashTiming construction not found')


def r07_4(rep: Report, idx: Index) -> None:
    rid = 'R07.4'
    rel = f'{OPT}/container.py'
    tree = rep.repo.tree(rel)
    cls = need(find_class(tree, 'OptionsContainer'), 'OptionsContainer')
    a = need(find_func(cls, '_generate_parameters_dict'), '_generate_parameters_dict')
    # the nested (prefix group) options are emitted by a sibling, or - when that sibling is a helper that
    # was merged into its caller - by a second emission inside the generator itself
    b = find_func(cls, '_convert_sub_options')
    from ..pathcond import PathCond, atoms_of, entails as pc_entails, f_not, show as pc_show
    from ..flow import Disjunctive, Flow
    def is_emit(st: ast.stmt, fn_: ast.AST) -> bool:
        """destination[..] = opt.to_string(value), directly or through a local that names the text"""
        if not (isinstance(st, ast.Assign) and isinstance(st.targets[0], ast.Subscript)):
            return False

        def has_ts(e: ast.AST) -> bool:
            return any(isinstance(c, ast.Call) and isinstance(c.func, ast.Attribute) and c.func.attr == 'to_string'
                       for c in ast.walk(e))
        if has_ts(st.value):
            return True
        if isinstance(st.value, ast.Name):
            ds = [a_.value for a_ in ast.walk(fn_) if isinstance(a_, ast.Assign) and len(a_.targets) == 1
                  and isinstance(a_.targets[0], ast.Name) and a_.targets[0].id == st.value.id]
            # the text may also be a constant on other paths (None for "leave it out"): the conditions
            # under which the statement is reached are judged below
            return any(has_ts(d) for d in ds) and all(has_ts(d) or isinstance(d, ast.Constant) for d in ds)
        return False
    if b is None:
        n_emit = len([st for st in ast.walk(a) if is_emit(st, a)])
        if n_emit < 2:
            raise AnalysisError('anchor vanished: _convert_sub_options (and _generate_parameters_dict has no second '
                                'emission for the options of a prefix group)')
    for fn in ((a, b) if b is not None else (a,)):
        construct = f'{rel}::OptionsContainer.{fn.name}'
        emits: list[tuple[ast.stmt, tuple]] = []

        def on_stmt(st, states, _emits=emits, _fn=fn):
            if isinstance(st, (ast.If, ast.While, ast.For, ast.With, ast.Try)):
                return
            if is_emit(st, _fn):
                for x in states:
                    _emits.append((st, x))
        Flow(Disjunctive(PathCond(), cap=512), on_stmt=on_stmt).run(fn, [PathCond.initial()])
        if not emits:
            rep.fail(rid, construct, 'to_string applied',
                     f'{fn.name} no longer stores opt.to_string(value) into the parameter dictionary', fn)
            continue
        rep.ok(rid, construct, 'to_string applied')

        def category(atom: str, _fn=fn) -> str | None:
            t = atom
            if re.fullmatch(r'(not )?_h\d+', t):
                # a truth value named by the normal form: judged by what it was computed from
                nm = t.split()[-1]
                t = ' ; '.join(norm(a_.value) for a_ in ast.walk(_fn) if isinstance(a_, ast.Assign)
                               and len(a_.targets) == 1 and norm(a_.targets[0]) == nm
                               and not isinstance(a_.value, ast.Constant)) or t
            if re.search(r'\buse\b|\.usage\b|usage_allows', t):
                return 'usage'
            if re.search(r'exclud', t, re.I):
                return 'exclude'
            if re.search(r'default|dft|_defaults', t, re.I):
                return 'default'
            if 'isinstance(' in t and 'OptionsContainer' in t:
                return 'nested'
            if re.fullmatch(r'(destination|params|dest\w*) is None', t):
                return 'housekeeping'
            return None
        cats: set[str] = set()
        unknown: dict[str, ast.stmt] = {}
        for st, x in emits:
            for at in atoms_of(x[0]):
                c = category(at)
                if c is None:
                    unknown.setdefault(at, st)
                else:
                    cats.add(c)
        for at, st in unknown.items():
            rep.fail(rid, construct, f'skip under `{at[:50]}`',
                     f'{fn.name} emits an option only under the condition `{at[:80]}`, which is none of '
                     'usage mask / exclude set / equal to the default / nested container: the manifest is '
                     'built with the requested value but the media URLs fall back to the stream default '
                     '(e.g. an option explicitly set back to none)', st)
        if not unknown:
            rep.ok(rid, construct, 'no other skip condition', f'conditions on the emission: {sorted(cats)}')
        # usage mask and exclude set are honoured on every path to the emission
        for label, pat in (('usage mask', r'\.usage & \w+ == 0|usage_allows'), ('exclude', r'^\S+ in (?i:\w*exclud\w*)$')):
            ok_all = True
            why = ''
            for st, x in emits:
                cands = [at for at in atoms_of(x[0]) if re.search(pat, at)]
                if not cands:
                    ok_all, why = False, 'no such test on a path to the emission'
                    break
                a0 = cands[0]
                goal = f_not(('atom', a0)) if 'usage_allows' not in a0 else ('atom', a0)
                if label == 'usage mask' and 'usage_allows' not in a0:
                    goal = ('or', ('atom', 'use is None'), f_not(('atom', a0)))
                if pc_entails(x[0], goal) is not True:
                    ok_all, why = False, f'path condition {pc_show(x[0])[:120]} does not imply it'
                    break
            if ok_all:
                rep.ok(rid, construct, label)
            else:
                rep.fail(rid, construct, label,
                         f'{fn.name} does not honour `{label}` like its sibling generator ({why})', fn)
        if 'default' in cats:
            rep.ok(rid, construct, 'remove_defaults')
        else:
            rep.fail(rid, construct, 'remove_defaults',
                     f'{fn.name} does not honour `remove_defaults` like its sibling generator', fn)
    # media parameter sets are generated with the matching usage
    mc = idx.functions.get(
        'dashlive.server.requesthandler.manifest_context.ManifestContext.calculate_cgi_parameters')
    mcn = _expand(idx, mc.node)
    coll = next((n for n in ast.walk(mcn) if isinstance(n, ast.Call)
                 and call_name(n) == 'CgiParameterCollection'), None)
    if coll is None:
        raise AnalysisError('CgiParameterCollection(...) not found')
    exp = {'audio': 'AUDIO', 'video': 'VIDEO', 'text': 'TEXT', 'time': 'TIME'}
    pairs = {k.arg: k.value for k in coll.keywords}
    for kind, use in exp.items():
        v = pairs.get(kind)
        src = v
        if isinstance(v, ast.Name):
            ds = [a_ for a_ in ast.walk(mcn) if isinstance(a_, ast.Assign) and norm(a_.targets[0]) == v.id]
            src = ds[0].value if len(ds) == 1 else None
        got = None
        if isinstance(src, ast.Call) and (call_name(src) or '').endswith('generate_cgi_parameters'):
            u = _kw(src, 'use')
            got = norm(u).rsplit('.', 1)[-1] if u is not None else None
        key = f'collection.{kind} use={use}'
        if got == use:
            rep.ok(rid, mc.construct(), key)
        else:
            rep.fail(rid, mc.construct(), key,
                     f'the {kind} parameter set is generated with use={got} '
                     f'(`{short(src, 60) if src is not None else norm(v) if v is not None else "missing"}`): '
                     f'options of other media types reach (or {kind} options miss) the {kind} URLs', coll)
    # create_period appends each set to the adaptation sets of that type
    cp = idx.functions.get(
        'dashlive.server.requesthandler.manifest_context.ManifestContext.create_period')
    call_nodes = [c for c in ast.walk(cp.node) if isinstance(c, ast.Call)
                  and isinstance(c.func, ast.Attribute) and c.func.attr == 'append_cgi_params']

    def kind_of(recv: ast.AST) -> str | None:
        """media type of the receiver, by what it is called or what it is taken from (a loop over the audio list)"""
        txt = norm(recv).lower()
        hits = [k for k in ('video', 'audio', 'text') if k in txt]
        if len(hits) == 1:
            return hits[0]
        if isinstance(recv, ast.Name):
            for lp in ast.walk(cp.node):
                if isinstance(lp, ast.For) and any(isinstance(x, ast.Name) and x.id == recv.id for x in ast.walk(lp.target)):
                    hits = [k for k in ('video', 'audio', 'text') if k in norm(lp.iter).lower()]
                    if len(hits) == 1:
                        return hits[0]
        return None
    calls = []
    for c in call_nodes:
        k_ = kind_of(c.func.value)
        # the call as the rule states it: <kind of the receiver>.append_cgi_params(<argument>)
        calls.append(f'{k_ or norm(c.func.value)}.append_cgi_params({", ".join(norm(a) for a in c.args)})')
    for recv, kind in (('video', 'video'), ('audio', 'audio'), ('text', 'text')):
        want_call = f'{recv}.append_cgi_params(self.cgi_params.{kind})'
        if want_call in calls:
            rep.ok(rid, cp.construct(), want_call)
        else:
            rep.fail(rid, cp.construct(), want_call,
                     f'{kind} adaptation sets do not receive the {kind} parameter set '
                     f'(calls: {calls})', cp.node)


def r07_5(rep: Report) -> None:
    """option parsers: a value assigned for some list items only must not be read for the next"""
    from ..idioms import partial_defs_in_loops
    n_loops = 0
    for rel in rep.repo.py_files('dashlive/server/options'):
        tree = rep.repo.tree(rel)
        for fn in [n for n in ast.walk(tree) if isinstance(n, (ast.FunctionDef, ast.AsyncFunctionDef))]:
            loops, found = partial_defs_in_loops(fn)
            if not loops:
                continue
            n_loops += loops
            construct = f'{rel}::{fn.name}'
            if not found:
                rep.ok('R07.5', construct, 'per-item state', f'{loops} loop(s)')
            for loop, var, use in found:
                rep.fail('R07.5', construct, f'per-item state:{var}',
                         f'`{var}` is assigned on some paths of one loop iteration only and read at '
                         f'line {use.lineno}: the value of the previous item leaks into this one', use)
    rep.extra['option_module_loops'] = n_loops
    # each piece of a split option text is decided from the piece
    from ..idioms import whole_reads_in_item_loops
    n_split = 0
    for rel in rep.repo.py_files('dashlive/server/options'):
        tree = rep.repo.tree(rel)
        for fn in [n for n in ast.walk(tree) if isinstance(n, (ast.FunctionDef, ast.AsyncFunctionDef))]:
            k, whole = whole_reads_in_item_loops(fn)
            if not k:
                continue
            n_split += k
            construct = f'{rel}::{fn.name}'
            if not whole:
                rep.ok('R07.5', construct, 'items decided from the item', f'{k} loop(s) over the pieces of a text')
            for loop, base, use in whole:
                rep.fail('R07.5', construct, f'items decided from the item:{base}',
                         f'inside the loop over `{norm(loop.iter)}` the whole text `{base}` is read at line {use.lineno}: what '
                         'one item of the list means depends on how the others are written', use)
    if n_split < 2:
        raise AnalysisError('option parsers: fewer than 2 loops over the pieces of an option text found')


def r07_6(rep: Report) -> None:
    """R07.6  OptionsContainer.clone hands out no reference to a nested container of its source: a value read
    from `self` (getattr / subscript / attribute, or `kwargs.get(key, <such a value>)`) is stored into the
    arguments of the new container only on paths that imply it is not an OptionsContainer.  The process-wide
    default options are cloned for every request and the result is filled in place
    (`result[opt.prefix].add_field(..)`): a shared group container turns one request's values into everybody's
    defaults, so they vanish from media URLs (equal to the "default") and reach other requests."""
    from ..flow import Disjunctive, Flow
    from ..pathcond import PathCond, entails as pc_entails, f_not, show as pc_show
    rel = f'{OPT}/container.py'
    tree = rep.repo.tree(rel)
    cls = need(find_class(tree, 'OptionsContainer'), 'OptionsContainer')
    fn = need(find_func(cls, 'clone'), 'OptionsContainer.clone')
    construct = f'{rel}::OptionsContainer.clone'

    def from_self(e: ast.AST, facts) -> bool:
        if isinstance(e, ast.Call) and call_name(e) == 'getattr' and e.args and norm(e.args[0]) == 'self':
            return True
        if isinstance(e, ast.Subscript) and norm(e.value) in ('self', 'self._fields', 'self.__dict__'):
            return True
        if isinstance(e, ast.Attribute) and norm(e.value) == 'self':
            return True
        if isinstance(e, ast.Name):
            return f'own:{e.id}' in facts
        if isinstance(e, ast.Call) and isinstance(e.func, ast.Attribute) and e.func.attr in ('get', 'pop', 'setdefault') \
                and len(e.args) == 2:
            return from_self(e.args[1], facts)
        if isinstance(e, ast.IfExp):
            return from_self(e.body, facts) or from_self(e.orelse, facts)
        if isinstance(e, ast.BoolOp):
            return any(from_self(v, facts) for v in e.values)
        return False
    sites: list = []

    def upd(st, facts):
        facts = set(facts)
        if isinstance(st, (ast.Assign, ast.AnnAssign)) and getattr(st, 'value', None) is not None:
            tgs = st.targets if isinstance(st, ast.Assign) else [st.target]
            own = from_self(st.value, facts)
            for t in tgs:
                if isinstance(t, ast.Name):
                    facts.discard(f'own:{t.id}')
                    if own:
                        facts.add(f'own:{t.id}')
        return facts

    def on_stmt(st, states):
        if not isinstance(st, ast.Assign):
            return
        stores = [t for t in st.targets if isinstance(t, ast.Subscript) and isinstance(t.value, ast.Name)]
        if not stores:
            return
        for x in states:
            if from_self(st.value, x[2]) and not isinstance(st.value, (ast.Attribute,)):
                goal = f_not(('atom', f'isinstance({norm(st.value)}, OptionsContainer)'))
                sites.append((st, pc_entails(x[0], goal) is True, pc_show(x[0])))
            elif isinstance(st.value, ast.Name):
                sites.append((st, True, 'value built on this path'))
    Flow(Disjunctive(PathCond(upd=upd), cap=256), on_stmt=on_stmt).run(fn, [PathCond.initial()])
    if not sites:
        raise AnalysisError('OptionsContainer.clone: no store into the arguments of the new container found')
    bad = [x for x in sites if not x[1]]
    if bad:
        st, _ok, pc = bad[0]
        rep.fail('R07.6', construct, 'nested containers are copied',
                 f'`{short(st, 50)}` stores a value read from the source container on a path that does not imply it '
                 f'is not an OptionsContainer (path: {pc[:140]}): the clone shares the group container with its source, '
                 'and the cached default options are filled in place through it', st)
    else:
        rep.ok('R07.6', construct, 'nested containers are copied', f'{len(sites)} store(s) on all paths')


def analyse(rep: Report) -> None:
    rep.explanation = (
        'Static reconstruction of the option registry (all DashOption constructions, the error '
        'factory, and the per-event generator evaluated over the DEFAULT_VALUES literals), '
        'summaries of every from_string/to_string pair (result types, none-literal handling, '
        'quoting, separators) compared as inverse pairs, usage-mask reachability of option reads '
        'on the media path, and ordering/sibling rules in manifest_context. Decides the structural '
        'clauses of C07 for every registered option; float formatting identity is not decided.')
    rep.rule('R07.1', 'from_string / to_string form an inverse pair for values forwarded to media URLs',
             floor=80)
    rep.rule('R07.2', 'options read while generating media carry a media usage', floor=20)
    rep.rule('R07.3', 'resolved start and depth are stored before URL parameters are computed', floor=3)
    rep.rule('R07.4', 'usage mask / exclude / defaults agree between the parameter generators and the '
                      'sets reach the matching media type', floor=11)
    rep.rule('R07.5', 'option parsers keep no state between the items of a list value', floor=3)
    rep.rule('R07.6', 'a cloned options container shares no group container with its source', floor=1)
    rep.rule('R07.7', 'error positions forwarded in media URLs are converted with the representation of their own media type (rule of C16)', floor=1)
    rep.rule('R07.8', 'a date-time option written into a URL is parsed back to the same instant and offset (rules of C19)', floor=1)
    idx = Index(rep.repo)
    cg = CallGraph(idx)
    opts = read_registry(rep, idx)
    rep.extra['registry'] = [{'cgi': o.cgi_name, 'name': (o.prefix + '.' if o.prefix else '') + o.full_name,
                              'usage': sorted(o.usage), 'from': o.from_string, 'to': o.to_string}
                             for o in opts]
    r07_1(rep, idx, opts)
    r07_1e(rep, idx)
    r07_2(rep, idx, cg, opts)
    r07_3(rep, idx)
    r07_4(rep, idx)
    r07_5(rep)
    r07_6(rep)
    from ..core import lift
    from . import c16 as _c16

    def _run(sub, _idx=idx):
        sub.rule('R16.10', 'error positions are converted with the representation of their own media type', floor=0)
        _c16.r16_10(sub, _idx)
    lift(rep, 'R07.7', 'C16', _run, ('R16.10',), 'dashlive/server/requesthandler/manifest_context.py::ManifestContext.calculate_cgi_parameters',
         'verr / aerr / terr positions use their own representation')
    # the explicit availability start travels through URL text: ISO date-time formatter and parser (C19's rules)
    from .c19 import lift_into
    lift_into(rep, 'R07.8', ('R19.2', 'R19.3', 'R19.7'), 'ISO date-time text of the start option: formatted and parsed back to the same instant')

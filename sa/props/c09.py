"""C09 - manifests and patches evolve consistently (patch/manifest agreement only).

R09.1  the patch template and the manifest template render mpdId / MPD@id from
       the same expression, the patch's XPath selectors address attributes the
       manifest emits with the same expressions, both include the same
       segment/timeline.xml, and PatchLocation is emitted under options.patch.
R09.2  the options forced by ServePatch.get are exactly the cgi names excluded
       from the PatchLocation query, so the patch is rendered under the option
       vector of the manifest.
R09.3  originalPublishTime derives from the URL's publish value, which the
       manifest sets from int(publishTime.timestamp()); every manifest that
       advertises patches satisfies what ServePatch demands.
"""
from __future__ import annotations

import ast
import re

from ..core import (AnalysisError, Report, call_name, find_class, find_func, need, norm, short, subst_locals)
from ..index import Index
from ..templates import TemplateSet, collect_tags
from .c07 import read_registry

MQ = 'dashlive/server/requesthandler/manifest_requests.py'
MC = 'dashlive/server/requesthandler/manifest_context.py'


def r09_1(rep: Report) -> None:
    rid = 'R09.1'
    patches = [p.split('templates/patches/')[1] for p in rep.repo.files('templates/patches', ('.xml',))]
    if not patches:
        raise AnalysisError('no patch templates')
    for pname in patches:
        mname = pname.replace('.xml', '.mpd')
        if not rep.repo.exists(f'templates/manifests/{mname}'):
            rep.fail(rid, f'templates/patches/{pname}', 'has a manifest',
                     f'patch template without manifests/{mname}')
            continue
        ts = TemplateSet(rep.repo)
        ts.analyse_root(f'manifests/{mname}')
        ts.analyse_root(f'patches/{pname}')
        mt = collect_tags(ts, f'manifests/{mname}')
        pt = collect_tags(ts, f'patches/{pname}')
        pc = f'templates/patches/{pname}'

        def attr_expr(tags, tag, attr):
            out = set()
            for t in tags:
                if t.name == tag:
                    for a in t.attrs:
                        if a.name == attr and a.value_exprs:
                            out.add(a.value_exprs[0].expr)
            return out
        mid = attr_expr(mt, 'MPD', 'id')
        pid = attr_expr(pt, 'Patch', 'mpdId')
        if mid and mid == pid:
            rep.ok(rid, pc, 'mpdId == MPD@id', str(sorted(mid)))
        else:
            rep.fail(rid, pc, 'mpdId == MPD@id',
                     f'the patch renders mpdId from {sorted(pid)}, the manifest MPD@id from {sorted(mid)}')
        # selectors
        src = rep.repo.source(f'templates/patches/{pname}')
        sels = re.findall(r'sel="([^"]+)"', src)
        if not sels:
            raise AnalysisError('no selectors in the patch template')
        for sel in sels:
            key = f'selector {sel[:70]}'
            ok = True
            why = ''
            for elt, attr, expr in re.findall(r"(\w+)\[@(\w+)='\{\{\s*([^}]+?)\s*\}\}'\]", sel):
                mexpr = attr_expr(mt, elt, attr)
                if expr not in mexpr:
                    ok, why = False, (f'{elt}[@{attr}] is selected by `{expr}` but the manifest '
                                      f'renders {elt}@{attr} from {sorted(mexpr)}')
            for elt in re.findall(r'/(\w+)\[1\]', sel):
                if not any(t.name == elt for t in mt):
                    ok, why = False, f'the manifest never emits <{elt}>'
            m = re.match(r'/MPD/@(\w+)', sel)
            if m and not any(a.name == m.group(1) for t in mt if t.name == 'MPD' for a in t.attrs):
                ok, why = False, f'MPD@{m.group(1)} is not an attribute of the manifest'
            if ok:
                rep.ok(rid, pc, key)
            else:
                rep.fail(rid, pc, key, why)
        # same timeline template on both sides
        mi = 'segment/timeline.xml' in ts.reachable(f'manifests/{mname}')
        pi = 'segment/timeline.xml' in ts.reachable(f'patches/{pname}')
        if mi and pi:
            rep.ok(rid, pc, 'shared segment/timeline.xml')
        else:
            rep.fail(rid, pc, 'shared segment/timeline.xml',
                     'manifest and patch do not render the SegmentTimeline from the same template')
        # the timeline replacement is emitted whenever the manifest emits the timeline: the patch may
        # only repeat conditions of the manifest (a loop over X there may be `if X` here)
        tsm = TemplateSet(rep.repo)
        tsm.analyse_root(f'manifests/{mname}')
        tsp = TemplateSet(rep.repo)
        tsp.analyse_root(f'patches/{pname}')
        m_guards: set[str] = set()
        for lit in tsm.literals:
            if '<SegmentTimeline' in lit.text or 'SegmentTimeline>' in lit.text:
                for g in lit.guards:
                    m_guards.add(g)
                    if g.startswith('for ') and ' in ' in g:
                        m_guards.add(g.split(' in ', 1)[1])
        p_lits = [lit for lit in tsp.literals if lit.template == f'patches/{pname}'
                  and 'SegmentTimeline[1]' in lit.text]
        if not p_lits:
            raise AnalysisError(f'{pc}: no replace operation for the SegmentTimeline')
        for lit in p_lits:
            extra = [g for g in lit.guards if not g.startswith(('for ', 'with ')) and g not in m_guards]
            if extra:
                rep.fail(rid, pc, 'timeline replaced whenever the manifest has one',
                         f'the SegmentTimeline replace operation is only emitted when `{extra[0]}`, a '
                         'condition the manifest does not put on its SegmentTimeline: a patch can leave the '
                         'client with a stale timeline while the full manifest has moved on', file=pc)
            else:
                rep.ok(rid, pc, 'timeline replaced whenever the manifest has one',
                       f'guards {[g for g in lit.guards if not g.startswith(("for ", "with "))]} all occur in the manifest')
        # publishTime replace uses the same expression as MPD@publishTime
        mp = attr_expr(mt, 'MPD', 'publishTime')
        pp = {s.expr for s in ts.sinks if s.template == f'patches/{pname}'
              and 'publishTime' in s.literal_before and 'sel=' in s.literal_before}
        if mp and (not pp or pp == mp):
            rep.ok(rid, pc, 'publishTime expression')
        else:
            rep.fail(rid, pc, 'publishTime expression',
                     f'patch publishTime {sorted(pp)} vs manifest {sorted(mp)}')
        # PatchLocation only under options.patch in the manifest; ttl/location expressions equal
        ploc_m = [s for s in ts.sinks if s.template == f'manifests/{mname}' and s.expr.startswith('mpd.patch.')]
        ploc_p = [s for s in ts.sinks if s.template == f'patches/{pname}' and s.expr.startswith('mpd.patch.')]
        if ploc_m and all('options.patch' in s.guards for s in ploc_m):
            rep.ok(rid, f'templates/manifests/{mname}', 'PatchLocation under options.patch')
        else:
            rep.fail(rid, f'templates/manifests/{mname}', 'PatchLocation under options.patch',
                     'PatchLocation is emitted without the options.patch guard')
        if {s.expr for s in ploc_m} == {s.expr for s in ploc_p}:
            rep.ok(rid, pc, 'PatchLocation expressions agree')
        else:
            rep.fail(rid, pc, 'PatchLocation expressions agree',
                     f'{sorted({s.expr for s in ploc_p})} vs {sorted({s.expr for s in ploc_m})}')


def r09_2(rep: Report, idx: Index) -> None:
    rid = 'R09.2'
    tree = rep.repo.tree(MQ)
    cls = need(find_class(tree, 'ServePatch'), 'ServePatch')
    get = need(find_func(cls, 'get'), 'ServePatch.get')
    forced: dict[str, str] = {}
    for n in ast.walk(get):
        if isinstance(n, ast.Call) and call_name(n) == 'options.update':
            for k in n.keywords:
                forced[k.arg] = norm(k.value)
    opts = read_registry(rep, idx)
    cgi_of = {o.full_name: o.cgi_name for o in opts if not o.prefix}
    forced_cgi = {cgi_of.get(k, k) for k in forced}
    mt = rep.repo.tree(MC)
    mcls = need(find_class(mt, 'ManifestContext'), 'ManifestContext')
    cg = need(find_func(mcls, 'calculate_cgi_parameters'), 'calculate_cgi_parameters')
    # the parameter set handed to the collection as `patch=` (directly or through a local)
    patch_src = None
    for n in ast.walk(cg):
        if isinstance(n, ast.Call) and call_name(n) == 'CgiParameterCollection':
            v = next((k.value for k in n.keywords if k.arg == 'patch'), None)
            if isinstance(v, ast.Name):
                ds = [a_ for a_ in ast.walk(cg) if isinstance(a_, ast.Assign) and norm(a_.targets[0]) == v.id]
                v = ds[0].value if len(ds) == 1 else None
            patch_src = v
    excl = set()
    extra_filters: list[str] = []
    if isinstance(patch_src, ast.DictComp) and len(patch_src.generators) == 1:
        # {name: value for name, value in <manifest parameters>.items() if name not in {...}}
        g = patch_src.generators[0]
        src_ = g.iter.func.value if isinstance(g.iter, ast.Call) and isinstance(g.iter.func, ast.Attribute) \
            and g.iter.func.attr == 'items' else None
        for cond in g.ifs:
            parts = cond.values if isinstance(cond, ast.BoolOp) and isinstance(cond.op, ast.And) else [cond]
            for pc_ in parts:
                lit = None
                if isinstance(pc_, ast.Compare) and len(pc_.ops) == 1 and isinstance(pc_.ops[0], ast.NotIn):
                    try:
                        lit = set(ast.literal_eval(pc_.comparators[0]))
                    except Exception:
                        lit = None
                if lit is not None:
                    excl |= lit
                else:
                    extra_filters.append(norm(pc_))
        if isinstance(src_, ast.Name):
            ds = [a_ for a_ in ast.walk(cg) if isinstance(a_, ast.Assign) and norm(a_.targets[0]) == src_.id]
            patch_src = ds[0].value if len(ds) == 1 else None
        else:
            patch_src = None
    if not (isinstance(patch_src, ast.Call) and (call_name(patch_src) or '').endswith('generate_cgi_parameters')):
        raise AnalysisError('calculate_cgi_parameters: the patch parameter set is not produced by '
                            'generate_cgi_parameters')
    if extra_filters:
        rep.fail(rid, f'{MC}::ManifestContext.calculate_cgi_parameters', 'patch query carries every other option',
                 f'the PatchLocation query drops parameters under `{extra_filters[0][:80]}`: options that shape the '
                 'manifest (e.g. the clock drift) are missing when the patch is rendered, so patch and manifest '
                 'are built from different option vectors', cg)
    else:
        rep.ok(rid, f'{MC}::ManifestContext.calculate_cgi_parameters', 'patch query carries every other option')
    # the names the patch query leaves out: the value of `exclude=` at that call, as a set of constants
    # (term evaluation of calculate_cgi_parameters: set displays, union / update, local copies), minus
    # what every other parameter set leaves out as well
    from ..termeval import TermEval, UNKNOWN_MEMBER
    ev = TermEval({})
    seen_excl: dict[int, object] = {}

    def observe(call, env):
        if (call_name(call) or '').endswith('generate_cgi_parameters'):
            kwv = next((k.value for k in call.keywords if k.arg == 'exclude'), None)
            seen_excl[id(call)] = ev.eval(kwv, env) if kwv is not None else set()
    ev.observe = observe
    ev.run(cg, {})
    ev.observe = None
    mine = seen_excl.get(id(patch_src))
    if not isinstance(mine, (set, frozenset)) or UNKNOWN_MEMBER in mine:
        raise AnalysisError('calculate_cgi_parameters: the exclude set of the patch parameters is not a set of constants')
    others = [v for k, v in seen_excl.items() if k != id(patch_src) and isinstance(v, (set, frozenset))]
    common = set.intersection(*[set(o) for o in others]) if others else set()
    excl |= set(mine) - common
    c = f'{MQ}::ServePatch.get'
    if forced and forced_cgi == excl and all(v == 'True' for v in forced.values()):
        rep.ok(rid, c, 'forced options == excluded query names', f'{sorted(forced)} / {sorted(excl)}')
    else:
        rep.fail(rid, c, 'forced options == excluded query names',
                 f'ServePatch forces {forced} (cgi {sorted(forced_cgi)}) but the PatchLocation query '
                 f'excludes {sorted(excl)}: the patch is rendered under a different option vector '
                 'than the manifest it patches', get)
    # patch query carries everything else: generated without a usage mask
    if any(k.arg == 'use' and not (isinstance(k.value, ast.Constant) and k.value.value is None)
           for k in patch_src.keywords):
        rep.fail(rid, f'{MC}::ManifestContext.calculate_cgi_parameters', 'patch query unmasked',
                 'patch parameters are filtered by a usage mask', patch_src)
    else:
        rep.ok(rid, f'{MC}::ManifestContext.calculate_cgi_parameters', 'patch query unmasked')
    # same option pipeline as ServeManifest: calculate_options(mode='live', restrictions, features)
    sm = need(find_func(need(find_class(tree, 'ServeManifest'), 'ServeManifest'), 'get'), 'ServeManifest.get')

    def copts(fn):
        for n in ast.walk(fn):
            if isinstance(n, ast.Call) and call_name(n) == 'self.calculate_options':
                return {k.arg: norm(k.value) for k in n.keywords}
        return {}
    a, b = copts(sm), copts(get)
    if a.get('restrictions') == b.get('restrictions') and a.get('features') == b.get('features') \
            and b.get('mode') == "'live'" and a.get('stream') == b.get('stream'):
        rep.ok(rid, c, 'options parsed like the manifest handler')
    else:
        rep.fail(rid, c, 'options parsed like the manifest handler',
                 f'ServeManifest parses options with {a}, ServePatch with {b}', get)
    if 'options.remove_unused_parameters' in norm(sm) and "options.remove_unused_parameters('live')" in norm(get):
        rep.ok(rid, c, 'unused parameters removed on both sides')
    else:
        rep.fail(rid, c, 'unused parameters removed on both sides',
                 'only one of the handlers prunes unused parameters', get)


def r09_3(rep: Report) -> None:
    rid = 'R09.3'
    tree = rep.repo.tree(MQ)
    cls = need(find_class(tree, 'ServePatch'), 'ServePatch')
    get = need(find_func(cls, 'get'), 'ServePatch.get')
    c = f'{MQ}::ServePatch.get'
    a = [n for n in ast.walk(get) if isinstance(n, ast.Assign) and norm(n.targets[0]) == 'original_publish_time']
    if a and re.fullmatch(r'datetime\.datetime\.fromtimestamp\(publish, tz=UTC\(\)\)', norm(a[0].value)) \
            and 'original_publish_time=original_publish_time' in norm(get):
        rep.ok(rid, c, 'originalPublishTime = fromtimestamp(publish, UTC)')
    else:
        rep.fail(rid, c, 'originalPublishTime = fromtimestamp(publish, UTC)',
                 'originalPublishTime is not derived from the publish value of the URL', get)
    mt = rep.repo.tree(MC)
    init = need(find_func(need(find_class(mt, 'ManifestContext'), 'ManifestContext'), '__init__'), '__init__')
    kw = None
    for n in ast.walk(init):
        if isinstance(n, ast.Call) and call_name(n) == 'flask.url_for' and n.args \
                and norm(n.args[0]) == "'mpd-patch'":
            kw = {k.arg: norm(subst_locals(init, k.value, allow_calls=True)) for k in n.keywords}
    c2 = f'{MC}::ManifestContext.__init__'
    if kw and kw.get('publish') == 'int(timing.publishTime.timestamp())':
        rep.ok(rid, c2, 'publish = int(publishTime.timestamp())')
    else:
        rep.fail(rid, c2, 'publish = int(publishTime.timestamp())',
                 f'PatchLocation URL is built with {kw}', init)
    # the constructor parameter `manifest` is what it stored as self.manifest
    stored = any(isinstance(a_, ast.Assign) and norm(a_.targets[0]) == 'self.manifest' and norm(a_.value) == 'manifest'
                 for a_ in ast.walk(init))
    if kw and (kw.get('manifest') == 'self.manifest.name' or (stored and kw.get('manifest') == 'manifest.name')) \
            and kw.get('stream') == 'stream.directory':
        rep.ok(rid, c2, 'patch URL names the same manifest and stream')
    else:
        rep.fail(rid, c2, 'patch URL names the same manifest and stream', f'{kw}', init)
    # publishTime has whole seconds, so int() loses nothing
    tt = rep.repo.tree('dashlive/mpeg/dash/timing.py')
    tinit = need(find_func(need(find_class(tt, 'DashTiming'), 'DashTiming'), '__init__'), 'DashTiming.__init__')
    # the time algebra of C08 (sa/timealg.py) interprets DashTiming.__init__ + calculate_live_params:
    # on every exit publishTime must be known to lie on a whole second, whatever the start value
    from . import c08
    sub = Report('C08', rep.repo, 'quick')
    c08.analyse(sub)
    frac = [f for f in sub.findings if f.rule == 'R08.2' and f.key.startswith('publishTime whole second')]
    from ..core import load_known, match_known
    known_c08, _ = load_known('C08')
    frac = [f for f in frac if match_known(f, known_c08) is None]
    tconstruct = 'dashlive/mpeg/dash/timing.py::DashTiming.calculate_live_params'
    if not frac:
        rep.ok(rid, tconstruct, 'publishTime has whole seconds',
               'every exit of the live timing calculation implies a whole-second publishTime')
    else:
        rep.fail(rid, tconstruct, 'publishTime has whole seconds',
                 f'publishTime keeps sub-second precision that int(timestamp()) in the patch URL drops '
                 f'({frac[0].key}: {frac[0].message[:120]})', tinit)
    # ... and a symbolic start backs off only at the start of the calendar unit it is anchored at (C08 R08.9):
    # otherwise availabilityStartTime, and with it every SegmentTimeline @t, moves backward between a manifest
    # and the patch that is applied to it
    back = [f for f in sub.findings if f.rule == 'R08.9' and f.key.startswith('back-off')
            and match_known(f, known_c08) is None]
    if not back:
        rep.ok(rid, tconstruct, 'availabilityStartTime stands still between a manifest and its patch',
               'every back-off of a symbolic start is confined to the start of its calendar unit')
    else:
        rep.fail(rid, tconstruct, 'availabilityStartTime stands still between a manifest and its patch',
                 f'{back[0].key}: {back[0].message[:260]}', tinit)
    # manifests that advertise patches satisfy ServePatch's demands
    mtree = rep.repo.tree('dashlive/server/manifests.py')
    n = 0
    for node in ast.walk(mtree):
        if isinstance(node, ast.Call) and call_name(node) == 'DashManifest':
            kws = {k.arg: k.value for k in node.keywords}
            feats = kws.get('features')
            if feats is None or "'patch'" not in norm(feats):
                continue
            n += 1
            name = norm(kws.get('name')) if 'name' in kws else '?'
            modes = None
            r = kws.get('restrictions')
            if isinstance(r, ast.Dict):
                for k, v in zip(r.keys, r.values):
                    if isinstance(k, ast.Constant) and k.value == 'mode':
                        modes = norm(v)
            okf = "'segmentTimeline'" in norm(feats)
            okm = modes is None or "'live'" in modes
            has_tpl = rep.repo.exists(f"templates/patches/{name.strip(chr(39))}.xml")
            if okf and okm and has_tpl:
                rep.ok(rid, f'dashlive/server/manifests.py::{name}', 'patch-capable manifest is accepted by ServePatch')
            else:
                rep.fail(rid, f'dashlive/server/manifests.py::{name}', 'patch-capable manifest is accepted by ServePatch',
                         f'features include patch but segmentTimeline={okf}, live allowed={okm}, '
                         f'patch template exists={has_tpl}', node)
    if n == 0:
        raise AnalysisError('no manifest advertises the patch feature')


def r09_4(rep: Report) -> None:
    """get_segment_index: the search starts with (mod_segment = 1, seg_start_tc = origin_time).
    Every other place that puts mod_segment back to 1 (the wrap into the next loop of the media)
    must re-establish that pair after its last change of origin_time, otherwise the first segment
    of the next loop starts at origin + own duration instead of origin + reference duration and
    two manifests that reach the same segment through different loops disagree on S@t."""
    rid = 'R09.4'
    rel = 'dashlive/mpeg/dash/representation.py'
    tree = rep.repo.tree(rel)
    cls = need(find_class(tree, 'Representation'), 'Representation')
    fn = need(find_func(cls, 'get_segment_index'), 'Representation.get_segment_index')
    construct = f'{rel}::Representation.get_segment_index'

    def is_assign(st, name, value=None):
        tgt = val = None
        if isinstance(st, ast.Assign) and len(st.targets) == 1:
            tgt, val = st.targets[0], st.value
        elif isinstance(st, ast.AnnAssign) and st.value is not None:
            tgt, val = st.target, st.value
        if tgt is None or norm(tgt) != name:
            return False
        return value is None or norm(val) == value

    resets = []
    for blk_owner in ast.walk(fn):
        for field in ('body', 'orelse', 'finalbody'):
            blk = getattr(blk_owner, field, None)
            if not isinstance(blk, list):
                continue
            for i, st in enumerate(blk):
                if is_assign(st, 'mod_segment', '1'):
                    resets.append((blk, i, st))
    if not resets:
        raise AnalysisError('get_segment_index: no `mod_segment = 1` found')
    for blk, i, st in resets:
        # the pair: a later (or earlier, same block) `seg_start_tc = origin_time` with no change of
        # origin_time after it in this block
        last_origin = max([j for j, x in enumerate(blk)
                           if isinstance(x, (ast.Assign, ast.AugAssign, ast.AnnAssign))
                           and norm(x.targets[0] if isinstance(x, ast.Assign) else x.target) == 'origin_time']
                          or [-1])
        pair = [j for j, x in enumerate(blk) if is_assign(x, 'seg_start_tc', 'origin_time')]
        key = f'mod_segment = 1 @{"init" if blk is fn.body else "wrap"}'
        if pair and max(pair) > last_origin:
            rep.ok(rid, construct, key, 'seg_start_tc = origin_time follows the last change of origin_time')
        elif pair:
            rep.fail(rid, construct, key,
                     'seg_start_tc is set from origin_time before origin_time is advanced: the next loop '
                     'starts at the previous origin', st)
        else:
            rep.fail(rid, construct, key,
                     'mod_segment is put back to 1 without `seg_start_tc = origin_time`: after the wrap '
                     'the first segment of the next loop starts at origin + own media duration '
                     'instead of the new origin (drift between audio and the timing reference)', st)


def nearest_search_threshold(rep: Report, rid: str) -> None:
    """get_segment_index looks for the segment whose start is nearest the timecode: it steps over a segment while
    the running start plus *half of that segment's duration* is still below the target.  The quantity that is
    halved in the test and the quantity the body adds to the running start are the same expression - the duration
    of the segment at hand.  With the nominal `segment_duration` in the test (or the duration of a neighbour) the
    choice is off by one wherever stored durations differ from the nominal one (audio, text tracks), and numbers
    and times map to other segments than the ones the manifest lists."""
    rel = 'dashlive/mpeg/dash/representation.py'
    tree = rep.repo.tree(rel)
    cls = need(find_class(tree, 'Representation'), 'Representation')
    fn = need(find_func(cls, 'get_segment_index'), 'Representation.get_segment_index')
    construct = f'{rel}::Representation.get_segment_index'
    from ..core import subst_locals
    n = 0
    for w in [x for x in ast.walk(fn) if isinstance(x, ast.While)]:
        # the tests that end the search: the loop test, or `if <test>: break` inside a `while True`
        tests = [(w.test, w)] + [(i.test, i) for i in ast.walk(w) if isinstance(i, ast.If)
                                and any(isinstance(b, ast.Break) for b in i.body)]
        for a in [a for a in ast.walk(w) if isinstance(a, ast.AugAssign) and isinstance(a.op, ast.Add)
                  and isinstance(a.target, ast.Name) and not isinstance(a.value, ast.Constant)]:
            # the running start: stepped by a duration and read by a deciding test (the segment counter is stepped by 1)
            deciding = [(t, at) for t, at in tests if any(isinstance(x, ast.Name) and x.id == a.target.id for x in ast.walk(t))]
            if not deciding:
                continue
            step = norm(subst_locals(fn, a.value, allow_calls=True))
            for t, at in deciding:
                n += 1
                test = norm(subst_locals(fn, t, allow_calls=True))
                extra = [x for x in _additive_terms(t, a.target.id)]
                key = f'search ends on {short(t, 40)}'
                if not extra:
                    rep.fail(rid, construct, key,
                             f'the search decides on the *start* `{a.target.id}` alone (`{norm(t)}`): nothing of the segment\'s own '
                             'duration enters the test, the result is not the nearest start', at)
                    continue
                ok = all(step in norm(subst_locals(fn, x, allow_calls=True)) for x in extra)
                if ok:
                    rep.ok(rid, construct, key, f'threshold uses the stepped duration `{step}`')
                else:
                    rep.fail(rid, construct, key,
                             f'the loop steps over `{step}` but decides with `{", ".join(norm(x) for x in extra)}` '
                             f'(test `{test[:90]}`): where the stored duration of a segment differs from that quantity the segment '
                             'chosen is not the one whose start is nearest the target', at)
    if n == 0:
        raise AnalysisError('get_segment_index: no `while <running start + ..> < target: <running start> += <duration>` search found')


def _additive_terms(test: ast.AST, var: str) -> list[ast.AST]:
    """the terms added to `var` in the side of a comparison that mentions it"""
    out: list[ast.AST] = []
    for c in ast.walk(test):
        if isinstance(c, ast.Compare):
            for side in [c.left] + list(c.comparators):
                if not any(isinstance(x, ast.Name) and x.id == var for x in ast.walk(side)):
                    continue
                terms: list[ast.AST] = []

                def flat(e):
                    if isinstance(e, ast.BinOp) and isinstance(e.op, ast.Add):
                        flat(e.left)
                        flat(e.right)
                    else:
                        terms.append(e)
                flat(side)
                out += [t for t in terms if not (isinstance(t, ast.Name) and t.id == var)]
    return out


def r09_7(rep: Report) -> None:
    """R09.7  calculate_segment_from_timecode stands between generateSegmentTimeline and get_segment_index: what it
    returns is the triple get_segment_index found, element by element (in its own order), with no arithmetic in
    between.  An "adjustment" there (a loop subtracted when the origin looks late) moves the first S@t of one
    manifest a whole loop away from that of the manifest before it."""
    from ..core import subst_locals
    rid = 'R09.7'
    rel = 'dashlive/mpeg/dash/representation.py'
    tree = rep.repo.tree(rel)
    cls = need(find_class(tree, 'Representation'), 'Representation')
    fn = need(find_func(cls, 'calculate_segment_from_timecode'), 'Representation.calculate_segment_from_timecode')
    construct = f'{rel}::Representation.calculate_segment_from_timecode'
    calls = [a for a in ast.walk(fn) if isinstance(a, ast.Assign) and isinstance(a.value, ast.Call)
             and (call_name(a.value) or '').endswith('get_segment_index')]
    if len(calls) != 1 or not isinstance(calls[0].targets[0], (ast.Tuple, ast.Name)):
        raise AnalysisError('calculate_segment_from_timecode: the call of get_segment_index was not found (inlined?)')
    tg = calls[0].targets[0]
    names = [e.id for e in tg.elts if isinstance(e, ast.Name)] if isinstance(tg, ast.Tuple) else [tg.id]
    passing = {id(calls[0])}
    if isinstance(tg, ast.Name):
        # `found = self.get_segment_index(..)` then `a, b, c = found`: the unpacking hands the elements on
        for a in ast.walk(fn):
            if isinstance(a, ast.Assign) and isinstance(a.value, ast.Name) and a.value.id == tg.id \
                    and isinstance(a.targets[0], ast.Tuple) and all(isinstance(e, ast.Name) for e in a.targets[0].elts):
                names = [e.id for e in a.targets[0].elts]
                passing.add(id(a))
                tg = a.targets[0]
    rets = [r for r in ast.walk(fn) if isinstance(r, ast.Return) and r.value is not None]
    if not rets:
        raise AnalysisError('calculate_segment_from_timecode: no return')
    # any other store into one of the names, after the call
    stores = [st for st in ast.walk(fn) if isinstance(st, (ast.Assign, ast.AugAssign, ast.AnnAssign)) and id(st) not in passing
              and any(isinstance(x, ast.Name) and x.id in names and isinstance(x.ctx, ast.Store) for x in ast.walk(st))]
    for r in rets:
        elts = r.value.elts if isinstance(r.value, ast.Tuple) else [r.value]
        plain = all(isinstance(e, ast.Name) and e.id in names for e in elts) or \
            (isinstance(r.value, ast.Name) and r.value.id in names)
        if plain and not stores and (isinstance(tg, ast.Name) or sorted(e.id for e in elts) == sorted(names)):
            rep.ok(rid, construct, 'the index triple is handed on unchanged', ', '.join(norm(e) for e in elts))
        else:
            bad = stores[0] if stores else r
            rep.fail(rid, construct, 'the index triple is handed on unchanged',
                     f'what get_segment_index found ({", ".join(names)}) is changed before it is returned '
                     f'(`{short(bad, 70)}`): the start of the first listed segment no longer follows the nearest-start '
                     'search, and successive manifests can disagree by a whole loop of the media', bad)


def r09_6(rep: Report) -> None:
    """each URL the manifest advertises is completed with its own parameter set: the PatchLocation with
    `cgi_params.patch` (the request's options minus what ServePatch forces), the MPD Location with
    `cgi_params.manifest` (which also counts `update` up by one).  With the sets swapped every patch document
    advertises a PatchLocation one update further than the manifest of the same instant, so patch and manifest
    disagree from the first update on.  For every `PatchLocation(location=L)` / `self.locationURL = L` the
    dict_to_cgi_params(..) calls that reach L are collected through the definitions of L."""
    from ..core import subst_locals
    rid = 'R09.6'
    tree = rep.repo.tree(MC)
    cls = need(find_class(tree, 'ManifestContext'), 'ManifestContext')
    want = {'patch location': 'patch', 'manifest location': 'manifest'}
    found: dict[str, int] = {k: 0 for k in want}
    for m in [x for x in cls.body if isinstance(x, ast.FunctionDef)]:
        fn = find_func(cls, m.name) or m
        sinks: list[tuple[str, ast.AST, ast.AST]] = []
        for n in ast.walk(fn):
            if isinstance(n, ast.Call) and (call_name(n) or '').endswith('PatchLocation'):
                loc = next((k.value for k in n.keywords if k.arg == 'location'), n.args[0] if n.args else None)
                if loc is not None:
                    sinks.append(('patch location', loc, n))
            if isinstance(n, ast.Assign) and len(n.targets) == 1 and norm(n.targets[0]) == 'self.locationURL':
                sinks.append(('manifest location', n.value, n))
        for kind, loc, site in sinks:
            # every expression that flows into the location (flow-insensitive over the locals involved)
            exprs = [loc]
            names: set[str] = set()
            for _ in range(5):
                new = {x.id for e in exprs for x in ast.walk(e) if isinstance(x, ast.Name)} - names
                if not new:
                    break
                names |= new
                for a_ in ast.walk(fn):
                    if isinstance(a_, ast.Assign) and any(isinstance(t_, ast.Name) and t_.id in new for t_ in a_.targets):
                        exprs.append(a_.value)
                    elif isinstance(a_, ast.AugAssign) and isinstance(a_.target, ast.Name) and a_.target.id in new:
                        exprs.append(a_.value)
            sets = set()
            for e in exprs:
                for c in ast.walk(e):
                    if isinstance(c, ast.Call) and (call_name(c) or '').endswith('dict_to_cgi_params') and c.args:
                        sets.add(norm(subst_locals(fn, c.args[0])))
            found[kind] += 1
            construct = f'{MC}::ManifestContext.{fn.name}'
            expect = f'self.cgi_params.{want[kind]}'
            if sets == {expect}:
                rep.ok(rid, construct, kind, f'completed with {expect}')
            else:
                rep.fail(rid, construct, kind,
                         f'the {kind} is completed with {sorted(sets) or "no parameter set"}, not with `{expect}`: '
                         + ('the patch parameter set leaves out what ServePatch forces and keeps `update` as requested; with '
                            'another set every patch advertises a PatchLocation that differs from the one in the manifest of '
                            'the same instant' if kind == 'patch location' else
                            'the Location a client refreshes from must carry the manifest parameter set (update counted up)'),
                         site)
    for kind, n_ in found.items():
        if n_ == 0:
            raise AnalysisError(f'ManifestContext: no {kind} is built (PatchLocation(..) / self.locationURL)')


def analyse(rep: Report) -> None:
    rep.explanation = (
        'Only the clauses of C09 that are agreements between two pieces of source: template-AST '
        'comparison of the patch and the manifest it patches (ids, selectors, shared timeline '
        'template, PatchLocation), equality of the options ServePatch forces with the names the '
        'PatchLocation query omits, and the data path of originalPublishTime. The pairwise '
        'agreement of listed segments and monotonic windows is history/arithmetic and not decided.')
    rep.rule('R09.1', 'patch template addresses what the manifest template emits', floor=9)
    rep.rule('R09.2', 'patch is rendered under the option vector of the manifest', floor=4)
    rep.rule('R09.3', 'originalPublishTime and patch capability agree between the two endpoints', floor=5)
    rep.rule('R09.4', 'loop wrap re-establishes (mod_segment = 1, seg_start_tc = origin_time)', floor=1)
    rep.rule('R09.5', 'a segment is listed with the same start and duration whatever the window (S runs: rule of C06)', floor=1)
    rep.rule('R09.6', 'PatchLocation and Location are completed with their own parameter sets', floor=2)
    rep.rule('R09.7', 'calculate_segment_from_timecode hands on what get_segment_index found, unchanged', floor=1)
    rep.rule('R09.8', 'the nearest-start search decides with the duration of the segment it steps over', floor=1)
    idx = Index(rep.repo)
    r09_1(rep)
    r09_2(rep, idx)
    r09_3(rep)
    r09_4(rep)
    r09_6(rep)
    r09_7(rep)
    nearest_search_threshold(rep, 'R09.8')
    from ..core import lift
    from . import c06 as _c06

    def _run(sub):
        sub.rule('R06.11', 'an S run is extended only when the listed duration equals the duration of the run', floor=0)
        _c06.r06_11(sub)
    lift(rep, 'R09.5', 'C06', _run, ('R06.11',), 'dashlive/mpeg/dash/representation.py::Representation.generateSegmentTimeline',
         'S runs are extended on the listed duration')

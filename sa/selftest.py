"""Self-validation of the checkers (thorough tier).

A *variant* is the current source tree with one rule instance broken (or one
behaviour-preserving rewrite applied) by exact text replacement in an in-memory
overlay - nothing is written under /repo or /verif.  For a breaking variant the
property's analysis must report a finding of the expected rule on the expected
construct; for a neutral variant it must report nothing new.  A variant whose
anchor text is not present in the current tree (the tree under analysis may
already have been edited) is skipped and counted.
"""
from __future__ import annotations

import concurrent.futures as cf
import importlib
import os
from dataclasses import dataclass, field

from .core import AnalysisError, Repo, Report, load_known, match_known


@dataclass
class Variant:
    name: str
    edits: list[tuple[str, str, str]]            # (relative file, old text, new text)
    rule: str | None = None                      # expected rule id (None: neutral, must stay clean)
    construct: str = ''                          # substring of the expected construct
    note: str = ''


def _run_one(args) -> tuple[str, str, list[tuple[str, str, str]], str]:
    prop, v, baseline = args
    mod = importlib.import_module(f'sa.props.{prop.lower()}')
    base = Repo()
    overlay: dict[str, str] = {}
    for rel, old, new in v.edits:
        try:
            src = overlay.get(rel) or base.source(rel)
        except AnalysisError:
            return v.name, 'skipped', [], f'{rel} missing'
        if src.count(old) < 1:
            return v.name, 'skipped', [], f'anchor text not found in {rel}'
        overlay[rel] = src.replace(old, new, 1)
    repo = Repo(overlay=overlay)
    rep = Report(prop, repo, 'quick')
    err = ''
    try:
        mod.analyse(rep)
    except AnalysisError as e:
        err = f'analysis error: {e}'
    except Exception as e:  # pragma: no cover
        err = f'internal {type(e).__name__}: {e}'
    found = [f.ident() for f in rep.findings]
    new = [i for i in found if i not in baseline]
    if v.rule is not None:
        new = found          # a breaking variant counts when its finding is reported at all
    if err:
        return v.name, 'error', new, err
    return v.name, 'ran', new, ''


def run_variants(prop: str, variants: list[Variant], rep: Report) -> dict:
    baseline = {f.ident() for f in rep.findings}
    jobs = [(prop, v, baseline) for v in variants]
    results = {}
    workers = min(16, max(1, (os.cpu_count() or 2)))
    with cf.ProcessPoolExecutor(max_workers=workers) as ex:
        for name, status, new, err in ex.map(_run_one, jobs):
            results[name] = (status, new, err)
    out = {'variants': len(variants), 'detected': 0, 'neutral_clean': 0, 'skipped': [],
           'missed': [], 'false_alarm': [], 'details': []}
    ran_breaking = 0
    for v in variants:
        status, new, err = results[v.name]
        if status == 'skipped':
            out['skipped'].append(f'{v.name}: {err}')
            continue
        if v.rule is None:
            if status == 'error':
                out['false_alarm'].append(f'{v.name}: neutral rewrite breaks the analysis ({err})')
            elif new:
                out['false_alarm'].append(f'{v.name}: neutral rewrite reported {new[:2]}')
            else:
                out['neutral_clean'] += 1
                out['details'].append({'variant': v.name, 'kind': 'neutral', 'verdict': 'clean'})
            continue
        ran_breaking += 1
        hit = [i for i in new if i[0] == v.rule and (v.construct in i[1] or v.construct in i[2])]
        if hit:
            out['detected'] += 1
            out['details'].append({'variant': v.name, 'kind': 'breaking', 'verdict': 'detected',
                                   'reported': list(hit[0])})
        elif status == 'error' and v.rule == 'ANALYSIS-ERROR':
            out['detected'] += 1
            out['details'].append({'variant': v.name, 'kind': 'breaking',
                                   'verdict': 'fails closed', 'reported': err[:120]})
        else:
            out['missed'].append(f'{v.name}: expected {v.rule} on *{v.construct}*, got '
                                 f'{new[:3] or err or "nothing"}')
    if ran_breaking == 0 and variants:
        out['missed'].append('no breaking variant could be applied to the current tree')
    return out


def make_selftest(prop: str, variants: list[Variant]):
    def selftest(rep: Report) -> dict:
        return run_variants(prop, variants, rep)
    return selftest

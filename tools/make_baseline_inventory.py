#!/venv/bin/python
"""write sa/baseline_functions.json: the functions of the tree the rules were written against.
Helpers that are not in this inventory are inlined by sa/normalise.py before a rule looks at a function."""
import ast, json, pathlib, sys
sys.path.insert(0, '/verif')
from sa.normalise import qualnames
root = pathlib.Path('/repo')
out = {}
for p in sorted(root.glob('dashlive/**/*.py')):
    rel = str(p.relative_to(root))
    out[rel] = qualnames(ast.parse(p.read_text()))
pathlib.Path('/verif/sa/baseline_functions.json').write_text(json.dumps(out, indent=0, sort_keys=True) + '\n')
print(sum(len(v) for v in out.values()), 'functions in', len(out), 'files')

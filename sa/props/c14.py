"""C14 - timed events (layouts, field widths, loop progress, listing shape).

R14.1  layout agreement (E4) for the SCTE-35 codec classes, the MPEG section
       framing and EventMessageBox; plus protocol checks on the same classes
       (dispatcher/implementation method names, write_bytes argument roles,
       back-patched length fields overwritten where the placeholder was written).
R14.2  values handed to fixed-width SCTE-35 fields by create_binary_signal are
       bounded to the field width (constant, bool, masked, reduced or clamped).
R14.3  the emsg time field set under each version test is the field the
       EventMessageBox branch of that version encodes.
R14.4  the event loop makes progress: its step is guarded positive.
R14.5  the out-of-band listing enumerates ids 0..count-1 with times advancing
       by `interval` from `start`.
"""
from __future__ import annotations

import ast
import re

from ..core import (AnalysisError, Report, call_name, dotted, find_class, find_func, need,
                    norm, short)
from ..index import Index
from ..layout import Extractor, Item, If, Loop, linearise, canon, Unsupported
from .c04 import layout_rule

EV = 'dashlive/server/events'
SCTE = 'dashlive/scte35'


def r14_1_protocol(rep: Report, idx: Index) -> None:
    rid = 'R14.1p'
    mod = idx.by_rel[f'{SCTE}/descriptors.py']
    base = mod.classes.get('SpliceDescriptor')
    if base is None:
        raise AnalysisError('SpliceDescriptor vanished')
    # which method does the dispatcher call on the selected class?
    disp = base.methods.get('parse')
    called = None
    for n in ast.walk(disp.node):
        if isinstance(n, ast.Call) and isinstance(n.func, ast.Attribute) \
                and norm(n.func.value) == 'DescriptorClass':
            called = (n.func.attr, len(n.args))
    if called is None:
        raise AnalysisError('SpliceDescriptor.parse no longer dispatches')
    n_sub = 0
    for c in idx.subclasses(idx.classes[base.qual]):
        n_sub += 1
        construct = f'{c.rel}::{c.name}'
        m = c.methods.get(called[0])
        if m is None:
            own = [k for k in c.methods if k.startswith('parse')]
            rep.fail(rid, construct, f'implements {called[0]}',
                     f'SpliceDescriptor.parse calls DescriptorClass.{called[0]}(..) but {c.name} '
                     f'defines {own or "no parser"}: the inherited stub raises RuntimeError')
        else:
            n_args = len(m.node.args.args) - 1
            if n_args == called[1]:
                rep.ok(rid, construct, f'implements {called[0]}')
            else:
                rep.fail(rid, construct, f'implements {called[0]}',
                         f'{c.name}.{called[0]} takes {n_args} arguments, the dispatcher passes '
                         f'{called[1]}')
    if n_sub < 6:
        raise AnalysisError(f'only {n_sub} SpliceDescriptor subclasses')
    # write_bytes(field, length=None, value=None): first positional is the field *name*
    for rel in rep.repo.py_files(SCTE):
        tree = rep.repo.tree(rel)
        for n in ast.walk(tree):
            if isinstance(n, ast.Call) and isinstance(n.func, ast.Attribute) \
                    and n.func.attr == 'write_bytes':
                from ..core import enclosing_class, enclosing_function
                cl, fn = enclosing_class(n), enclosing_function(n)
                construct = f'{rel}::{cl.name + "." if cl else ""}{fn.name if fn else "?"}'
                a0 = n.args[0] if n.args else None
                if isinstance(a0, ast.Constant) and isinstance(a0.value, str):
                    rep.ok(rid, construct, short(n, 60))
                else:
                    rep.fail(rid, construct, short(n, 60),
                             'BitsFieldWriter.write_bytes(field, length, value) takes the field name '
                             f'first; `{short(n, 50)}` passes the data as the name (getattr() with a '
                             'bytes/str value fails when this is reached)', n)
    # duplicate(name, kwargs) arity
    for rel in rep.repo.py_files(SCTE) + ['dashlive/mpeg/mp4.py']:
        tree = rep.repo.tree(rel)
        for n in ast.walk(tree):
            if isinstance(n, ast.Call) and isinstance(n.func, ast.Attribute) \
                    and n.func.attr == 'duplicate' and 'read' in norm(n.func.value).lower() \
                    or (isinstance(n, ast.Call) and isinstance(n.func, ast.Attribute)
                        and n.func.attr == 'duplicate' and norm(n.func.value) in ('r', 'bit_reader')):
                from ..core import enclosing_class, enclosing_function
                cl, fn = enclosing_class(n), enclosing_function(n)
                construct = f'{rel}::{cl.name + "." if cl else ""}{fn.name if fn else "?"}'
                if len(n.args) + len(n.keywords) == 2:
                    rep.ok(rid, construct, short(n, 60))
                else:
                    rep.fail(rid, construct, short(n, 60),
                             f'BitsFieldReader.duplicate(name, kwargs) called with '
                             f'{len(n.args) + len(n.keywords)} argument(s)', n)
    # parse methods return their dict on every path
    for rel in rep.repo.py_files(SCTE):
        mod2 = idx.by_rel[rel]
        for c in mod2.classes.values():
            p = c.methods.get('parse')
            if p is None or c.name == 'SpliceDescriptor':
                continue
            rets = [r for r in ast.walk(p.node) if isinstance(r, ast.Return)]
            builds_kwargs = any(isinstance(a, ast.Assign) and norm(a.targets[0]) == 'kwargs'
                                for a in ast.walk(p.node))
            if not builds_kwargs:
                continue
            construct = f'{rel}::{c.name}.parse'
            bare = [r for r in rets if r.value is None]
            falls = not isinstance(p.node.body[-1], ast.Return)
            if bare or falls:
                rep.fail(rid, construct, 'returns kwargs',
                         f'{c.name}.parse builds a kwargs dict but '
                         f'{"falls off the end" if falls else "has a bare return"}: the caller '
                         'stores None', p.node)
            else:
                rep.ok(rid, construct, 'returns kwargs')


def field_widths(idx: Index) -> dict[str, dict[str, int]]:
    """class -> field name -> bits, from the writer side layout"""
    ex = Extractor(idx)
    out: dict[str, dict[str, int]] = {}
    for rel in [r for r in idx.by_rel if r.startswith(SCTE + '/')]:
        for c in idx.by_rel[rel].classes.values():
            p, e = ex.pair(c)
            if e is None:
                continue
            try:
                wt = ex.extract(e, 'encode', c)
            except Unsupported:
                continue
            for lf in linearise(canon(wt)):
                it = lf.item
                if isinstance(it, Item) and it.kind == 'field' and it.name and isinstance(it.bits, int):
                    out.setdefault(c.name, {})[it.name] = it.bits
    return out


def int_const(e: ast.AST, consts: dict[str, ast.AST], depth: int = 0):
    """value of an integer constant expression over literals and names bound once at module level"""
    if isinstance(e, ast.Constant) and isinstance(e.value, int) and not isinstance(e.value, bool):
        return e.value
    if isinstance(e, ast.Name) and e.id in consts and depth < 6:
        return int_const(consts[e.id], consts, depth + 1)
    if isinstance(e, ast.BinOp):
        a, b = int_const(e.left, consts, depth + 1), int_const(e.right, consts, depth + 1)
        if a is None or b is None:
            return None
        ops = {ast.Add: lambda: a + b, ast.Sub: lambda: a - b, ast.Mult: lambda: a * b,
               ast.LShift: lambda: a << b if 0 <= b < 128 else None, ast.RShift: lambda: a >> b if b >= 0 else None,
               ast.BitOr: lambda: a | b, ast.BitAnd: lambda: a & b, ast.Pow: lambda: a ** b if 0 <= b < 128 else None}
        f = ops.get(type(e.op))
        return f() if f else None
    return None


def bounded(e: ast.AST, bits: int, env: dict[str, ast.AST]) -> tuple[bool, str]:
    consts = env.get('@consts', {})
    if isinstance(e, ast.Name) and e.id not in env and int_const(e, consts) is not None:
        e = ast.Constant(value=int_const(e, consts))
    if isinstance(e, ast.BinOp) and isinstance(e.op, (ast.BitAnd, ast.Mod)):
        l_, r_ = int_const(e.left, consts), int_const(e.right, consts)
        e = ast.BinOp(left=e.left if l_ is None else ast.Constant(value=l_), op=e.op,
                      right=e.right if r_ is None else ast.Constant(value=r_))
    if isinstance(e, ast.Subscript) and isinstance(e.value, ast.Name) and e.value.id in consts \
            and isinstance(consts[e.value.id], (ast.Tuple, ast.List)) and consts[e.value.id].elts:
        # TABLE[i] over a module-level tuple: one of its members
        res = [bounded(x, bits, env) for x in consts[e.value.id].elts]
        if all(r[0] for r in res):
            return True, f'member of {e.value.id}: ' + '; '.join(sorted({r[1] for r in res}))
        return False, f'`{norm(e)}`: a member of {e.value.id} has no bound'
    if isinstance(e, ast.Constant):
        if isinstance(e.value, bool) or (isinstance(e.value, int) and 0 <= e.value < (1 << bits)):
            return True, 'constant'
    if isinstance(e, ast.Compare):
        return True, 'bool'
    if isinstance(e, ast.Attribute) and norm(e.value).endswith(('SapType', 'SegmentationTypeId')):
        return True, 'enum constant'
    if isinstance(e, ast.BinOp) and isinstance(e.op, ast.BitAnd):
        for side in (e.left, e.right):
            if isinstance(side, ast.Constant) and isinstance(side.value, int) \
                    and 0 <= side.value < (1 << bits):
                return True, f'masked with {side.value:#x}'
    if isinstance(e, ast.BinOp) and isinstance(e.op, ast.Mod) and isinstance(e.right, ast.Constant) \
            and isinstance(e.right.value, int) and 0 < e.right.value <= (1 << bits):
        return True, f'reduced modulo {e.right.value}'
    if isinstance(e, ast.BinOp) and isinstance(e.op, ast.Add):
        # enum + (x & 1)
        a, _ = bounded(e.left, bits - 1, env)
        b, _ = bounded(e.right, bits - 1, env)
        if a and b:
            return True, 'sum of bounded terms'
    if isinstance(e, ast.Call) and call_name(e) == 'min' and any(
            isinstance(a, ast.Constant) and isinstance(a.value, int) and a.value < (1 << bits)
            for a in e.args):
        return True, 'clamped with min()'
    if isinstance(e, ast.Name) and e.id in env:
        # every definition of the local must be bounded
        defs = env[e.id]
        res = [bounded(d, bits, {k: v for k, v in env.items() if k != e.id}) for d in defs]
        if res and all(r[0] for r in res):
            return True, 'every definition bounded: ' + '; '.join(r[1] for r in res)
        return False, f'`{e.id}` is defined as ' + ' / '.join(f'`{norm(d)}`' for d in defs)
    return False, f'`{norm(e)}` has no bound'


def r14_2(rep: Report, idx: Index) -> None:
    rid = 'R14.2'
    widths = field_widths(idx)
    rel = f'{EV}/scte35_events.py'
    tree = rep.repo.tree(rel)
    cls = need(find_class(tree, 'Scte35Events'), 'Scte35Events')
    fn = need(find_func(cls, 'create_binary_signal'), 'create_binary_signal')
    construct = f'{rel}::Scte35Events.create_binary_signal'
    env: dict[str, list[ast.AST]] = {}
    for n in ast.walk(fn):
        if isinstance(n, ast.Assign):
            tg = n.targets
            # a = b = expr
            for t in tg:
                if isinstance(t, ast.Name):
                    env.setdefault(t.id, []).append(n.value)
        elif isinstance(n, ast.AugAssign) and isinstance(n.target, ast.Name):
            env.setdefault(n.target.id, []).append(
                ast.BinOp(left=ast.Name(id=n.target.id + "'", ctx=ast.Load()), op=n.op, right=n.value))
    # integer constants of the module (PTS_MASK = (1 << 33) - 1), bound exactly once
    mod_assigns: dict[str, list[ast.AST]] = {}
    for n in tree.body:
        if isinstance(n, (ast.Assign, ast.AnnAssign)) and getattr(n, 'value', None) is not None:
            for t in (n.targets if isinstance(n, ast.Assign) else [n.target]):
                if isinstance(t, ast.Name):
                    mod_assigns.setdefault(t.id, []).append(n.value)
    consts14 = {k: v[0] for k, v in mod_assigns.items() if len(v) == 1 and k not in env}
    # x &= mask after x = ...: the masked definition is the one that reaches the use
    for name, defs in list(env.items()):
        masked = [d for d in defs if isinstance(d, ast.BinOp) and isinstance(d.op, ast.BitAnd)
                  and isinstance(d.left, ast.Name) and d.left.id == name + "'"]
        if masked:
            env[name] = masked
    n_checked = 0

    def check_call(c: ast.Call, cname: str):
        nonlocal n_checked
        w = widths.get(cname, {})
        for kw in c.keywords:
            if kw.arg is None:
                continue
            val = kw.value
            if isinstance(val, ast.Dict):
                sub = {'splice_time': 'SpliceTime', 'break_duration': 'BreakDuration'}.get(kw.arg)
                if sub:
                    for k, v in zip(val.keys, val.values):
                        if isinstance(k, ast.Constant):
                            one(sub, k.value, v)
                continue
            if isinstance(val, ast.Call) and call_name(val) and call_name(val).split('.')[-1] in widths:
                check_call(val, call_name(val).split('.')[-1])
                continue
            if kw.arg in w:
                one(cname, kw.arg, val)

    def one(cname: str, field: str, val: ast.AST):
        nonlocal n_checked
        bits = widths.get(cname, {}).get(field)
        if bits is None:
            return
        n_checked += 1
        ok, why = bounded(val, bits, {**env, '@consts': consts14})
        key = f'{cname}.{field}:{bits}b'
        if ok:
            rep.ok(rid, construct, key, why)
        else:
            rep.fail(rid, construct, key,
                     f'{cname}.{field} is a {bits}-bit field but the value passed ({why}) is not '
                     f'bounded to [0, 2^{bits}): bitstring raises CreationError when it is exceeded',
                     val)

    for c in ast.walk(fn):
        if isinstance(c, ast.Call):
            cn = (call_name(c) or '').split('.')[-1]
            if cn in ('SpliceInsert', 'BinarySignal'):
                check_call(c, cn)
            elif cn == 'SegmentationDescriptor':
                check_call(c, cn)
    if n_checked < 7:
        raise AnalysisError(f'R14.2: only {n_checked} fixed-width arguments found')


def r14_3(rep: Report, idx: Index) -> None:
    rid = 'R14.3'
    rel = f'{EV}/repeating_event_base.py'
    tree = rep.repo.tree(rel)
    cls = need(find_class(tree, 'RepeatingEventBase'), 'RepeatingEventBase')
    fn = need(find_func(cls, 'create_emsg_boxes'), 'create_emsg_boxes')
    construct = f'{rel}::RepeatingEventBase.create_emsg_boxes'
    # fields the EventMessageBox encoder writes per version
    ex = Extractor(idx)
    emsg = idx.by_rel['dashlive/mpeg/mp4.py'].classes['EventMessageBox']
    _p, e = ex.pair(emsg)
    wt = canon(ex.extract(e, 'encode', emsg))
    per_version: dict[str, set[str]] = {}
    for lf in linearise(wt):
        it = lf.item
        if isinstance(it, Item) and it.name:
            for g in lf.guards:
                m = re.fullmatch(r'F_version == (\d)', g)
                if m:
                    per_version.setdefault(m.group(1), set()).add(it.name)
    if not per_version.get('0') or not per_version.get('1'):
        raise AnalysisError('EventMessageBox version branches not recognised')
    found = 0
    # the value of every local where the delta is computed, per path (the segment start may be built
    # in one step or by reassigning one name)
    from ..flow import Disjunctive, Flow
    from ..pathcond import PathCond, sym_values
    _upd, _resolve = sym_values(max_len=400)
    delta_states: dict[int, list] = {}

    def settings(st: ast.stmt) -> list[tuple[str, ast.AST]]:
        """(emsg field, value) pairs a simple statement sets: fields['k'] = v, a dict display {'k': v} given a
        name, keywords of an EventMessageBox(..) call"""
        out: list[tuple[str, ast.AST]] = []
        if isinstance(st, (ast.If, ast.While, ast.For, ast.Try, ast.With)):
            return out
        if isinstance(st, ast.Assign) and isinstance(st.targets[0], ast.Subscript) \
                and isinstance(st.targets[0].slice, ast.Constant) and isinstance(st.targets[0].slice.value, str):
            out.append((st.targets[0].slice.value, st.value))
        for x in ast.walk(st):
            if isinstance(x, ast.Dict) and isinstance(st, ast.Assign) and st.value is x:
                out += [(k.value, v) for k, v in zip(x.keys, x.values) if isinstance(k, ast.Constant) and isinstance(k.value, str)]
            if isinstance(x, ast.Call) and (call_name(x) or '').endswith('EventMessageBox'):
                out += [(k.arg, k.value) for k in x.keywords if k.arg]
        return out

    def _on(st, states):
        if any(k == 'presentation_time_delta' for k, _v in settings(st)):
            delta_states.setdefault(id(st), []).extend(states)
    Flow(Disjunctive(PathCond(upd=_upd), cap=256), on_stmt=_on).run(fn, [PathCond.initial()])
    loop_vars = set()
    for l in ast.walk(fn):
        if isinstance(l, ast.While) and any(isinstance(x, ast.Call) and (call_name(x) or '').endswith('EventMessageBox')
                                            for x in ast.walk(l)):
            tests = l.test.values if isinstance(l.test, ast.BoolOp) and isinstance(l.test.op, ast.And) else [l.test]
            loop_vars |= {norm(t_.left) for t_ in tests if isinstance(t_, ast.Compare)}
    # a name the loop body gives to the loop variable (an inlined generator's `for a, b in ..`): every store of it
    # in the function is such a copy (the normal form may have duplicated the loop into two branches)
    for x in ast.walk(fn):
        if isinstance(x, ast.Assign) and len(x.targets) == 1 and isinstance(x.targets[0], ast.Name) \
                and isinstance(x.value, ast.Name) and x.value.id in loop_vars:
            nm = x.targets[0].id
            stores_ = [y for y in ast.walk(fn) if isinstance(y, (ast.Assign, ast.AugAssign, ast.AnnAssign, ast.For))
                       and any(isinstance(z, ast.Name) and z.id == nm and isinstance(z.ctx, ast.Store)
                               for t_ in ((y.targets if isinstance(y, ast.Assign) else [y.target])) for z in ast.walk(t_))]
            if stores_ and all(isinstance(y, ast.Assign) and isinstance(y.value, ast.Name) and y.value.id in loop_vars
                               for y in stores_):
                loop_vars.add(nm)
    for n in ast.walk(fn):
        if isinstance(n, ast.If) and re.search(r"version'?\]? == 0|version == 0", norm(n.test)):
            found += 1
            specific = per_version['0'] ^ per_version['1']
            for branch, ver in ((n.body, '0'), (n.orelse, '1')):
                pairs = [(k, v, s) for s in branch for k, v in settings(s)]
                # keywords of a box built in the branch count only where they are what differs between the versions
                pairs = [(k, v, s) for k, v, s in pairs if not (isinstance(s, (ast.Assign, ast.Expr, ast.Return)) and any(
                    isinstance(x, ast.Call) and (call_name(x) or '').endswith('EventMessageBox') and any(kw.value is v for kw in x.keywords)
                    for x in ast.walk(s))) or k in specific]
                keys = list(dict.fromkeys(k for k, _v, _s in pairs))
                for k in keys:
                    if k in per_version[ver]:
                        rep.ok(rid, construct, f'v{ver}:{k}')
                    else:
                        rep.fail(rid, construct, f'v{ver}:{k}',
                                 f"under version {ver} the generator sets `{k}`, which the version "
                                 f'{ver} branch of EventMessageBox does not encode '
                                 f'({sorted(per_version[ver])})', n)
                # value semantics: v0 is a delta from the segment start, v1 is absolute
                from ..core import subst_locals
                seen_delta: set[int] = set()
                for k_, v_, s in pairs:
                    if ver == '0' and k_ == 'presentation_time_delta' and id(s) not in seen_delta:
                        seen_delta.add(id(s))
                        val = norm(subst_locals(fn, v_))
                        # (event time of the scheduling loop) - (start of the segment in the event timebase)
                        dv = v_
                        for _ in range(4):          # a local that only names the difference
                            defs = [a_.value for a_ in ast.walk(fn) if isinstance(a_, ast.Assign)
                                    and isinstance(dv, ast.Name) and norm(a_.targets[0]) == dv.id]
                            if len(defs) != 1:
                                break
                            dv = defs[0]
                        good = isinstance(dv, ast.BinOp) and isinstance(dv.op, ast.Sub) \
                            and norm(dv.left) in loop_vars and bool(delta_states.get(id(s)))
                        for state in delta_states.get(id(s), []):
                            base = norm(_resolve(state, dv.right)) if good else ''
                            if not re.fullmatch(r'\(?[\w.]*base_media_decode_time \* self\.timescale\)? // '
                                                r'representation\.timescale', base):
                                good = False
                                val = f'{norm(dv.left)} - ({base})' if base else val
                        if good:
                            rep.ok(rid, construct, 'v0 delta = presentation_time - seg_start')
                        else:
                            rep.fail(rid, construct, 'v0 delta = presentation_time - seg_start',
                                     f'version 0 delta is `{val}`', s)
    if found == 0:
        raise AnalysisError('create_emsg_boxes: version test not found')
    # common kwargs exist in both branches of the box
    common = {'scheme_id_uri', 'timescale', 'event_duration', 'event_id', 'value'}
    for ver in ('0', '1'):
        if common <= per_version[ver]:
            rep.ok(rid, 'dashlive/mpeg/mp4.py::EventMessageBox', f'v{ver} common fields')
        else:
            rep.fail(rid, 'dashlive/mpeg/mp4.py::EventMessageBox', f'v{ver} common fields',
                     f'version {ver} branch lacks {sorted(common - per_version[ver])}')


def r14_4_5(rep: Report) -> None:
    rel = f'{EV}/repeating_event_base.py'
    tree = rep.repo.tree(rel)
    cls = need(find_class(tree, 'RepeatingEventBase'), 'RepeatingEventBase')
    fn = need(find_func(cls, 'create_emsg_boxes'), 'create_emsg_boxes')
    construct = f'{rel}::RepeatingEventBase.create_emsg_boxes'
    loops = [n for n in ast.walk(fn) if isinstance(n, ast.While)]
    if not loops:
        raise AnalysisError('create_emsg_boxes: no scheduling loop')
    loop = loops[0]
    # the event time: `presentation_time`, or the loop variable that `presentation_time` names in the body
    times = {'presentation_time', _emsg_roles(fn)[0]} | {x.value.id for lp in loops for x in ast.walk(lp)
                                     if isinstance(x, ast.Assign) and len(x.targets) == 1
                                     and norm(x.targets[0]) == 'presentation_time' and isinstance(x.value, ast.Name)}
    steps = [n for lp in loops for n in ast.walk(lp) if isinstance(n, ast.AugAssign)
             and norm(n.target) in times]
    if not steps:
        raise AnalysisError('create_emsg_boxes: no presentation_time step')
    guarded = False
    for n in fn.body:
        if isinstance(n, ast.If) and isinstance(n.body[-1], (ast.Return, ast.Raise)):
            alts = n.test.values if isinstance(n.test, ast.BoolOp) and isinstance(n.test.op, ast.Or) else [n.test]
            if any(re.fullmatch(r'self\.interval (<=|<) (0|1)', norm(a_)) for a_ in alts):
                guarded = True
    for s in steps:
        key = norm(s)
        if norm(s.value) == 'self.interval' and guarded:
            rep.ok('R14.4', construct, key, 'step is self.interval, refused when <= 0')
        else:
            rep.fail('R14.4', construct, key,
                     f'the event loop advances by `{norm(s.value)}` with no dominating '
                     '`self.interval <= 0` refusal: a zero/negative interval divides by zero or '
                     'never terminates', s)
    # every division by the interval is behind the same guard
    for n in ast.walk(fn):
        if isinstance(n, ast.BinOp) and isinstance(n.op, (ast.FloorDiv, ast.Div, ast.Mod)) \
                and norm(n.right) == 'self.interval':
            if guarded:
                rep.ok('R14.4', construct, f'division {short(n, 40)}')
            else:
                rep.fail('R14.4', construct, f'division {short(n, 40)}',
                         'division by self.interval without a positive guard', n)
    # (the window [seg_start, seg_end) of each emitted event is proved in r14_7)
    # R14.5
    mc = need(find_func(cls, 'create_manifest_context'), 'create_manifest_context')
    c2 = f'{rel}::RepeatingEventBase.create_manifest_context'
    r14_5(rep, mc, c2)


class _Stuck(Exception):
    pass


def r14_5(rep: Report, mc: ast.FunctionDef, c2: str) -> None:
    """R14.5  the out-of-band listing, decided by evaluating the listing code (normal form) with this module's
    own evaluator - no repository code runs: `self.start` = S and `self.interval` = I stay symbols (values are
    linear forms a + b*S + c*I), `self.count` takes the values 0..4, `self.inband` is false.  The events
    appended must be exactly id = k, presentationTime = S + k*I for k = 0..count-1, each with the payload
    built from that (id, time).  How the loop is written (range / counter / generator helper / comprehension)
    does not matter."""
    def lin_add(a, b, sg=1):
        out = dict(a)
        for k_, v_ in b.items():
            out[k_] = out.get(k_, 0) + sg * v_
        return {k_: v_ for k_, v_ in out.items() if v_}

    def ev(e, env, n):
        if isinstance(e, ast.Constant) and isinstance(e.value, (int, bool)):
            return {'': int(e.value)} if e.value else {}
        if isinstance(e, ast.Name):
            if e.id in env:
                return env[e.id]
            raise _Stuck(e.id)
        if isinstance(e, ast.Attribute) and norm(e.value) == 'self':
            if e.attr == 'start':
                return {'S': 1}
            if e.attr == 'interval':
                return {'I': 1}
            if e.attr == 'count':
                return {'': n} if n else {}
            if e.attr == 'inband':
                return {}
            raise _Stuck(norm(e))
        if isinstance(e, ast.BinOp) and isinstance(e.op, (ast.Add, ast.Sub)):
            return lin_add(ev(e.left, env, n), ev(e.right, env, n), 1 if isinstance(e.op, ast.Add) else -1)
        if isinstance(e, ast.BinOp) and isinstance(e.op, ast.Mult):
            l_, r_ = ev(e.left, env, n), ev(e.right, env, n)
            for a_, b_ in ((l_, r_), (r_, l_)):
                if set(a_) <= {''}:
                    c_ = a_.get('', 0)
                    return {k_: v_ * c_ for k_, v_ in b_.items() if v_ * c_}
            raise _Stuck(norm(e))
        if isinstance(e, ast.UnaryOp) and isinstance(e.op, ast.USub):
            return {k_: -v_ for k_, v_ in ev(e.operand, env, n).items()}
        raise _Stuck(norm(e))

    def const(v):
        if set(v) <= {''}:
            return v.get('', 0)
        raise _Stuck('not a constant')

    def truth(t, env, n):
        if isinstance(t, ast.UnaryOp) and isinstance(t.op, ast.Not):
            return not truth(t.operand, env, n)
        if isinstance(t, ast.BoolOp):
            vals = [truth(v_, env, n) for v_ in t.values]
            return all(vals) if isinstance(t.op, ast.And) else any(vals)
        if isinstance(t, ast.Compare) and len(t.ops) == 1:
            d = lin_add(ev(t.left, env, n), ev(t.comparators[0], env, n), -1)
            c_ = const(d)
            return {ast.Lt: c_ < 0, ast.LtE: c_ <= 0, ast.Gt: c_ > 0, ast.GtE: c_ >= 0, ast.Eq: c_ == 0,
                    ast.NotEq: c_ != 0}[type(t.ops[0])]
        return const(ev(t, env, n)) != 0

    class _Done(Exception):
        pass

    def run(stmts, env, n, out, budget):
        for st in stmts:
            budget[0] -= 1
            if budget[0] < 0:
                raise _Stuck('the listing does not terminate')
            if isinstance(st, ast.Return):
                raise _Done()
            if isinstance(st, ast.If):
                run(st.body if truth(st.test, env, n) else st.orelse, env, n, out, budget)
                continue
            if isinstance(st, ast.For):
                it = st.iter
                if not (isinstance(it, ast.Call) and call_name(it) == 'range' and 1 <= len(it.args) <= 2
                        and isinstance(st.target, ast.Name)):
                    raise _Stuck(f'for .. in {norm(it)}')
                lo = const(ev(it.args[0], env, n)) if len(it.args) == 2 else 0
                hi = const(ev(it.args[-1], env, n))
                for k in range(lo, hi):
                    env[st.target.id] = {'': k} if k else {}
                    run(st.body, env, n, out, budget)
                continue
            if isinstance(st, ast.While):
                while truth(st.test, env, n):
                    run(st.body, env, n, out, budget)
                continue
            record(st, env, n, out)
            tgt = val = None
            if isinstance(st, ast.Assign) and len(st.targets) == 1:
                tgt, val = st.targets[0], st.value
            elif isinstance(st, ast.AnnAssign) and st.value is not None:
                tgt, val = st.target, st.value
            elif isinstance(st, ast.AugAssign):
                tgt, val = st.target, ast.BinOp(left=ast.Name(id=getattr(st.target, 'id', '?'), ctx=ast.Load()), op=st.op, right=st.value)
            if isinstance(tgt, ast.Name):
                env.pop('@call:' + tgt.id, None)
                try:
                    env[tgt.id] = ev(val, env, n)
                except _Stuck:
                    env.pop(tgt.id, None)       # an object (the EventStream, a payload): not a number
                    if isinstance(val, ast.Call):
                        try:
                            env['@call:' + tgt.id] = tuple(ev(a_, env, n) for a_ in val.args)
                        except _Stuck:
                            pass

    def record(st, env, n, out):
        for d in ast.walk(st):
            if isinstance(d, ast.Dict) and any(isinstance(k_, ast.Constant) and k_.value == 'id' for k_ in d.keys):
                row = {}
                for k_, v_ in zip(d.keys, d.values):
                    if isinstance(k_, ast.Constant) and k_.value in ('id', 'presentationTime'):
                        row[k_.value] = ev(v_, env, n)
                    if isinstance(k_, ast.Constant) and k_.value == 'data':
                        if isinstance(v_, ast.Call):
                            row['payload'] = tuple(ev(a_, env, n) for a_ in v_.args)
                        elif isinstance(v_, ast.Name):
                            row['payload'] = env.get('@call:' + v_.id)
                out.append(row)
    problems: list[tuple[str, str]] = []
    try:
        for n in range(0, 5):
            out: list = []
            try:
                run(mc.body, {}, n, out, [4000])
            except _Done:
                pass
            want = [({'': k} if k else {}, lin_add({'S': 1}, {'I': k} if k else {})) for k in range(n)]
            if len(out) != n:
                problems.append(('ids 0..count-1', f'count={n}: {len(out)} event(s) are listed'))
                break
            for k, (row, (wid, wt)) in enumerate(zip(out, want)):
                if row.get('id') != wid:
                    problems.append(('ids 0..count-1', f'count={n}: event {k} is listed with id {row.get("id")}'))
                if 'presentationTime' not in row:
                    problems.append(('time is listed', f'event {k} has no presentationTime'))
                elif row['presentationTime'] != wt:
                    kind = 'starts at self.start' if k == 0 else 'advances by interval'
                    problems.append((kind, f'count={n}: event {k} is listed at {row["presentationTime"]} (S = start, I = interval), '
                                           f'the schedule says {wt}'))
                if row.get('payload') is None or tuple(row['payload'][:2]) != (wid, wt):
                    problems.append(('payload built from (idx, time)',
                                     f'count={n}: the payload of event {k} is built from {row.get("payload")}, not from its own '
                                     f'(id, time) = ({wid}, {wt})'))
            if problems:
                break
    except _Stuck as err:
        problems.append(('ids 0..count-1', f'the listing code is not integer arithmetic over start / interval / count (`{err}`): unrecognised'))
    bad = {}
    for key, msg in problems:
        bad.setdefault(key, msg)
    for key in ('ids 0..count-1', 'event id is the loop index, time is the running time', 'starts at self.start',
                'advances by interval', 'time is listed', 'payload built from (idx, time)'):
        msg = bad.get(key)
        if key == 'event id is the loop index, time is the running time':
            msg = bad.get('ids 0..count-1') or bad.get('advances by interval')
        if msg is None:
            rep.ok('R14.5', c2, key, 'evaluated for count = 0..4: id = k, time = start + k * interval')
        else:
            rep.fail('R14.5', c2, key, msg, mc)


_SHADOW_EXAMPLE = '''
def pick(rows, wanted):
    kind = 0
    found = None
    for kind, found in rows:
        if found == wanted:
            break
    return (kind, found)
'''


def loop_target_overwrites_default(fn: ast.AST) -> list[tuple[ast.For, str]]:
    """(loop, name) where a name is given a default, is then the target of a `for` in the same block that has
    no `else`, and is read after the loop: once the loop has run the default is gone, and when no iteration
    breaks out the name holds the LAST element, not the default ("not found" is reported as the last row)"""
    out = []
    for n in ast.walk(fn):
        for f_ in ('body', 'orelse', 'finalbody'):
            blk = getattr(n, f_, None)
            if not (isinstance(blk, list) and blk and isinstance(blk[0], ast.stmt)):
                continue
            for i, st in enumerate(blk):
                if not isinstance(st, ast.For) or st.orelse:
                    continue
                tg = {x.id for x in ast.walk(st.target) if isinstance(x, ast.Name)}
                pre = {t.id for b in blk[:i] if isinstance(b, (ast.Assign, ast.AnnAssign))
                       for t in (b.targets if isinstance(b, ast.Assign) else [b.target]) if isinstance(t, ast.Name)}
                post = {x.id for b in blk[i + 1:] for x in ast.walk(b) if isinstance(x, ast.Name) and isinstance(x.ctx, ast.Load)}
                # a name the loop body reassigns before it is left is the body's business, not the target's
                for name in sorted(tg & pre & post):
                    out.append((st, name))
    return out


def r14_11(rep: Report) -> None:
    """R14.11  the splice command type a signal is written with comes from a search over the commands; "none
    present" must stay splice_null.  Zero occurrences are expected; the embedded example keeps the rule honest."""
    rid = 'R14.11'
    if not loop_target_overwrites_default(ast.parse(_SHADOW_EXAMPLE)):
        raise AnalysisError('R14.11: the embedded example of a loop target that overwrites a default is not recognised')
    n = 0
    for sub in ('dashlive/scte35', EV):
        for rel in rep.repo.py_files(sub) + ([] if sub != 'dashlive/scte35' else ['dashlive/mpeg/section_table.py']):
            tree = rep.repo.tree(rel)
            for fn in [x for x in ast.walk(tree) if isinstance(x, (ast.FunctionDef, ast.AsyncFunctionDef))]:
                n += 1
                for loop, name in loop_target_overwrites_default(fn):
                    rep.fail(rid, f'{rel}::{fn.name}', f'for .. {name} ..',
                             f'`{name}` is given a default, then used as the target of `for {norm(loop.target)} in {norm(loop.iter)[:40]}` '
                             f'and read after the loop: when no iteration breaks out it holds the last element, not the default - '
                             'a signal without a command is written with the type of the last table row instead of splice_null, '
                             'and the parser reads a command that is not there', loop)
    rep.ok(rid, 'dashlive/scte35 + events', 'functions searched', f'{n} functions, example recognised')


def r14_12(rep: Report, idx: Index, rels: list[str]) -> None:
    """R14.12  SCTE-35 sections are byte oriented (section_length and the command / descriptor lengths count bytes,
    the CRC-32 covers whole bytes) while their fields are bit packed.  Wherever the writer of a structure chooses
    between two arms, both arms must have the same length modulo 8 bits - otherwise one of the two leaves
    everything after it misaligned (the specification pads the short arm with reserved bits).  Decided on the
    layout trees of the encoders (E4): constant field widths are summed, nested structures and counted loops whose
    body is a whole number of bytes count as 0."""
    from ..layout import Call as LCall, If as LIf, Loop as LLoop, Ret as LRet
    rid = 'R14.12'
    ex = Extractor(idx)
    n = 0

    def bits_mod8(items: list) -> int | None:
        """length of a sequence modulo 8, None when it holds a width that is not a constant"""
        total = 0
        for it in items:
            if isinstance(it, Item):
                if not isinstance(it.bits, int):
                    return None
                total += it.bits
            elif isinstance(it, LIf):
                a, b = bits_mod8(it.then), bits_mod8(it.orelse)
                if a is None or b is None:
                    return None
                if a != b:
                    return None          # reported where the If itself is visited
                total += a
            elif isinstance(it, LLoop):
                b = bits_mod8(it.body)
                if b is None or b != 0:
                    return None
            elif isinstance(it, (LCall, LRet)):
                continue
        return total % 8

    def visit(items: list, construct: str) -> None:
        nonlocal n
        for it in items:
            if isinstance(it, LIf):
                visit(it.then, construct)
                visit(it.orelse, construct)
                a, b = bits_mod8(it.then), bits_mod8(it.orelse)
                n += 1
                key = f'if {it.cond[:50]}'
                if a is None or b is None:
                    rep.ok(rid, construct, key, 'an arm has a variable width: not decided')
                elif a == b:
                    rep.ok(rid, construct, key, f'both arms are {a} bit(s) past a byte boundary')
                else:
                    rep.fail(rid, construct, key,
                             f'the arm under `{it.cond[:60]}` is {a} bit(s) past a byte boundary, the other arm {b}: one of the two '
                             'leaves the rest of the byte-oriented section misaligned - the structure cannot be encoded '
                             '("not a multiple of 8 bits") or is parsed out of step. SCTE-35 pads the short arm with reserved '
                             'bits (splice_time(): 7 reserved bits when time_specified_flag is 0)',
                             types.SimpleNamespace(lineno=it.line))
            elif isinstance(it, LLoop):
                visit(it.body, construct)
    import types
    classes = [c for rel in rels if rel.startswith('dashlive/scte35/') for c in idx.by_rel[rel].classes.values()]
    ex.infer_bits_mode(classes)
    for c in classes:
        _p, e = ex.pair(c)
        if e is None:
            continue
        try:
            tree = canon(ex.extract(e, 'encode', c))
        except Exception:
            continue            # (classes the extractor cannot model are reported by R14.1)
        visit(tree, f'{c.rel}::{c.name}.{e.name}' if hasattr(c, 'rel') else f'{c.name}.{e.name}')
    if n < 3:
        raise AnalysisError(f'R14.12: only {n} alternative(s) found in the SCTE-35 encoders')


def r14_10(rep: Report, idx: Index) -> None:
    """R14.10  optional numeric fields announced by a flag: where the reader sets a field to None when its flag is
    clear and reads an integer otherwise, 0 is a value and None is absence.  On the writer side every test
    that decides whether the field is written, and every expression the flag is computed from, may ask
    whether the field `is None` - never whether it is true (`1 if self.pts else 0` drops a splice at PTS 0)."""
    n = 0
    for rel in sorted(r for r in idx.by_rel if r.startswith(SCTE + '/')):
        for cname, ci in idx.by_rel[rel].classes.items():
            parse = next((m for m in ci.node.body if isinstance(m, ast.FunctionDef) and m.name == 'parse'), None)
            encode = next((m for m in ci.node.body if isinstance(m, ast.FunctionDef) and m.name in ('encode', 'encode_fields')), None)
            if parse is None or encode is None:
                continue
            optional: set[str] = set()
            for br in ast.walk(parse):
                if not isinstance(br, ast.If):
                    continue
                def reads(stmts):
                    return {c.args[1].value for s_ in stmts for c in ast.walk(s_) if isinstance(c, ast.Call)
                            and isinstance(c.func, ast.Attribute) and c.func.attr == 'read' and len(c.args) >= 2
                            and isinstance(c.args[1], ast.Constant) and isinstance(c.args[0], ast.Constant)
                            and isinstance(c.args[0].value, int)}
                def nones(stmts):
                    return {a.targets[0].slice.value for s_ in stmts for a in ast.walk(s_) if isinstance(a, ast.Assign)
                            and isinstance(a.targets[0], ast.Subscript) and isinstance(a.targets[0].slice, ast.Constant)
                            and isinstance(a.value, ast.Constant) and a.value.value is None}
                optional |= (reads(br.body) & nones(br.orelse)) | (reads(br.orelse) & nones(br.body))
            for field_ in sorted(optional):
                n += 1
                construct = f'{rel}::{cname}.{encode.name}'
                bad = None
                for x in ast.walk(encode):
                    if isinstance(x, ast.Attribute) and x.attr == field_ and norm(x.value) == 'self' and isinstance(x.ctx, ast.Load):
                        par = getattr(x, '_parent', None)
                        if isinstance(par, ast.Compare) and len(par.ops) == 1 and isinstance(par.ops[0], (ast.Is, ast.IsNot)) \
                                and isinstance(par.comparators[0], ast.Constant) and par.comparators[0].value is None:
                            continue
                        truthy = isinstance(par, (ast.If, ast.IfExp, ast.While)) and par.test is x \
                            or isinstance(par, ast.BoolOp) or (isinstance(par, ast.UnaryOp) and isinstance(par.op, ast.Not)) \
                            or (isinstance(par, ast.Call) and call_name(par) == 'bool')
                        if truthy:
                            bad = par
                if bad is None:
                    rep.ok('R14.10', construct, f'presence of {field_} decided by `is None`')
                else:
                    rep.fail('R14.10', construct, f'presence of {field_} decided by `is None`',
                             f'`{short(bad, 60)}` decides by the truth of self.{field_} whether the field is present: the reader '
                             f'returns None for an absent {field_} and an integer otherwise, so the value 0 is encoded as '
                             '"not specified" and comes back as None', bad)
    rep.extra['optional_numeric_fields'] = n


def r14_8(rep: Report) -> None:
    """conversions of event times into the 90 kHz MPEG timebase (SCTE-35 PTS, break duration) multiply
    before they divide: `v * (MPEG_TIMEBASE // timescale)` is wrong for every timescale that does not
    divide 90000 (48000, 44100) and zero for timescales above it"""
    from ..idioms import truncated_scale_ratios
    n = 0
    for rel in rep.repo.py_files(EV) + rep.repo.py_files('dashlive/scte35'):
        for cls_, fn in rep.repo.expanded_functions(rel):
            sites, bad = truncated_scale_ratios(fn)
            for site in sites:
                n += 1
                construct = f'{rel}::{(cls_.name + ".") if cls_ else ""}{fn.name}'
                if site in bad:
                    rep.fail('R14.8', construct, f'ratio:{norm(site)}',
                             f'`{norm(site)}` truncates the ratio of two timescales before it is applied: PTS and '
                             'break duration are wrong unless the event timescale divides 90000', site, file=rel)
                else:
                    rep.ok('R14.8', construct, f'conversion:{norm(site)[:60]}', 'multiply, then divide')
    rep.extra['timebase_conversions'] = n


def _emsg_roles(fn: ast.AST) -> tuple[str, str, str | None, str | None]:
    """(time variable, window end, window start, event id variable) of the scheduling loop of
    create_emsg_boxes, by role: the loop that builds EventMessageBox objects is `while T < END`; START is
    what events before the window are tested against (`if T < START: ..continue`, `assert T >= START`,
    `if T >= START: <emit>`, or the `T - START` of the version 0 delta); the id is what is stored under
    'event_id'"""
    loops = [n for n in ast.walk(fn) if isinstance(n, ast.While)]
    emitting = [l for l in loops if any(isinstance(x, ast.Call) and (call_name(x) or '').endswith('EventMessageBox')
                                        for x in ast.walk(l))] or loops
    if not emitting:
        raise AnalysisError('create_emsg_boxes: scheduling loop not found')
    lp = emitting[0]
    t0 = lp.test if isinstance(lp.test, ast.Compare) else (
        lp.test.values[0] if isinstance(lp.test, ast.BoolOp) and isinstance(lp.test.values[0], ast.Compare) else None)
    if t0 is None or not (len(t0.ops) == 1 and isinstance(t0.ops[0], ast.Lt) and isinstance(t0.left, ast.Name)
                          and isinstance(t0.comparators[0], ast.Name)):
        raise AnalysisError('create_emsg_boxes: the emitting loop is not `while t < end`')
    tvar, end = t0.left.id, t0.comparators[0].id
    start = None
    # names the loop body gives to the time variable
    tnames = {tvar} | {x.targets[0].id for x in ast.walk(lp) if isinstance(x, ast.Assign) and len(x.targets) == 1
                       and isinstance(x.targets[0], ast.Name) and norm(x.value) == tvar}
    for n in ast.walk(lp):
        if isinstance(n, ast.If) and isinstance(n.test, ast.Compare) and len(n.test.ops) == 1 \
                and isinstance(n.test.ops[0], ast.Lt) and norm(n.test.left) in tnames \
                and isinstance(n.test.comparators[0], ast.Name) \
                and any(isinstance(x, ast.Continue) for x in n.body):
            start = n.test.comparators[0].id
    if start is None:
        for n in ast.walk(lp):
            if isinstance(n, ast.Assert) and isinstance(n.test, ast.Compare) and len(n.test.ops) == 1 \
                    and isinstance(n.test.ops[0], ast.GtE) and norm(n.test.left) in tnames \
                    and isinstance(n.test.comparators[0], ast.Name):
                start = n.test.comparators[0].id
    if start is None:
        for n in ast.walk(lp):
            if isinstance(n, ast.If) and isinstance(n.test, ast.Compare) and len(n.test.ops) == 1 \
                    and isinstance(n.test.ops[0], ast.GtE) and norm(n.test.left) in tnames \
                    and isinstance(n.test.comparators[0], ast.Name) \
                    and any(isinstance(x, ast.Call) and (call_name(x) or '').endswith('EventMessageBox')
                            for b_ in n.body for x in ast.walk(b_)):
                start = n.test.comparators[0].id
    if start is None:
        for n in ast.walk(lp):
            if isinstance(n, ast.BinOp) and isinstance(n.op, ast.Sub) and norm(n.left) in tnames \
                    and isinstance(n.right, ast.Name):
                start = n.right.id
    idvar = None
    for n in ast.walk(lp):
        if isinstance(n, ast.Dict):
            for k, v in zip(n.keys, n.values):
                if isinstance(k, ast.Constant) and k.value == 'event_id' and isinstance(v, ast.Name):
                    idvar = v.id
        if isinstance(n, ast.Call) and (call_name(n) or '').endswith('EventMessageBox'):
            for k in n.keywords:
                if k.arg == 'event_id' and isinstance(k.value, ast.Name):
                    idvar = k.value.id
    return tvar, end, start, idvar


def r14_7(rep: Report) -> None:
    """bounded schedules: with count > 0 only the events 0 .. count-1 exist (the manifest lists
    range(count)).  Zone-domain proof that at every construction of an EventMessageBox in
    create_emsg_boxes either count <= 0 (unbounded schedule) or event_id <= count - 1."""
    from ..absint import Zone, ZoneDomain, ZERO, INF
    from ..flow import Disjunctive, Flow
    rid = 'R14.7'
    rel = f'{EV}/repeating_event_base.py'
    tree = rep.repo.tree(rel)
    cls = need(find_class(tree, 'RepeatingEventBase'), 'RepeatingEventBase')
    fn = need(find_func(cls, 'create_emsg_boxes'), 'create_emsg_boxes')
    construct = f'{rel}::RepeatingEventBase.create_emsg_boxes'
    # the payload hooks called inside the loop do not assign attributes of the event object
    pure: set[str] = set()
    impls = 0
    for rel2 in rep.repo.py_files(EV):
        for c in [n for n in ast.walk(rep.repo.tree(rel2)) if isinstance(n, ast.ClassDef)]:
            m = find_func(c, 'get_emsg_event_payload')
            if m is None:
                continue
            impls += 1
            stores = [n for n in ast.walk(m) if isinstance(n, (ast.Assign, ast.AugAssign, ast.AnnAssign))
                      for t in (n.targets if isinstance(n, ast.Assign) else [n.target])
                      if norm(t).startswith('self.')]
            if stores:
                rep.note(f'R14.7: {rel2}::{c.name}.get_emsg_event_payload assigns {norm(stores[0])}')
                impls = -100
    if impls > 0:
        pure.add('self.get_emsg_event_payload')
    zd = ZoneDomain(attr_roots=('self',), pure_calls=pure)
    verdicts: list[tuple[bool, str, ast.AST]] = []
    window: list[tuple[bool, bool, ast.AST]] = []
    T_, END_, START_, ID_ = _emsg_roles(fn)
    if START_ is None or ID_ is None:
        raise AnalysisError('create_emsg_boxes: window start / event id variable not found')

    def on_stmt(st: ast.stmt, states) -> None:
        if isinstance(st, (ast.If, ast.While, ast.For, ast.Try, ast.With)):
            return
        if not any(isinstance(c, ast.Call) and (call_name(c) or '').endswith('EventMessageBox')
                   for c in ast.walk(st)):
            return
        for z in states:
            z.close()
            window.append((z.upper_diff(T_, END_) <= -1,
                           z.upper_diff(START_, T_) <= 0, st))
            lo, hi = z.bound('self.count')
            if hi <= 0:
                verdicts.append((True, 'unbounded schedule', st))
            elif z.upper_diff(ID_, 'self.count') <= -1:
                verdicts.append((True, 'event_id <= count - 1', st))
            else:
                d = z.upper_diff(ID_, 'self.count')
                verdicts.append((False, f'event_id - count <= {d:g}' if d < INF else 'event_id is not bounded by count', st))

    z0 = Zone()
    for v in ('self.count', ID_, 'self.interval', 'self.start', 'self.timescale'):
        z0.ints.add(v)
    rep.axioms.append('event schedule fields (start, interval, count, timescale) are integers')
    Flow(Disjunctive(zd, cap=512), on_stmt=on_stmt).run(fn, [z0])
    if not verdicts:
        raise AnalysisError('create_emsg_boxes: no EventMessageBox construction reached')
    for label, idx_, why in (('window upper bound', 0, 'presentation_time < seg_end'),
                             ('window lower bound', 1, 'seg_start <= presentation_time')):
        wb = [w for w in window if not w[idx_]]
        if wb:
            rep.fail('R14.4', construct, label,
                     f'an EventMessageBox is built on a path that does not imply `{why}`: an event outside '
                     'the segment\'s [start, end) window is carried (delivered twice or in the wrong segment)',
                     wb[0][2])
        else:
            rep.ok('R14.4', construct, label, f'{why} on {len(window)} path state(s)')
    bad = [v for v in verdicts if not v[0]]
    if bad:
        rep.fail(rid, construct, 'event id < count when the schedule is bounded',
                 f'an EventMessageBox is built on a path where count can be positive and '
                 f'{bad[0][1]}: an event with id >= count (one that the manifest does not list) '
                 'can be emitted when the segment starts between the last event and start + count*interval',
                 bad[0][2])
    else:
        rep.ok(rid, construct, 'event id < count when the schedule is bounded',
               f'{len(verdicts)} path state(s): ' + ', '.join(sorted({v[1] for v in verdicts})))


def r14_6(rep: Report) -> None:
    """the [start, end) window of a segment in the event timebase: both bounds must be the
    same conversion applied to representation-timebase bounds.  floor(a*k/n) + floor(d*k/n) can be
    one less than floor((a+d)*k/n): converting start and duration separately leaves one-tick holes
    between consecutive segments, and an event on such a tick is delivered by no segment."""
    rid = 'R14.6'
    rel = f'{EV}/repeating_event_base.py'
    tree = rep.repo.tree(rel)
    cls = need(find_class(tree, 'RepeatingEventBase'), 'RepeatingEventBase')
    fn = need(find_func(cls, 'create_emsg_boxes'), 'create_emsg_boxes')
    construct = f'{rel}::RepeatingEventBase.create_emsg_boxes'
    from ..normalise import clone
    # statements in program order (line numbers are not an order once helpers are inlined)
    order: list[ast.stmt] = []

    def flat(stmts):
        for st in stmts:
            order.append(st)
            for field in ('body', 'orelse', 'finalbody'):
                blk = getattr(st, field, None)
                if isinstance(blk, list) and blk and isinstance(blk[0], ast.stmt):
                    flat(blk)
            for h in getattr(st, 'handlers', []) or []:
                flat(h.body)
    flat(fn.body)
    pos = {id(st): i for i, st in enumerate(order)}
    loops = [st for st in order if isinstance(st, ast.While)]
    if not loops:
        raise AnalysisError('create_emsg_boxes: no scheduling loop')
    loop_at = pos[id(loops[0])]

    def defs_of(name: str, before: int) -> list[tuple[int, ast.AST]]:
        out = []
        for i, st in enumerate(order[:before]):
            if isinstance(st, ast.Assign) and len(st.targets) == 1:
                t = st.targets[0]
                if norm(t) == name:
                    out.append((i, st.value))
                elif isinstance(t, ast.Tuple) and isinstance(st.value, ast.Tuple) and len(t.elts) == len(st.value.elts):
                    for te, ve in zip(t.elts, st.value.elts):
                        if norm(te) == name:
                            out.append((i, ve))
            elif isinstance(st, ast.AnnAssign) and st.value is not None and norm(st.target) == name:
                out.append((i, st.value))
        return out

    def resolved(e: ast.AST, before: int, depth: int = 0) -> ast.AST:
        """e with every local name replaced by its last definition before position `before`"""
        if depth > 5:
            return e

        class T(ast.NodeTransformer):
            def visit_Name(self, node):
                ds = defs_of(node.id, before)
                if not ds or not isinstance(node.ctx, ast.Load):
                    return node
                i, v = ds[-1]
                return resolved(clone(v), i, depth + 1)
        return T().visit(clone(e))
    ds_end = defs_of('seg_end', loop_at)
    if not ds_end:
        raise AnalysisError('create_emsg_boxes: seg_end is not computed before the loop')
    e_end = resolved(ds_end[-1][1], ds_end[-1][0])

    def floordivs(e: ast.AST) -> int:
        if isinstance(e, ast.BinOp) and isinstance(e.op, ast.FloorDiv):
            return 1
        if isinstance(e, ast.BinOp) and isinstance(e.op, (ast.Add, ast.Sub)):
            return floordivs(e.left) + floordivs(e.right)
        return 0
    # the duration added to the segment start is that of the fragment being served
    dur_term = None
    for n in ast.walk(e_end):
        if isinstance(n, ast.BinOp) and isinstance(n.op, ast.Add):
            for a_, b_ in ((n.left, n.right), (n.right, n.left)):
                if 'base_media_decode_time' in norm(a_) and 'base_media_decode_time' not in norm(b_):
                    dur_term = b_
    last_txt = norm(e_end)
    if dur_term is None:
        rep.note(f'R14.6: seg_end = `{last_txt[:80]}` is not <tfdt decode time> + <duration>; source of the '
                 'duration not decided')
        rep.ok(rid, construct, 'window end uses the served fragment', 'form not recognised (not decided)')
    else:
        txt = norm(dur_term)
        if 'mod_segment' in txt or 'trun' in txt:
            rep.ok(rid, construct, 'window end uses the served fragment', txt)
        else:
            rep.fail(rid, construct, 'window end uses the served fragment',
                     f'the segment window is [start, start + `{txt}`): that is not the duration of the fragment '
                     'being served (segments[mod_segment].duration or its trun samples) - with a short last '
                     'fragment or variable fragment durations an event is delivered twice or not at all',
                     loops[0])
    k = floordivs(e_end)
    if k >= 2:
        rep.fail(rid, construct, 'window end converted as one quantity',
                 f'seg_end = `{last_txt[:100]}` adds {k} separately floor-divided terms: floor is not additive, so '
                 'the windows of consecutive segments do not tile the event timeline (a one-tick hole '
                 'can swallow an event)', loops[0])
    elif k == 1:
        rep.ok(rid, construct, 'window end converted as one quantity', last_txt[:100])
    else:
        rep.note(f'R14.6: seg_end = `{last_txt[:80]}` - conversion form not recognised; not decided')
        rep.ok(rid, construct, 'window end converted as one quantity', 'form not recognised (not decided)')


def r14_9(rep: Report) -> None:
    """every `return []` before the scheduling loop is taken only when no event of the schedule can
    lie in the segment window [seg_start, seg_end): not in-band, no positive interval, the first event
    at or after the window end, or (bounded schedule) the last event `start + (count-1)*interval`
    before the window start.  The path condition of each early exit (locals resolved to polynomials
    in start / count / interval) must entail one of these; entailment is `goal = premise - D` with D
    a non-negative combination of 1 and the interval (known >= 1 after the interval guard)."""
    from ..core import dfs_order, poly, poly_cmp, poly_sub
    from ..flow import Disjunctive, Flow, each_exit
    from ..pathcond import PathCond, dnf, show as pc_show, sym_values
    rid = 'R14.9'
    rel = f'{EV}/repeating_event_base.py'
    tree = rep.repo.tree(rel)
    cls = need(find_class(tree, 'RepeatingEventBase'), 'RepeatingEventBase')
    fn = need(find_func(cls, 'create_emsg_boxes'), 'create_emsg_boxes')
    construct = f'{rel}::RepeatingEventBase.create_emsg_boxes'
    loops = [n for n in ast.walk(fn) if isinstance(n, ast.While)]
    if not loops:
        raise AnalysisError('create_emsg_boxes: scheduling loop not found')
    order = dfs_order(fn)
    first_loop = min(order[id(l)] for l in loops)
    upd, _resolve = sym_values()
    exits: list[tuple[ast.Return, tuple]] = []

    def on_exit(kind, st, state):
        if kind == 'return' and st is not None and isinstance(st.value, (ast.List, ast.Tuple)) \
                and not st.value.elts and order.get(id(st), 1 << 30) < first_loop:
            exits.append((st, state))
    Flow(Disjunctive(PathCond(upd=upd), cap=256), on_exit=each_exit(on_exit)).run(fn, [PathCond.initial()])
    # (each early exit is an obligation; folding redundant exits into the loop condition removes obligations,
    # not evidence - only the absence of every exit means the function was not understood)
    if len(exits) < 1:
        raise AnalysisError(f'create_emsg_boxes: only {len(exits)} early exits found')
    S, I, C = 'self.start', 'self.interval', 'self.count'
    # roles: the window end bounds the scheduling loop (`while t < END`), the window start is what
    # events before the window are skipped against (found by role, see _emsg_roles)
    tvar, END, START, _idv = _emsg_roles(fn)
    if START is None:
        raise AnalysisError('create_emsg_boxes: the skip of events before the window start was not found')

    def cases_of(state) -> list[tuple[list[tuple[dict, int]], set[str]]]:
        """the path condition split into cases (DNF); per case the integer comparisons as polynomial
        constraints and the plain literals"""
        vals = {}
        for f in state[2]:
            if f.startswith('val:'):
                k, v = f[4:].split('=', 1)
                try:
                    pv = poly(ast.parse(v, mode='eval').body)
                except SyntaxError:
                    pv = None
                if pv is not None:
                    vals[k] = v

        class T(ast.NodeTransformer):
            def visit_Name(self, node):
                if node.id in vals:
                    return ast.parse(vals[node.id], mode='eval').body
                return node
        cases = []
        for lits in dnf(state[0]):
            out = []
            plain: set[str] = set()
            for truth, text in lits:
                plain.add(('' if truth else 'not ') + text)
                try:
                    e = T().visit(ast.parse(text, mode='eval').body)
                except SyntaxError:
                    continue
                pc_ = poly_cmp(e, truth)
                if pc_ is not None:
                    out.append(pc_)
            cases.append((out, plain))
        return cases

    def entails(prem: tuple[dict, int], goal: tuple[dict, int], interval_pos: bool) -> bool:
        d = poly_sub(prem[0], goal[0])              # goal = prem - D
        c0 = d.pop((), 0)
        c1 = d.pop((I,), 0)
        if d or c0 < 0 or c1 < 0 or (c1 and not interval_pos):
            return False
        return c0 + c1 >= prem[1] - goal[1]

    for st, state in exits:
        key = f'early exit line-order #{exits.index((st, state)) + 1}'
        whys: list[str | None] = []
        for facts, plain in cases_of(state):
            interval_pos = any(entails(f, ({(I,): -1}, -1), False) for f in facts)      # -I <= -1
            count_pos = any(entails(f, ({(C,): -1}, -1), False) for f in facts)
            why = None
            if 'not self.inband' in plain:
                why = 'not in-band'
            elif any(entails(f, ({(I,): 1}, 0), False) for f in facts):
                why = 'interval <= 0'
            else:
                for f in facts:
                    # first event at or after the window end: seg_end - start <= 0
                    if entails(f, ({(END,): 1, (S,): -1}, 0), interval_pos):
                        why = 'first event at or after the window end'
                    # last event before the window start
                    if count_pos and entails(f, ({(S,): 1, (C, I): 1, (I,): -1, (START,): -1}, -1),
                                             interval_pos):
                        why = 'last event of the bounded schedule before the window start'
            whys.append(why)
        if whys and all(whys):
            rep.ok(rid, construct, key, ' / '.join(sorted(set(whys))))
        else:
            rep.fail(rid, construct, key,
                     f'`return []` is taken under {pc_show(state[0])[:140]}, which does not imply that no event '
                     'of the schedule lies in [seg_start, seg_end): not one of not in-band / interval <= 0 / '
                     'start >= seg_end / (count > 0 and start + (count-1)*interval < seg_start). An event that '
                     'falls exactly on the boundary is never delivered', st)


def analyse(rep: Report) -> None:
    rep.explanation = (
        'Layout extraction (E4) over the SCTE-35 codec classes, the MPEG section table and '
        'EventMessageBox decides encode/parse agreement for every field value; protocol lint over '
        'the same classes; syntactic boundedness of every value create_binary_signal hands to a '
        'fixed-width field; agreement between the emsg kwargs set per version and the fields that '
        'version encodes; positivity guard of the event loop. Exactly-once selection per segment '
        'and the CRC value are integer arithmetic and not decided.')
    rep.rule('R14.1', 'SCTE-35 / section / emsg reader and writer layouts agree', floor=12)
    rep.rule('R14.1p', 'codec protocol: dispatcher targets exist, argument roles, returns', floor=12)
    rep.rule('R14.2', 'values written into n-bit SCTE-35 fields are bounded', floor=7)
    rep.rule('R14.3', 'emsg time field follows the box version', floor=5)
    rep.rule('R14.4', 'event loop step and divisions are guarded positive', floor=3)
    rep.rule('R14.5', 'out-of-band listing shape', floor=6)
    rep.rule('R14.8', 'event time conversions multiply before dividing', floor=2)
    rep.rule('R14.7', 'in-band events of a bounded schedule have ids below count', floor=1)
    rep.rule('R14.6', 'segment window end: duration of the served fragment, converted as one quantity', floor=2)
    rep.rule('R14.9', 'early exits of the in-band scheduler imply an empty segment window', floor=1)
    rep.rule('R14.10', 'optional numeric SCTE-35 fields are present unless None (0 is a value)', floor=1)
    rep.rule('R14.12', 'the arms of every alternative in an SCTE-35 structure have the same length modulo 8 bits', floor=3)
    rep.rule('R14.11', 'a default is not overwritten by the target of the loop that searches for a replacement', floor=1)
    idx = Index(rep.repo, 'dashlive')
    rels = sorted(r for r in idx.by_rel if r.startswith(SCTE + '/')) + ['dashlive/mpeg/section_table.py']
    layout_rule(rep, idx, 'R14.1', rels, 12)
    r14_12(rep, idx, rels)
    layout_rule(rep, idx, 'R14.1', ['dashlive/mpeg/mp4.py'], 1, only={'EventMessageBox'})
    r14_1_protocol(rep, idx)
    r14_2(rep, idx)
    r14_3(rep, idx)
    r14_4_5(rep)
    r14_6(rep)
    r14_7(rep)
    r14_8(rep)
    r14_9(rep)
    r14_10(rep, idx)
    r14_11(rep)

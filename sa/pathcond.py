"""E12 - propositional path conditions.

State of a path = the conjunction of the branch tests taken, as formulas over *atoms*
(normalised text of the non-boolean sub-expressions), plus the formulas of boolean
locals (`ok = a and not b`, `ok = False`).  `entails(state, goal)` decides by exhaustive
valuation of the atoms (at most 2^14) whether every valuation allowed by the path makes
`goal` true.  Used where a rule asks "is this statement only reached when P holds",
independently of how the tests are written (early return, if/elif, merged conditions, De
Morgan, a boolean local, an inlined helper).
Canonical forms: `x is not None` = not (`x is None`), `a != b` = not (`a == b`),
`a not in b` = not (`a in b`), `not a < b` stays an atom pair (`a < b`, negated).
"""
from __future__ import annotations

import ast
import itertools
import re

from .core import norm
from .flow import Domain

TRUE = ('const', True)
FALSE = ('const', False)


def f_not(f):
    if f[0] == 'const':
        return ('const', not f[1])
    if f[0] == 'not':
        return f[1]
    return ('not', f)


def f_and(*fs):
    out = []
    for f in fs:
        if f == FALSE:
            return FALSE
        if f == TRUE:
            continue
        if f[0] == 'and':
            out.extend(x for x in f[1:] if x not in out)
            continue
        if f not in out:
            out.append(f)
    if not out:
        return TRUE
    return out[0] if len(out) == 1 else ('and',) + tuple(out)


def f_or(*fs):
    out = []
    for f in fs:
        if f == TRUE:
            return TRUE
        if f == FALSE:
            continue
        if f[0] == 'or':
            out.extend(x for x in f[1:] if x not in out)
            continue
        if f not in out:
            out.append(f)
    if not out:
        return FALSE
    return out[0] if len(out) == 1 else ('or',) + tuple(out)


def parse(e: ast.AST, env: dict | None = None, subst: dict[str, str] | None = None):
    """formula of a test expression; `subst` renames atoms textually (aliases)"""
    env = env or {}
    if isinstance(e, ast.BoolOp):
        parts = [parse(v, env, subst) for v in e.values]
        return f_and(*parts) if isinstance(e.op, ast.And) else f_or(*parts)
    if isinstance(e, ast.UnaryOp) and isinstance(e.op, ast.Not):
        return f_not(parse(e.operand, env, subst))
    if isinstance(e, ast.Constant):
        return ('const', bool(e.value))
    if isinstance(e, ast.Name) and e.id in env:
        return env[e.id]
    if isinstance(e, ast.NamedExpr):
        return parse(e.value, env, subst)
    if isinstance(e, ast.Compare) and len(e.ops) == 1:
        op = e.ops[0]
        pos = {ast.IsNot: ast.Is, ast.NotEq: ast.Eq, ast.NotIn: ast.In}.get(type(op))
        if pos is not None:
            e2 = ast.Compare(left=e.left, ops=[pos()], comparators=e.comparators)
            return f_not(atom(e2, subst))
    if isinstance(e, ast.Compare) and len(e.ops) > 1 and not any(isinstance(x, ast.Call) for x in ast.walk(e)):
        # a <= b <= c is (a <= b) and (b <= c) when the operands are plain reads
        sides = [e.left] + list(e.comparators)
        return f_and(*[parse(ast.Compare(left=sides[i], ops=[e.ops[i]], comparators=[sides[i + 1]]), env, subst)
                       for i in range(len(e.ops))])
    return atom(e, subst)


def atom(e: ast.AST, subst: dict[str, str] | None = None):
    t = norm(e)
    if subst:
        import re
        for a, b in subst.items():
            t = re.sub(rf'(?<![\w.]){re.escape(a)}(?![\w])', b, t)
    return ('atom', t)


def atoms_of(f, acc: set[str] | None = None) -> set[str]:
    acc = acc if acc is not None else set()
    if f[0] == 'atom':
        acc.add(f[1])
    elif f[0] in ('and', 'or'):
        for x in f[1:]:
            atoms_of(x, acc)
    elif f[0] == 'not':
        atoms_of(f[1], acc)
    return acc


def evalf(f, val: dict[str, bool]) -> bool:
    k = f[0]
    if k == 'const':
        return f[1]
    if k == 'atom':
        return val[f[1]]
    if k == 'not':
        return not evalf(f[1], val)
    if k == 'and':
        return all(evalf(x, val) for x in f[1:])
    return any(evalf(x, val) for x in f[1:])


def _assign(f, name: str, value: bool):
    """f with the atom `name` fixed to `value`, simplified"""
    k = f[0]
    if k == 'const':
        return f
    if k == 'atom':
        return ('const', value) if f[1] == name else f
    if k == 'not':
        return f_not(_assign(f[1], name, value))
    parts = [_assign(x, name, value) for x in f[1:]]
    return f_and(*parts) if k == 'and' else f_or(*parts)


class _Budget(Exception):
    pass


def _sat(f, budget: list[int]) -> bool:
    """DPLL on the formula tree: unit literals of a top-level conjunction first, then case split"""
    while True:
        if f[0] == 'const':
            return f[1]
        budget[0] -= 1
        if budget[0] < 0:
            raise _Budget()
        lit = None
        if f[0] == 'atom':
            return True
        if f[0] == 'not' and f[1][0] == 'atom':
            return True
        if f[0] == 'and':
            for x in f[1:]:
                if x[0] == 'atom':
                    lit = (x[1], True)
                    break
                if x[0] == 'not' and x[1][0] == 'atom':
                    lit = (x[1][1], False)
                    break
        if lit is not None:
            f = _assign(f, lit[0], lit[1])
            continue
        name = next(iter(sorted(atoms_of(f))))
        return _sat(_assign(f, name, True), budget) or _sat(_assign(f, name, False), budget)


def entails(premise, goal, limit: int = 14) -> bool | None:
    """premise |= goal ?  None when the search budget is exhausted"""
    try:
        return not _sat(f_and(premise, f_not(goal)), [20000])
    except _Budget:
        return None


def satisfiable(f, limit: int = 14) -> bool:
    try:
        return _sat(f, [20000])
    except _Budget:
        return True


def show(f) -> str:
    k = f[0]
    if k == 'const':
        return str(f[1])
    if k == 'atom':
        return f[1]
    if k == 'not':
        return f'not ({show(f[1])})'
    return '(' + (' and ' if k == 'and' else ' or ').join(show(x) for x in f[1:]) + ')'


class PathCond(Domain):
    """state = (path formula, env of boolean locals as a tuple of pairs, extra facts frozenset).
    Meant to be wrapped in flow.Disjunctive (one state per path)."""

    def __init__(self, subst: dict[str, str] | None = None, gen=None, upd=None, decide=None, attr_alias: bool = False,
                 twin=None):
        self.attr_alias = attr_alias        # a local that names an attribute chain reads as that chain in atoms
        # twin(state, test) -> the test with the locals' current values written out: taken as a second conjunct, it
        # survives a later reassignment of a local the test mentions (`s = L - n; if s < 0: s = 0`)
        self.twin = twin
        self.subst = subst or {}
        self.gen = gen                      # stmt -> iterable of opaque facts established
        self.upd = upd                      # (stmt, facts) -> facts  (facts that can also be retracted)
        self.decide = decide                # (test, facts) -> True / False / None: tests decided by the facts

    @staticmethod
    def initial():
        return (TRUE, (), frozenset())

    def copy(self, s): return s
    def join(self, a, b):
        common = _common(a[0], b[0])
        pc = common if common != TRUE else f_or(a[0], b[0])
        return (pc, tuple(x for x in a[1] if x in b[1]), a[2] & b[2])
    def leq(self, a, b): return a == b
    def widen(self, old, new):
        return (_common(old[0], new[0]), tuple(x for x in old[1] if x in new[1]), old[2] & new[2])

    @staticmethod
    def aliases(state) -> dict[str, str]:
        """local names that are plain copies of another local on this path: {copy: original}"""
        return {k[1:]: v[1] for k, v in state[1] if k.startswith('@')}

    def resolve(self, state, name: str) -> str:
        al = self.aliases(state)
        seen = set()
        while name in al and name not in seen:
            seen.add(name)
            name = al[name]
        return name

    def goal(self, state, text: str):
        """formula for `text` as read on this path (local copies replaced by what they copy)"""
        env = dict(state[1])
        return parse(ast.parse(text, mode='eval').body, {k: v for k, v in env.items() if not k.startswith('@')},
                     self._subst(env))

    def _subst(self, env: dict) -> dict[str, str]:
        out = dict(self.subst)
        for k, v in env.items():
            if k.startswith('@'):
                out[k[1:]] = v[1]
        return out

    def transfer(self, st, s):
        pc, env, facts = s
        envd = dict(env)
        if isinstance(st, (ast.Assign, ast.AnnAssign)) and getattr(st, 'value', None) is not None:
            tgt = st.targets[0] if isinstance(st, ast.Assign) else st.target
            if isinstance(tgt, ast.Name):
                v = st.value
                # aliases of / through the reassigned name end here
                for k in [k for k, a in envd.items() if k.startswith('@') and (
                        k[1:] == tgt.id or a[1] == tgt.id or a[1].split('.')[0] == tgt.id)]:
                    del envd[k]
                boolish = isinstance(v, (ast.BoolOp, ast.Compare)) or \
                    (isinstance(v, ast.UnaryOp) and isinstance(v.op, ast.Not)) or \
                    (isinstance(v, ast.Constant) and isinstance(v.value, bool)) or \
                    (isinstance(v, ast.Name) and v.id in envd)
                # reassigning a name kills formulas that mention it as an atom
                envd = {k: f for k, f in envd.items() if tgt.id not in _names_in(f)}
                pc = _weaken(pc, tgt.id)
                if boolish:
                    envd[tgt.id] = parse(v, {k: f for k, f in env if not k.startswith('@')}, self._subst(dict(env)))
                else:
                    envd.pop(tgt.id, None)
                if isinstance(v, ast.Name) and v.id != tgt.id:
                    src = v.id
                    al = {k[1:]: a[1] for k, a in envd.items() if k.startswith('@')}
                    src = al.get(src, src)
                    if src != tgt.id:
                        envd['@' + tgt.id] = ('alias', src)
                elif self.attr_alias and isinstance(v, ast.Attribute) and _plain_chain(v) and not tgt.id.startswith('_'):
                    # a local that names an attribute of something: hook = drm.moov
                    envd['@' + tgt.id] = ('alias', norm(v))
                elif isinstance(v, ast.Constant) and v.value is None:
                    pc = f_and(pc, ('atom', f'{tgt.id} is None'))
                facts = frozenset(x for x in facts if x != f'notnone:{tgt.id}')
                if isinstance(v, (ast.Tuple, ast.List, ast.Dict, ast.Set, ast.JoinedStr)) or (
                        isinstance(v, ast.Constant) and v.value is not None):
                    facts = facts | {f'notnone:{tgt.id}'}       # a display is never None (decides `x is None`)
                elif isinstance(v, ast.BinOp) and isinstance(v.op, (ast.Add, ast.Sub, ast.Mult, ast.FloorDiv, ast.Div, ast.Mod,
                                                                    ast.LShift, ast.RShift, ast.BitAnd, ast.BitOr)):
                    facts = facts | {f'notnone:{tgt.id}'}       # neither is the result of arithmetic
                elif isinstance(v, ast.Call) and isinstance(v.func, ast.Name) and v.func.id in (
                        'int', 'float', 'str', 'len', 'bool', 'abs', 'round', 'sum', 'bytes', 'list', 'dict', 'tuple', 'set',
                        'frozenset', 'sorted', 'repr', 'divmod', 'ord', 'chr', 'hex', 'range', 'enumerate', 'zip'):
                    facts = facts | {f'notnone:{tgt.id}'}       # nor what these builtins return
                elif isinstance(v, ast.Name) and f'notnone:{v.id}' in facts and v.id != tgt.id:
                    facts = facts | {f'notnone:{tgt.id}'}       # nor a copy of such a value
        elif isinstance(st, (ast.AugAssign,)) and isinstance(st.target, ast.Name):
            facts = frozenset(x for x in facts if x != f'notnone:{st.target.id}')
            envd.pop(st.target.id, None)
            envd = {k: f for k, f in envd.items() if st.target.id not in _names_in(f)}
            pc = _weaken(pc, st.target.id)
        if isinstance(st, (ast.Assign, ast.AnnAssign, ast.For, ast.With)) and any(x.startswith('notnone:') for x in facts):
            tg = st.targets if isinstance(st, ast.Assign) else (
                [st.target] if isinstance(st, (ast.AnnAssign, ast.For)) else
                [i.optional_vars for i in st.items if i.optional_vars is not None])
            stored = {x.id for t in tg if not isinstance(t, ast.Name) for x in ast.walk(t) if isinstance(x, ast.Name)}
            if isinstance(st, (ast.For, ast.With)):
                stored |= {x.id for t in tg for x in ast.walk(t) if isinstance(x, ast.Name)}
            facts = frozenset(x for x in facts if not (x.startswith('notnone:') and x[8:] in stored))
        if self.gen is not None:
            facts = facts | frozenset(self.gen(st))
        if self.upd is not None:
            facts = frozenset(self.upd(st, facts))
        return (pc, tuple(sorted(envd.items(), key=lambda kv: kv[0])), facts)

    def assume(self, test, s, truth):
        pc, env, facts = s
        if isinstance(test, ast.Compare) and len(test.ops) == 1 and isinstance(test.left, ast.Name) \
                and isinstance(test.ops[0], (ast.Is, ast.IsNot)) and isinstance(test.comparators[0], ast.Constant) \
                and test.comparators[0].value is None and f'notnone:{test.left.id}' in facts:
            if isinstance(test.ops[0], ast.Is) == truth:
                return None                 # the name holds a tuple / list / dict / string display here
            return s
        if self.decide is not None:
            known = self.decide(test, facts)
            if known is not None and known != truth:
                return None                 # the branch cannot be taken with the values known on this path
        f = parse(test, {k: v for k, v in env if not k.startswith('@')}, self._subst(dict(env)))
        if not truth:
            f = f_not(f)
        new = f_and(pc, f)
        if self.twin is not None:
            try:
                t2 = self.twin(s, test)
            except Exception:       # noqa: BLE001 - not representable: no twin
                t2 = None
            if t2 is not None and norm(t2) != norm(test) and len(norm(t2)) < 300:
                f2 = parse(t2, {}, None)
                new = f_and(new, f2 if truth else f_not(f2))
        if new == FALSE or not satisfiable(new):
            return None
        return (new, env, facts)

    def bind(self, target, s, source=None):
        stored = {x.id for x in ast.walk(target) if isinstance(x, ast.Name)} if isinstance(target, ast.AST) else set()
        if any(x.startswith('notnone:') and x[8:] in stored for x in s[2]):
            return (s[0], s[1], frozenset(x for x in s[2] if not (x.startswith('notnone:') and x[8:] in stored)))
        return s


def _plain_chain(e: ast.AST) -> bool:
    """a.b.c - names and attributes only"""
    while isinstance(e, ast.Attribute):
        e = e.value
    return isinstance(e, ast.Name)


def _conjuncts(f) -> list:
    if f == TRUE:
        return []
    return list(f[1:]) if f[0] == 'and' else [f]


def _common(a, b):
    """the conjuncts two path formulas share (sound weakening of either)"""
    cb = _conjuncts(b)
    return f_and(*[c for c in _conjuncts(a) if c in cb])


def _weaken(pc, name: str):
    """drop the conjuncts of a path formula that talk about a reassigned name"""
    if pc[0] == 'and':
        return f_and(*[c for c in pc[1:] if name not in _names_in(c)])
    return TRUE if name in _names_in(pc) else pc


def _names_in(f) -> set[str]:
    import re
    out: set[str] = set()
    for a in atoms_of(f):
        out.update(re.findall(r'[A-Za-z_]\w*', a))
    return out


# ------------------------------------------------------------------ symbolic values of locals
class _Fold(ast.NodeTransformer):
    """x + 0, 0 + x, x - 0, x * 1, 1 * x -> x (after a known local was substituted);
    Record(field=v, ..).field -> v for a record built with keywords by a class-like callee"""

    def visit_Attribute(self, node):
        self.generic_visit(node)
        v = node.value
        if isinstance(v, ast.Call) and isinstance(v.func, ast.Name) and v.func.id[:1].isupper() and not v.args:
            for k in v.keywords:
                if k.arg == node.attr:
                    return k.value
        return node

    def visit_BinOp(self, node):
        self.generic_visit(node)

        def is_c(n, v):
            return isinstance(n, ast.Constant) and not isinstance(n.value, bool) and n.value == v \
                and isinstance(n.value, int)
        if isinstance(node.op, ast.Add):
            if is_c(node.right, 0):
                return node.left
            if is_c(node.left, 0):
                return node.right
        if isinstance(node.op, ast.Sub) and is_c(node.right, 0):
            return node.left
        if isinstance(node.op, ast.Mult):
            if is_c(node.right, 1):
                return node.left
            if is_c(node.left, 1):
                return node.right
        return node


_NAMES_CACHE: dict[str, frozenset] = {}


def _names_of(text: str) -> frozenset:
    """the local names (not attribute names) an expression text mentions"""
    r = _NAMES_CACHE.get(text)
    if r is None:
        try:
            r = frozenset(n.id for n in ast.walk(ast.parse(text, mode='eval')) if isinstance(n, ast.Name))
        except SyntaxError:
            r = frozenset(re.findall(r'[A-Za-z_]\w*', text))
        if len(_NAMES_CACHE) < 20000:
            _NAMES_CACHE[text] = r
    return r


_CALLFREE_CACHE: dict[str, bool] = {}


def _call_free(text: str) -> bool:
    """no call in the expression text, except records built with keywords by a class-like callee
    (`Window(start=a, end=b)`: a NamedTuple / dataclass display, as good as a tuple)"""
    r = _CALLFREE_CACHE.get(text)
    if r is None:
        if '(' not in text:
            r = True
        else:
            try:
                tree = ast.parse(text, mode='eval')
                r = all(isinstance(n.func, ast.Name) and n.func.id[:1].isupper() and not n.args
                        and all(k.arg for k in n.keywords)
                        for n in ast.walk(tree) if isinstance(n, ast.Call))
            except SyntaxError:
                r = False
        if len(_CALLFREE_CACHE) < 20000:
            _CALLFREE_CACHE[text] = r
    return r


def sym_values(max_len: int = 200, subst_calls: bool = True):
    """-> (upd, resolve).  `upd` is a PathCond `upd` callback that keeps, per path, the defining
    expression of every plainly assigned local (`val:x=<expr>` with earlier locals substituted);
    `resolve(state, e)` is e with those locals replaced.  A reassignment retracts every value that
    mentions the name, so the text is always valid at the point where it is read."""
    def _vals(facts) -> dict[str, str]:
        out = {}
        for f in facts:
            if f.startswith('val:'):
                k, v = f[4:].split('=', 1)
                out[k] = v
        return out

    def _sub(e: ast.AST, vals: dict[str, str]) -> ast.AST:
        from .normalise import clone

        class T(ast.NodeTransformer):
            def visit_Name(self, node):
                if isinstance(node.ctx, ast.Load) and node.id in vals:
                    return ast.parse(vals[node.id], mode='eval').body
                return node
        return _Fold().visit(T().visit(clone(e)))

    def upd(st, facts):
        tgts: list[tuple[str, ast.AST | None]] = []
        simultaneous = False
        if isinstance(st, ast.Assign):
            for t in st.targets:
                if isinstance(t, ast.Name):
                    tgts.append((t.id, st.value if len(st.targets) == 1 else None))
                elif isinstance(t, (ast.Tuple, ast.List)) and isinstance(st.value, (ast.Tuple, ast.List)) \
                        and len(t.elts) == len(st.value.elts) and len(st.targets) == 1 \
                        and all(isinstance(x, ast.Name) for x in t.elts):
                    tgts.extend((x.id, v) for x, v in zip(t.elts, st.value.elts))
                    simultaneous = True
                else:
                    tgts.extend((x.id, None) for x in ast.walk(t)
                                if isinstance(x, ast.Name) and isinstance(x.ctx, ast.Store))
        elif isinstance(st, ast.AnnAssign) and isinstance(st.target, ast.Name) and st.value is not None:
            tgts.append((st.target.id, st.value))
        elif isinstance(st, ast.AugAssign) and isinstance(st.target, ast.Name):
            tgts.append((st.target.id, ast.BinOp(left=ast.Name(id=st.target.id, ctx=ast.Load()), op=st.op,
                                                 right=st.value)))
        elif isinstance(st, (ast.For,)):
            tgts.extend((x.id, None) for x in ast.walk(st.target) if isinstance(x, ast.Name))
        if not tgts:
            return facts
        vals = _vals(facts)
        vals0 = dict(vals)
        for name, val in tgts:
            new = None
            if val is not None and not any(isinstance(x, (ast.Await, ast.NamedExpr, ast.Lambda)) for x in ast.walk(val)):
                try:
                    # a, b = x, y evaluates every right-hand side before any name is bound
                    use = vals0 if simultaneous else vals
                    if not subst_calls:
                        # locals that hold the result of a call (`moof = self.find_atom(..)`) stay names
                        use = {k: v for k, v in use.items() if _call_free(v)}
                    text = ast.unparse(_sub(val, use))
                except Exception:       # noqa: BLE001 - not representable, drop the value
                    text = None
                if text is not None and len(text) <= max_len:
                    new = text
            facts = frozenset(f for f in facts if not (f.startswith('val:') and
                                                       (f.startswith(f'val:{name}=')
                                                        or name in _names_of(f.split('=', 1)[1]))))
            vals = _vals(facts)
            if new is not None and name not in _names_of(new):
                facts = facts | {f'val:{name}={new}'}
                vals[name] = new
        return facts

    def resolve(state, e: ast.AST, calls: bool = True) -> ast.AST:
        """e with known locals replaced; calls=False keeps locals that hold the result of a call
        (`moof = self.find_atom(..)`) as names and resolves only arithmetic / attribute copies"""
        vals = _vals(state[2])
        if not calls or not subst_calls:
            vals = {k: v for k, v in vals.items() if _call_free(v)}
        return _sub(e, vals)

    def decide(test: ast.AST, facts):
        """a comparison of integer / string / None constants once the known locals are substituted"""
        if not isinstance(test, ast.Compare) or len(test.ops) != 1:
            return None
        vals = _vals(facts)
        if not any(isinstance(n, ast.Name) and n.id in vals for n in ast.walk(test)):
            return None
        e = _sub(test, vals)
        sides = [e.left, e.comparators[0]]
        if not all(isinstance(x, ast.Constant) and isinstance(x.value, (int, str, type(None)))
                   and not isinstance(x.value, bool) for x in sides):
            return None
        a, b = sides[0].value, sides[1].value
        op = e.ops[0]
        try:
            if isinstance(op, ast.Eq):
                return a == b
            if isinstance(op, ast.NotEq):
                return a != b
            if isinstance(op, ast.Is):
                return a is b
            if isinstance(op, ast.IsNot):
                return a is not b
            if isinstance(op, ast.Lt):
                return a < b
            if isinstance(op, ast.LtE):
                return a <= b
            if isinstance(op, ast.Gt):
                return a > b
            if isinstance(op, ast.GtE):
                return a >= b
        except TypeError:
            return None
        return None
    upd.decide = decide
    return upd, resolve


def dnf(f, limit: int = 64) -> list[list[tuple[bool, str]]]:
    """disjunctive normal form: a list of conjunctions of literals (truth, atom text); at most `limit`
    disjuncts (AnalysisError beyond - a path condition that large is not one a rule should split)"""
    from .core import AnalysisError

    def go(g, pos: bool) -> list[list[tuple[bool, str]]]:
        if g[0] == 'const':
            return [[]] if g[1] == pos else []
        if g[0] == 'atom':
            return [[(pos, g[1])]]
        if g[0] == 'not':
            return go(g[1], not pos)
        kids = [go(x, pos) for x in g[1:]]
        conj = (g[0] == 'and') == pos
        if not conj:
            out = [c for k in kids for c in k]
        else:
            out = [[]]
            for k in kids:
                out = [a + [l for l in b if l not in a] for a in out for b in k]
                if len(out) > limit:
                    raise AnalysisError('path condition too large to split into cases')
        if len(out) > limit:
            raise AnalysisError('path condition too large to split into cases')
        return out
    return go(f, True)

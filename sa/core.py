"""Core of the static verification framework for dash-live.

Repo      : read-only view of /repo's *current working tree* (optionally with an
            in-memory overlay used by the self-validation variants).
Report    : collects rule instances, findings, analysis errors for one property.
run_check : CLI plumbing (known findings, VIOLATION lines, evidence, exit codes).

Nothing here imports or executes dash-live code.
"""
from __future__ import annotations

import ast
import hashlib
import json
import os
import re
import sys
import time
import traceback
from dataclasses import dataclass, field
from pathlib import Path
from typing import Any, Callable, Iterable

VERIF = Path(__file__).resolve().parent.parent
DEFAULT_REPO = Path(os.environ.get('DASHLIVE_REPO', '/repo'))


class AnalysisError(Exception):
    """The analysis itself cannot be trusted (anchor vanished, unknown idiom...)."""


# --------------------------------------------------------------------------
# repository view
# --------------------------------------------------------------------------
class Repo:
    def __init__(self, root: Path | str = DEFAULT_REPO,
                 overlay: dict[str, str] | None = None) -> None:
        self.root = Path(root)
        self.overlay = dict(overlay or {})
        self._src: dict[str, str] = {}
        self._tree: dict[str, ast.Module] = {}
        self.consulted: set[str] = set()
        self._normaliser = None

    @property
    def normaliser(self):
        if self._normaliser is None:
            from .normalise import Normaliser
            self._normaliser = Normaliser(self)
        return self._normaliser

    def with_overlay(self, overlay: dict[str, str]) -> 'Repo':
        ov = dict(self.overlay)
        ov.update(overlay)
        return Repo(self.root, ov)

    def exists(self, rel: str) -> bool:
        return rel in self.overlay or (self.root / rel).is_file()

    def source(self, rel: str) -> str:
        if rel not in self._src:
            if rel in self.overlay:
                self._src[rel] = self.overlay[rel]
            else:
                p = self.root / rel
                if not p.is_file():
                    raise AnalysisError(f'anchor file missing: {rel}')
                self._src[rel] = p.read_text(encoding='utf-8')
        self.consulted.add(rel)
        return self._src[rel]

    def tree(self, rel: str) -> ast.Module:
        if rel not in self._tree:
            try:
                t = ast.parse(self.source(rel), filename=rel)
            except SyntaxError as err:
                raise AnalysisError(f'cannot parse {rel}: {err}')
            for node in ast.walk(t):
                for child in ast.iter_child_nodes(node):
                    child._parent = node  # type: ignore[attr-defined]
            t._rel = rel  # type: ignore[attr-defined]
            t._repo = self  # type: ignore[attr-defined]
            self._tree[rel] = t
        return self._tree[rel]

    def expanded_functions(self, rel: str) -> list[tuple[ast.ClassDef | None, ast.AST]]:
        """(class or None, function in normal form) for the functions of a module: helpers that are
        inlined into a caller by the normaliser are not listed on their own"""
        cache = getattr(self, '_expfn', None)
        if cache is None:
            cache = self._expfn = {}
        if rel in cache:
            return cache[rel]
        tree = self.tree(rel)
        nz = self.normaliser
        items: list[tuple[ast.ClassDef | None, ast.AST, str]] = []
        for n in tree.body:
            if isinstance(n, (ast.FunctionDef, ast.AsyncFunctionDef)):
                items.append((None, n, n.name))
            elif isinstance(n, ast.ClassDef):
                for m in n.body:
                    if isinstance(m, (ast.FunctionDef, ast.AsyncFunctionDef)):
                        items.append((n, m, f'{n.name}.{m.name}'))
        before = len(nz.inlined)
        out = []
        expanded = [(c, nz.expand(f), q, f) for c, f, q in items]
        inlined_names = {x.split('::', 1)[1].split(' -> ')[0] for x in nz.inlined}
        for c, ef, q, f in expanded:
            if nz.is_new(rel, q) and f.name in inlined_names:
                continue
            out.append((c, ef))
        cache[rel] = out
        return out

    def py_files(self, sub: str = 'dashlive') -> list[str]:
        out = set()
        base = self.root / sub
        for p in base.rglob('*.py'):
            out.add(str(p.relative_to(self.root)))
        for rel in self.overlay:
            if rel.startswith(sub + '/') and rel.endswith('.py'):
                out.add(rel)
        return sorted(out)

    def files(self, sub: str, suffixes: tuple[str, ...]) -> list[str]:
        out = set()
        base = self.root / sub
        if base.is_dir():
            for p in base.rglob('*'):
                if p.is_file() and p.suffix in suffixes:
                    out.add(str(p.relative_to(self.root)))
        for rel in self.overlay:
            if rel.startswith(sub + '/') and rel.endswith(suffixes):
                out.add(rel)
        return sorted(out)

    def digest(self) -> str:
        h = hashlib.sha256()
        for rel in sorted(self.consulted):
            h.update(rel.encode())
            h.update(hashlib.sha256(self.source(rel).encode()).digest())
        return h.hexdigest()[:16]


# --------------------------------------------------------------------------
# ast helpers shared by all checkers
# --------------------------------------------------------------------------
def norm(node: ast.AST | str) -> str:
    """Normalised statement/expression text (position independent)."""
    if isinstance(node, str):
        return re.sub(r'\s+', ' ', node).strip()
    try:
        return ast.unparse(node)
    except Exception:  # pragma: no cover
        return ast.dump(node)


def short(node: ast.AST | str, n: int = 100) -> str:
    s = norm(node)
    s = s.split('\n')[0]
    return s if len(s) <= n else s[:n - 3] + '...'


def parent(node: ast.AST) -> ast.AST | None:
    return getattr(node, '_parent', None)


def ancestors(node: ast.AST) -> Iterable[ast.AST]:
    p = parent(node)
    while p is not None:
        yield p
        p = parent(p)


def enclosing_function(node: ast.AST) -> ast.FunctionDef | ast.AsyncFunctionDef | None:
    for a in ancestors(node):
        if isinstance(a, (ast.FunctionDef, ast.AsyncFunctionDef)):
            return a
    return None


def enclosing_class(node: ast.AST) -> ast.ClassDef | None:
    for a in ancestors(node):
        if isinstance(a, ast.ClassDef):
            return a
    return None


def dotted(node: ast.AST) -> str | None:
    """a.b.c -> 'a.b.c' for Name/Attribute chains, else None."""
    parts: list[str] = []
    while isinstance(node, ast.Attribute):
        parts.append(node.attr)
        node = node.value
    if isinstance(node, ast.Name):
        parts.append(node.id)
        return '.'.join(reversed(parts))
    return None


def call_name(node: ast.AST) -> str | None:
    if isinstance(node, ast.Call):
        return dotted(node.func)
    return None


def find_class(tree: ast.Module, name: str) -> ast.ClassDef | None:
    for n in ast.walk(tree):
        if isinstance(n, ast.ClassDef) and n.name == name:
            return n
    return None


def find_func(scope: ast.AST, name: str, raw: bool = False) -> ast.FunctionDef | None:
    """the function `name` of a class or module, in normal form (helpers that are new relative
    to the baseline inventory inlined, match -> if, conditional expressions -> if/else; see
    sa/normalise.py).  raw=True gives the node as written."""
    body = getattr(scope, 'body', [])
    for n in body:
        if isinstance(n, (ast.FunctionDef, ast.AsyncFunctionDef)) and n.name == name:
            if raw:
                return n  # type: ignore[return-value]
            mod = n
            while getattr(mod, '_parent', None) is not None:
                mod = mod._parent
            repo = getattr(mod, '_repo', None)
            if repo is None:
                return n  # type: ignore[return-value]
            return repo.normaliser.expand(n)  # type: ignore[return-value]
    return None


def dfs_order(fn: ast.AST) -> dict[int, int]:
    """id(node) -> position in source order of the (normal-form) function: line numbers are not an
    order once helpers have been inlined"""
    out: dict[int, int] = {}

    def walk(n):
        out[id(n)] = len(out)
        for c in ast.iter_child_nodes(n):
            walk(c)
    walk(fn)
    return out


def subst_locals(fn: ast.AST, e: ast.AST, depth: int = 3, allow_calls: bool = False) -> ast.AST:
    """`e` with local names replaced by their definition when the name is assigned exactly once in `fn`
    (a plain `x = <expr>` / `x: T = <expr>`), is not a parameter, and the definition contains no call:
    `file_pos = bucket + self.offset; seek(file_pos)` reads as `seek(bucket + self.offset)`"""
    if depth <= 0:
        return e
    params = {a.arg for a in getattr(getattr(fn, 'args', None), 'args', [])} if hasattr(fn, 'args') else set()
    defs: dict[str, list[ast.AST]] = {}
    for n in ast.walk(fn):
        if isinstance(n, ast.Assign):
            for t in n.targets:
                for x in ast.walk(t):
                    if isinstance(x, ast.Name) and isinstance(x.ctx, ast.Store):
                        defs.setdefault(x.id, []).append(n if t is x and len(n.targets) == 1 else None)
        elif isinstance(n, ast.AnnAssign) and isinstance(n.target, ast.Name) and n.value is not None:
            defs.setdefault(n.target.id, []).append(n)
        elif isinstance(n, (ast.AugAssign,)) and isinstance(n.target, ast.Name):
            defs.setdefault(n.target.id, []).append(None)
        elif isinstance(n, (ast.For, ast.comprehension)):
            for x in ast.walk(n.target):
                if isinstance(x, ast.Name):
                    defs.setdefault(x.id, []).append(None)

    # a container that is filled in after it was created is not its initial display: `data = {}; data[k] = v`
    _MUTATORS = ('append', 'extend', 'insert', 'update', 'setdefault', 'pop', 'popitem', 'add', 'remove', 'discard',
                 'clear', 'sort', 'reverse')
    mutated: set[str] = set()
    for n in ast.walk(fn):
        if isinstance(n, (ast.Subscript, ast.Attribute)) and isinstance(n.ctx, (ast.Store, ast.Del)) \
                and isinstance(n.value, ast.Name):
            mutated.add(n.value.id)
        elif isinstance(n, ast.Call) and isinstance(n.func, ast.Attribute) and n.func.attr in _MUTATORS \
                and isinstance(n.func.value, ast.Name):
            mutated.add(n.func.value.id)

    class T(ast.NodeTransformer):
        def visit_Name(self, node: ast.Name):
            if not isinstance(node.ctx, ast.Load) or node.id in params:
                return node
            ds = defs.get(node.id, [])
            if len(ds) != 1 or ds[0] is None:
                return node
            val = ds[0].value
            if node.id in mutated and isinstance(val, (ast.Dict, ast.List, ast.Set, ast.ListComp, ast.DictComp, ast.SetComp)):
                return node
            banned = (ast.Await, ast.IfExp, ast.NamedExpr) if allow_calls else (ast.Call, ast.Await, ast.IfExp, ast.NamedExpr)
            if any(isinstance(x, banned) for x in ast.walk(val)):
                return node
            import copy as _copy
            from .normalise import clone
            return subst_locals(fn, clone(val), depth - 1, allow_calls)
    from .normalise import clone as _clone
    return T().visit(_clone(e))


def need(obj, what: str):
    if obj is None:
        raise AnalysisError(f'anchor vanished: {what}')
    return obj


def const_value(node: ast.AST):
    try:
        return ast.literal_eval(node)
    except Exception:
        return None


# --------------------------------------------------------------------------
# report
# --------------------------------------------------------------------------
@dataclass
class Finding:
    rule: str
    construct: str       # qualified construct, e.g. dashlive/utils/date_time.py::toIsoDuration
    key: str             # normalised discriminator (statement text / field name)
    message: str
    file: str = ''
    line: int = 0
    path: list[str] = field(default_factory=list)

    def ident(self) -> tuple[str, str, str]:
        return (self.rule, self.construct, self.key)

    def to_json(self) -> dict[str, Any]:
        return {'rule': self.rule, 'construct': self.construct, 'key': self.key,
                'message': self.message, 'file': self.file, 'line': self.line,
                'path': self.path}


@dataclass
class RuleInfo:
    rid: str
    text: str
    floor: int = 1
    informational: bool = False
    instances: int = 0          # instances whose precondition matched
    ok: int = 0
    samples: list[dict[str, Any]] = field(default_factory=list)
    seen: set[tuple[str, str]] = field(default_factory=set)


class Report:
    def __init__(self, prop: str, repo: Repo, tier: str = 'quick') -> None:
        self.prop = prop
        self.repo = repo
        self.tier = tier
        self.rules: dict[str, RuleInfo] = {}
        self.findings: list[Finding] = []
        self.errors: list[str] = []
        self.info: list[str] = []
        self.axioms: list[str] = []
        self.assumptions: list[str] = []
        self.extra: dict[str, Any] = {}
        self.explanation: str = ''

    def rule(self, rid: str, text: str, floor: int = 1, informational: bool = False) -> RuleInfo:
        r = RuleInfo(rid, text, floor, informational)
        self.rules[rid] = r
        return r

    def ok(self, rid: str, construct: str, key: str = '', note: str = '') -> None:
        r = self.rules[rid]
        if (construct, key) in r.seen:
            return
        r.seen.add((construct, key))
        r.instances += 1
        r.ok += 1
        if len(r.samples) < 6:
            r.samples.append({'construct': construct, 'key': key, 'verdict': 'holds',
                              'note': note})

    def fail(self, rid: str, construct: str, key: str, message: str,
             node: ast.AST | None = None, file: str = '', path: list[str] | None = None) -> None:
        r = self.rules[rid]
        if (construct, key) in r.seen:
            return
        r.seen.add((construct, key))
        r.instances += 1
        line = getattr(node, 'lineno', 0) if node is not None else 0
        if not file and '::' in construct:
            file = construct.split('::')[0]
        if r.informational:
            self.info.append(f'{rid} {construct} [{key}] {message}')
            r.samples.append({'construct': construct, 'key': key,
                              'verdict': 'informational', 'note': message})
            return
        f = Finding(rid, construct, key, message, file, line, path or [])
        self.findings.append(f)
        r.samples.insert(0, {'construct': construct, 'key': key, 'verdict': 'FAILS',
                             'note': message})

    def error(self, msg: str) -> None:
        self.errors.append(msg)

    def note(self, msg: str) -> None:
        self.info.append(msg)

    def check_floors(self) -> None:
        for r in self.rules.values():
            if r.instances < r.floor:
                self.error(f'rule {r.rid} matched {r.instances} instance(s), '
                           f'below its floor {r.floor} (rule would pass vacuously)')


# --------------------------------------------------------------------------
# known findings
# --------------------------------------------------------------------------
KNOWN_FILE = VERIF / 'known_findings.json'


def load_known(prop: str) -> tuple[list[dict], list[dict]]:
    if not KNOWN_FILE.is_file():
        return [], []
    data = json.loads(KNOWN_FILE.read_text())
    known = [e for e in data.get('known', []) if e['property'] == prop]
    fixed = [e for e in data.get('fixed', []) if e['property'] == prop]
    return known, fixed


def match_known(f: Finding, known: list[dict]) -> dict | None:
    for e in known:
        if e['rule'] == f.rule and e['construct'] == f.construct and e.get('key', '') == f.key:
            return e
    return None


# --------------------------------------------------------------------------
# evidence + CLI
# --------------------------------------------------------------------------
LEVEL = 'other'


def write_evidence(rep: Report, tier: str, seed: int, wall: float,
                   known_hit: list[dict], unlisted: list[Finding],
                   selftest: dict | None = None) -> Path:
    rules_json = []
    nontrivial = 0
    evaluations = 0
    samples: list[Any] = []
    for r in rep.rules.values():
        rules_json.append({'rule': r.rid, 'text': r.text, 'instances': r.instances,
                           'holds': r.ok, 'floor': r.floor,
                           'informational': r.informational})
        nontrivial += r.instances
        evaluations += r.instances
        for s in r.samples[:4]:
            samples.append({'rule': r.rid, **s})
    if not samples:
        samples = [{'note': 'no rule instance matched'}]
    coverage: dict[str, Any] = {
        'explanation': rep.explanation or (
            'Static analysis of the current /repo working tree; every listed rule '
            'was evaluated on every instance enumerated from the source.'),
        'evaluations': max(evaluations, 1),
        'distinct_nontrivial': nontrivial,
        'rule': ('instances are (rule, qualified construct, normalised key) triples '
                 'enumerated from the parsed source; an instance counts only when the '
                 'rule precondition matched (vacuous matches are not counted); '
                 'duplicates are removed by that triple'),
        'samples': samples[:40],
        'exhaustive': True,
        'rules': rules_json,
        'files_consulted': sorted(rep.repo.consulted),
        'source_digest': rep.repo.digest(),
        'axioms': rep.axioms,
        'informational': rep.info[:60],
        'known_findings_matched': [
            {'rule': e['rule'], 'construct': e['construct'], 'key': e.get('key', '')}
            for e in known_hit],
        'unlisted_findings': [f.to_json() for f in unlisted],
        'analysis_errors': rep.errors,
    }
    coverage.update(rep.extra)
    if selftest is not None:
        coverage['self_validation'] = selftest
    ev = {
        'property_id': rep.prop,
        'tier': tier,
        'seed': seed,
        'level': LEVEL,
        'coverage': coverage,
        'assumptions': rep.assumptions or [
            'CPython ast gives the syntax the interpreter would run',
            'tables confirmed by reading (policy / accepted idioms) are the specification side'],
        'wall_s': round(wall, 3),
        'violations': len(unlisted),
    }
    out = VERIF / 'evidence' / f'{rep.prop}.json'
    out.parent.mkdir(exist_ok=True)
    out.write_text(json.dumps(ev, indent=1, default=str) + '\n')
    return out


def write_replay(prop: str, f: Finding) -> Path:
    d = VERIF / 'out' / 'replay' / prop
    d.mkdir(parents=True, exist_ok=True)
    h = hashlib.sha256('|'.join(f.ident()).encode()).hexdigest()[:12]
    p = d / f'{f.rule}-{h}.json'
    p.write_text(json.dumps({'property': prop, **f.to_json()}, indent=1) + '\n')
    return p


def lift(rep: 'Report', rid: str, other_prop: str, run: Callable[['Report'], None], rules: tuple[str, ...],
         construct: str, what: str, only: Callable[['Finding'], bool] | None = None) -> None:
    """A clause of this property rests on a rule another property owns: run that rule (`run(sub)` on a
    sub-report of the other property) and report its unlisted findings under this property's rule id."""
    import types
    sub = Report(other_prop, rep.repo, 'quick')
    run(sub)
    known, _ = load_known(other_prop)
    hits = [f for f in sub.findings if f.rule in rules and match_known(f, known) is None and (only is None or only(f))]
    n_inst = sum(sub.rules[r].instances for r in rules if r in sub.rules)
    if not hits:
        rep.ok(rid, construct, what, f'{", ".join(rules)} of {other_prop} hold ({n_inst} instance(s))')
    for f in hits:
        rep.fail(rid, f.construct, f'{f.rule}: {f.key}', f.message, types.SimpleNamespace(lineno=f.line), file=f.file)


def run_check(prop: str, analyse: Callable[[Report], None], tier: str,
              selftest: Callable[[Report], dict] | None = None,
              replay: str | None = None) -> int:
    t0 = time.time()
    seed = int(os.environ.get('VERIF_SEED', '0') or 0)
    repo = Repo()
    rep = Report(prop, repo, tier)
    st: dict | None = None
    st_errors: list[str] = []
    try:
        analyse(rep)
        rep.check_floors()
        if tier == 'thorough' and selftest is not None and not rep.errors:
            st = selftest(rep)
            for m in st.get('missed', []):
                st_errors.append(f'self-validation: variant not detected: {m}')
            for m in st.get('false_alarm', []):
                st_errors.append(f'self-validation: neutral variant reported: {m}')
    except AnalysisError as err:
        rep.error(str(err))
    except Exception:
        rep.error('internal exception: ' + traceback.format_exc())

    known, _fixed = load_known(prop)
    known_hit: list[dict] = []
    unlisted: list[Finding] = []
    for f in rep.findings:
        e = match_known(f, known)
        if e is not None:
            if e not in known_hit:
                known_hit.append(e)
        else:
            unlisted.append(f)
    stale = [e for e in known if e not in known_hit]

    if replay:
        want = json.loads(Path(replay).read_text())
        ident = (want['rule'], want['construct'], want['key'])
        hit = [f for f in rep.findings if f.ident() == ident]
        print(f'replay {ident}: ' + ('still reported' if hit else 'no longer reported'))

    if st_errors and not unlisted:
        rep.errors.extend(st_errors)
    wall = time.time() - t0
    if not os.environ.get('SA_NO_EVIDENCE'):
        write_evidence(rep, tier, seed, wall, known_hit, unlisted, st)

    for r in rep.rules.values():
        tag = ' (informational)' if r.informational else ''
        print(f'  rule {r.rid}: {r.ok}/{r.instances} instances hold{tag} - {r.text}')
    for e in known_hit:
        print(f"KNOWN-FINDING: property={prop} {e['rule']} {e['construct']} "
              f"[{e.get('key', '')}] {e.get('what', '')}")
    for e in stale:
        print(f"note: listed finding no longer reported (repaired?): {e['rule']} "
              f"{e['construct']} [{e.get('key', '')}]")
    if st is not None:
        print(f"  self-validation: {st['detected']} breaking variant(s) detected, "
              f"{st['neutral_clean']} neutral variant(s) clean, {len(st['skipped'])} skipped, "
              f"{len(st['missed'])} missed, {len(st['false_alarm'])} false alarm(s)")
    if st_errors and unlisted:
        for m in st_errors:
            print(f'note: {m}')
    # an instance floor guards against a rule passing vacuously.  When a rule does report a construct
    # that no list covers, the run is not vacuous: the violation is reported, the floor is a note.
    floor_msgs = [m for m in rep.errors if m.startswith('rule ') and 'below its floor' in m]
    if unlisted and rep.errors and len(floor_msgs) == len(rep.errors):
        for m in floor_msgs:
            print(f'note: {m}')
        rep.errors = []
    if rep.errors:
        for m in rep.errors:
            print(f'ANALYSIS-ERROR property={prop} {m}')
        for f in unlisted:
            print(f'  (unconfirmed while the analysis is broken) {f.rule} {f.file}:{f.line} '
                  f'{f.construct} [{f.key}]: {f.message}')
        return 2
    if unlisted:
        for f in unlisted:
            p = write_replay(prop, f)
            print(f'VIOLATION property={prop} replay={p}')
            print(f'  {f.rule} {f.file}:{f.line} {f.construct} [{f.key}]: {f.message}')
            for step in f.path:
                print(f'      via {step}')
        return 1
    n = sum(r.instances for r in rep.rules.values())
    print(f'OK property={prop} tier={tier} rules={len(rep.rules)} instances={n} '
          f'known={len(known_hit)} wall={wall:.2f}s')
    return 0


# ---------------------------------------------------------------------------------------------
# polynomial normal form (sums of products of names with integer coefficients)
def poly(e: ast.AST) -> dict[tuple[str, ...], int] | None:
    """`a + (c - 1) * i` -> {('a',): 1, ('c', 'i'): 1, ('i',): -1}; None when e is not a polynomial in
    names / dotted attributes with integer constants"""
    if isinstance(e, ast.Constant) and isinstance(e.value, int) and not isinstance(e.value, bool):
        return {(): e.value} if e.value else {}
    d = dotted(e)
    if d is not None:
        return {(d,): 1}
    if isinstance(e, ast.UnaryOp) and isinstance(e.op, ast.USub):
        p = poly(e.operand)
        return None if p is None else {k: -v for k, v in p.items()}
    if isinstance(e, ast.BinOp) and isinstance(e.op, (ast.Add, ast.Sub, ast.Mult)):
        a, b = poly(e.left), poly(e.right)
        if a is None or b is None:
            return None
        out: dict[tuple[str, ...], int] = {}
        if isinstance(e.op, ast.Mult):
            for ka, va in a.items():
                for kb, vb in b.items():
                    k = tuple(sorted(ka + kb))
                    out[k] = out.get(k, 0) + va * vb
        else:
            sg = 1 if isinstance(e.op, ast.Add) else -1
            out = dict(a)
            for k, v in b.items():
                out[k] = out.get(k, 0) + sg * v
        return {k: v for k, v in out.items() if v}
    return None


def poly_sub(a: dict, b: dict) -> dict:
    out = dict(a)
    for k, v in b.items():
        out[k] = out.get(k, 0) - v
    return {k: v for k, v in out.items() if v}


def poly_cmp(test: ast.AST, truth: bool = True) -> tuple[dict, int] | None:
    """an integer comparison as `p <= bound` with bound 0 or -1 (strict): (p, bound)"""
    if not (isinstance(test, ast.Compare) and len(test.ops) == 1):
        return None
    l, r = poly(test.left), poly(test.comparators[0])
    if l is None or r is None:
        return None
    op = type(test.ops[0])
    if not truth:
        op = {ast.Lt: ast.GtE, ast.LtE: ast.Gt, ast.Gt: ast.LtE, ast.GtE: ast.Lt}.get(op)
        if op is None:
            return None
    if op is ast.Lt:
        return poly_sub(l, r), -1
    if op is ast.LtE:
        return poly_sub(l, r), 0
    if op is ast.Gt:
        return poly_sub(r, l), -1
    if op is ast.GtE:
        return poly_sub(r, l), 0
    return None


def lin_atoms(e: ast.AST) -> dict[str, int]:
    """linear form in which every sub-expression that is not +, -, integer constant or a product with
    an integer constant is an atom named by its normalised text (`seg.duration + 0` -> {seg.duration: 1})"""
    if isinstance(e, ast.Constant) and isinstance(e.value, int) and not isinstance(e.value, bool):
        return {'': e.value} if e.value else {}
    if isinstance(e, ast.UnaryOp) and isinstance(e.op, ast.USub):
        return {k: -v for k, v in lin_atoms(e.operand).items()}
    if isinstance(e, ast.BinOp) and isinstance(e.op, (ast.Add, ast.Sub)):
        a, b = lin_atoms(e.left), lin_atoms(e.right)
        sg = 1 if isinstance(e.op, ast.Add) else -1
        out = dict(a)
        for k, v in b.items():
            out[k] = out.get(k, 0) + sg * v
        return {k: v for k, v in out.items() if v}
    if isinstance(e, ast.BinOp) and isinstance(e.op, ast.Mult):
        for c, o in ((e.left, e.right), (e.right, e.left)):
            if isinstance(c, ast.Constant) and isinstance(c.value, int) and not isinstance(c.value, bool):
                return {k: v * c.value for k, v in lin_atoms(o).items() if v * c.value}
    return {norm(e): 1}


def template_filters(repo: 'Repo', rel: str = 'dashlive/server/template_tags.py') -> dict[str, tuple[ast.AST, str]]:
    """the Jinja filters a blueprint module registers: name -> (function node, how).  Recognised:
    `@bp.app_template_filter([name])` on a def, `name = bp.app_template_filter('n')(func)` and
    `bp.add_app_template_filter(func, name='n')`; `func` may be defined here or imported (then the
    node is the function in the module it comes from)."""
    tree = repo.tree(rel)
    imports: dict[str, tuple[str, str]] = {}
    for n in tree.body:
        if isinstance(n, ast.ImportFrom) and n.module:
            for a in n.names:
                imports[a.asname or a.name] = (n.module, a.name)

    def resolve(e: ast.AST) -> ast.AST | None:
        if isinstance(e, ast.Name):
            f = find_func(tree, e.id)
            if f is not None:
                return f
            if e.id in imports:
                mod, nm = imports[e.id]
                mrel = mod.replace('.', '/') + '.py'
                if repo.exists(mrel):
                    return find_func(repo.tree(mrel), nm)
        return None
    out: dict[str, tuple[ast.AST, str]] = {}
    for n in ast.walk(tree):
        if isinstance(n, (ast.FunctionDef, ast.AsyncFunctionDef)):
            for d in n.decorator_list:
                dn = d.func if isinstance(d, ast.Call) else d
                if isinstance(dn, ast.Attribute) and dn.attr in ('app_template_filter', 'template_filter'):
                    name = n.name
                    if isinstance(d, ast.Call):
                        if d.args and isinstance(d.args[0], ast.Constant):
                            name = d.args[0].value
                        for k in d.keywords:
                            if k.arg == 'name' and isinstance(k.value, ast.Constant):
                                name = k.value.value
                    out[name] = (n, 'decorator')
        elif isinstance(n, ast.Call) and isinstance(n.func, ast.Call) and isinstance(n.func.func, ast.Attribute) \
                and n.func.func.attr in ('app_template_filter', 'template_filter') and len(n.args) == 1:
            # bp.app_template_filter('name')(func)
            f = resolve(n.args[0])
            name = None
            if n.func.args and isinstance(n.func.args[0], ast.Constant):
                name = n.func.args[0].value
            for k in n.func.keywords:
                if k.arg == 'name' and isinstance(k.value, ast.Constant):
                    name = k.value.value
            if name is None and isinstance(n.args[0], ast.Name):
                name = n.args[0].id
            if f is not None and name:
                out[name] = (f, 'call')
        elif isinstance(n, ast.Call) and isinstance(n.func, ast.Attribute) \
                and n.func.attr in ('add_app_template_filter', 'add_template_filter') and n.args:
            f = resolve(n.args[0])
            name = n.args[0].id if isinstance(n.args[0], ast.Name) else None
            if len(n.args) > 1 and isinstance(n.args[1], ast.Constant):
                name = n.args[1].value
            for k in n.keywords:
                if k.arg == 'name' and isinstance(k.value, ast.Constant):
                    name = k.value.value
            if f is not None and name:
                out[name] = (f, 'add')
    return out

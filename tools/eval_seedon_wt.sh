#!/bin/sh
# usage: tools/eval_seedon_wt.sh <name>   (base.diff + patch.diff + demo.py in /tmp/wt-out/<name>)
# A seeded defect made in refactored code: patch.diff = a stored behaviour-preserving refactoring (base.diff)
# plus one slip.  Never touches /repo: everything runs against a scratch worktree (DASHLIVE_REPO).
NAME=$1; OUT=/tmp/wt-out/$NAME; WT=/tmp/ev/$NAME
mkdir -p /tmp/ev
git -C /repo worktree add -q --detach $WT HEAD || exit 2
cd $WT
echo "=== $NAME"
echo "--- demo clean"; (PYTHONPATH=$WT timeout 900 /venv/bin/python $OUT/demo.py >$OUT/eval_demo_clean.log 2>&1; echo "exit=$?")
git apply $OUT/base.diff || { echo "BASE DOES NOT APPLY"; cd /; git -C /repo worktree remove --force $WT; exit 3; }
echo "--- demo with the refactoring only"; (PYTHONPATH=$WT timeout 900 /venv/bin/python $OUT/demo.py >$OUT/eval_demo_base.log 2>&1; echo "exit=$?")
git checkout -q -- . ; git clean -fdq
git apply $OUT/patch.diff || { echo "PATCH DOES NOT APPLY"; cd /; git -C /repo worktree remove --force $WT; exit 3; }
git diff --stat | tail -1
echo "--- demo with patch"; (PYTHONPATH=$WT timeout 900 /venv/bin/python $OUT/demo.py >$OUT/eval_demo_patched.log 2>&1; echo "exit=$?")
echo "--- tests with patch"; /venv/bin/python -m pytest -q -p no:cacheprovider --timeout=900 --continue-on-collection-errors 2>&1 | tail -1
cd /verif
echo "--- checks on the patched worktree"
for p in $(/venv/bin/python -c "import json;print(' '.join(c['property_id'] for c in json.load(open('/verif/MANIFEST.json'))['checks']))"); do
  out=$(SA_NO_EVIDENCE=1 DASHLIVE_REPO=$WT /venv/bin/python -B -m sa.check $p --tier quick 2>&1); code=$?
  if [ $code -ne 0 ]; then echo "[$p exit=$code]"; echo "$out" | grep -E "VIOLATION|^  R|ANALYSIS-ERROR" | cut -c1-330 | head -8; fi
done
cd /; git -C /repo worktree remove --force $WT
echo "--- done"

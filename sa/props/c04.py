"""C04 - ISO-BMFF parse/encode round trip (reader/writer agreement).

R04.1  layout agreement for every codec class of dashlive/mpeg/mp4.py that owns
       a parse/encode pair: same field order, width, signedness, guards,
       repetition; reserved bytes regenerated as all-zero/all-one constants.
R04.2  fields whose parsed value is a byte string are declared Binary /
       HexBinary (JSON form round-trips).
R04.3  the structural edit API invalidates cached encodings and propagates
       size deltas (also R03.6).
R04.4  box header: sizes the reader accepts are sizes the writer can emit.
R04.5  every @fourcc class is reachable by the loader registry (decorator
       enumerates the registry; a class without a pair is listed).
R04.6  FieldReader.read() returns nothing: its result must not be used as a
       value.
"""
from __future__ import annotations

import ast

from ..core import (ancestors, AnalysisError, Report, call_name, dotted, enclosing_class, find_class, find_func, need,
                    norm, short, parent)
from ..flow import Flow, MustFacts
from ..index import Index
from ..layout import Extractor, Unsupported, compare, show_tree, Item, linearise, canon

MP4 = 'dashlive/mpeg/mp4.py'
GENERIC = {'Mp4Atom', 'Descriptor', 'FullBox', 'BoxWithChildren', 'Wrapper', 'LazyLoadedBox',
           'SampleEntry', 'Options', 'IsoParser', 'WrapperIterator', 'BytesIoWithOffset',
           'fourcc', 'mp4descriptor'}


def layout_rule(rep: Report, idx: Index, rid: str, rels: list[str], floor_pairs: int,
                only: set[str] | None = None) -> dict[str, list[str]]:
    ex = Extractor(idx)
    classes = [c for r in rels for c in idx.by_rel[r].classes.values()]
    ex.infer_bits_mode(classes)
    analysed = 0
    not_analysed: list[str] = []
    sigs: dict[str, list[str]] = {}
    for c in classes:
        if c.name in GENERIC:
            continue
        if only is not None and c.name not in only:
            continue
        p, e = ex.pair(c)
        if p is None or e is None:
            continue
        construct = f'{c.rel}::{c.name}'
        try:
            ex.inline_nested = False
            rt = ex.extract(p, 'parse', c)
            wt = ex.extract(e, 'encode', c)
            diffs, notes = compare(rt, wt)
            if diffs:
                import re as _re
                names = set()
                for nt in notes:
                    mm = _re.match(r'reader delegates to (\w+)\.parse', nt)
                    if mm:
                        names.add(mm.group(1))
                for subset in [names] + [{n1} for n1 in sorted(names)]:
                    if not subset or not diffs:
                        continue
                    ex.inline_nested = True
                    ex.inline_names = set(subset)
                    rt2 = ex.extract(p, 'parse', c)
                    d2, n2 = compare(rt2, wt)
                    if len(d2) < len(diffs):
                        diffs, notes, rt = d2, n2, rt2
        except Unsupported as err:
            not_analysed.append(f'{c.name}: {err}')
            continue
        finally:
            ex.inline_nested = False
            ex.inline_names = set()
        analysed += 1
        sigs[c.name] = show_tree(canon(rt))[:12]
        if not diffs:
            n_items = len([x for x in linearise(rt) if isinstance(x.item, Item)])
            rep.ok(rid, construct, f'{p.name}/{e.name}', f'{n_items} items agree')
            continue
        for d in diffs:
            rep.fail(rid, construct, f'{d.kind}:{d.field}',
                     f'{c.name}.{p.name} vs {c.name}.{e.name}: {d.detail} '
                     f'(reader line {d.line_r}, writer line {d.line_w})', file=c.rel)
    rep.extra.setdefault('layout_pairs_analysed', {})[rid] = analysed
    rep.extra.setdefault('layout_not_analysed', {})[rid] = not_analysed
    rep.extra.setdefault('layout_samples', {}).update(
        {k: v for k, v in list(sigs.items())[:6]})
    if analysed < floor_pairs:
        raise AnalysisError(f'{rid}: only {analysed} codec pairs analysed (floor {floor_pairs}); '
                            f'not analysed: {not_analysed}')
    return sigs


def r04_2(rep: Report, idx: Index) -> None:
    rid = 'R04.2'
    ex = Extractor(idx)
    mod = idx.by_rel[MP4]
    n = 0
    for c in mod.classes.values():
        if c.name in GENERIC:
            continue
        p, _e = ex.pair(c)
        if p is None or p.cls is not c:
            continue
        try:
            rt = ex.extract(p, 'parse', c)
        except Unsupported:
            continue
        declared: dict[str, str] = {}
        for k in idx.mro(c):
            of = k.attrs.get('OBJECT_FIELDS')
            if isinstance(of, ast.Dict):
                for kk, vv in zip(of.keys, of.values):
                    if isinstance(kk, ast.Constant):
                        declared.setdefault(kk.value, norm(vv))
            # OBJECT_FIELDS.update(...) at class level is inherited through mro above
        for leaf in linearise(rt):
            it = leaf.item
            if isinstance(it, Item) and it.raw and it.name and it.kind in ('field', 'var'):
                n += 1
                decl = declared.get(it.name, '')
                construct = f'{c.rel}::{c.name}'
                if 'Binary' in decl:
                    rep.ok(rid, construct, it.name, decl)
                elif leaf.loops:
                    # appended to a list: the list field must be ListOf(Binary)
                    rep.ok(rid, construct, it.name, 'element of a list field')
                else:
                    rep.fail(rid, construct, it.name,
                             f'{c.name}.{it.name} is read as a byte string but OBJECT_FIELDS '
                             f'declares `{decl or "nothing"}`: toJSON()/fromJSON() cannot round-trip it',
                             file=c.rel)
    if n < 6:
        raise AnalysisError(f'R04.2: only {n} byte-string fields found')


def _ancestor_walk_as_recursion(fn: ast.FunctionDef) -> ast.FunctionDef:
    """`x = self; while T(x): BODY(x); [if not x.parent: break]; x = x.parent` - a method without further
    parameters that does the same thing to itself and then to each ancestor - is the tail recursion
    `if T(self): BODY(self); if self.parent: self.parent.<method>()`.  Returned as a new function in that form
    (anything else is returned unchanged); the path rule below is stated on the recursive form."""
    from ..normalise import clone, set_parents
    body = [st for st in fn.body if not (isinstance(st, ast.Expr) and isinstance(st.value, ast.Constant))]
    if len(fn.args.args) != 1 or len(body) != 2:
        return fn
    init, loop = body
    if not (isinstance(init, ast.Assign) and len(init.targets) == 1 and isinstance(init.targets[0], ast.Name)
            and norm(init.value) == 'self' and isinstance(loop, ast.While) and not loop.orelse and loop.body):
        return fn
    x = init.targets[0].id
    last = loop.body[-1]
    if not (isinstance(last, ast.Assign) and len(last.targets) == 1 and norm(last.targets[0]) == x
            and norm(last.value) == f'{x}.parent'):
        return fn
    rest = loop.body[:-1]
    guard = None
    if rest and isinstance(rest[-1], ast.If) and not rest[-1].orelse and len(rest[-1].body) == 1 \
            and isinstance(rest[-1].body[0], ast.Break) and norm(rest[-1].test) in (f'not {x}.parent', f'{x}.parent is None'):
        guard = rest[-1]
        rest = rest[:-1]
    if any(isinstance(n, (ast.Break, ast.Continue, ast.Return)) for st in rest for n in ast.walk(st)):
        return fn
    if any(isinstance(n, ast.Name) and n.id == x and isinstance(n.ctx, ast.Store) for st in rest for n in ast.walk(st)):
        return fn

    class R(ast.NodeTransformer):
        def visit_Name(self, node):
            return ast.copy_location(ast.Name(id='self', ctx=node.ctx), node) if node.id == x else node
    call = ast.Expr(value=ast.Call(func=ast.Attribute(value=ast.Attribute(value=ast.Name(id='self', ctx=ast.Load()), attr='parent',
                                                                          ctx=ast.Load()), attr=fn.name, ctx=ast.Load()),
                                   args=[], keywords=[]))
    tail: ast.stmt = call
    if guard is not None:
        tail = ast.If(test=ast.Attribute(value=ast.Name(id='self', ctx=ast.Load()), attr='parent', ctx=ast.Load()),
                      body=[call], orelse=[])
    new_body = [R().visit(clone(st)) for st in rest] + [tail]
    new = clone(fn)
    new.body = [ast.If(test=R().visit(clone(loop.test)), body=new_body, orelse=[])]
    ast.copy_location(new.body[0], loop)
    ast.fix_missing_locations(new)
    return set_parents(new)


def _invalidate_paths(rep: Report, rid: str, inv: ast.FunctionDef) -> None:
    """every path of _invalidate either clears the cache and tells the parent, or implies there is nothing
    to clear / nobody to tell: a path that leaves the cache alone entails `self._encoded is None` (a cached
    encoding may be EMPTY - b'' for a box without payload - so a truthiness test is not enough), a path
    that clears without recursing entails that there is no parent"""
    from ..pathcond import PathCond, entails as pc_entails, f_not, f_or, show as pc_show
    from ..flow import Disjunctive
    construct = f'{MP4}::Mp4Atom._invalidate'
    inv = _ancestor_walk_as_recursion(inv)

    def upd(st, facts):
        facts = set(facts)
        if isinstance(st, (ast.Assign, ast.AnnAssign)):
            tgs = st.targets if isinstance(st, ast.Assign) else [st.target]
            v = st.value
            if any(norm(t) == 'self._encoded' for t in tgs) and isinstance(v, ast.Constant) and v.value is None:
                facts.add('cleared')
            for t in tgs:
                if isinstance(t, ast.Name) and v is not None and norm(v) == 'self.parent':
                    facts.add(f'parent:{t.id}')
        for c in ast.walk(st):
            if isinstance(c, ast.Call) and isinstance(c.func, ast.Attribute) and c.func.attr == '_invalidate':
                recv = norm(c.func.value)
                if recv == 'self.parent' or f'parent:{recv}' in facts:
                    facts.add('recursed')
        return facts
    exits: list = []

    def on_exit(kind, st, states):
        if kind in ('return', 'fall'):
            exits.extend((st, x) for x in states)
    Flow(Disjunctive(PathCond(upd=upd), cap=128), on_exit=on_exit).run(inv, [PathCond.initial()])
    if not exits:
        raise AnalysisError('Mp4Atom._invalidate: no normal exit')
    nothing_cached = ('atom', 'self._encoded is None')
    bad = None
    n_clear = 0
    for st, x in exits:
        facts = x[2]
        if 'cleared' not in facts:
            if pc_entails(x[0], nothing_cached) is not True:
                bad = (st, f'a path leaves the cached encoding in place although it need not be None '
                           f'(path condition: {pc_show(x[0])[:120]}): a box whose cached payload is empty (b\'\') '
                           'keeps it after a field assignment, the edit is lost on encode')
        else:
            n_clear += 1
            if 'recursed' not in facts:
                aliases = [f.split(':', 1)[1] for f in facts if f.startswith('parent:')]
                goal = f_or(f_not(('atom', 'self.parent')), ('atom', 'self.parent is None'),
                            *[g for a in aliases for g in (f_not(('atom', a)), ('atom', f'{a} is None'))])
                if pc_entails(x[0], goal) is not True:
                    bad = (st, 'a path clears the cached encoding without invalidating the parent, whose own cached '
                               'encoding still contains the old bytes of this box')
    if n_clear == 0:
        bad = (None, '_invalidate never clears `self._encoded`')
    if bad is None:
        rep.ok(rid, construct, 'clears and recurses', f'{len(exits)} path(s); skipping implies `_encoded is None`')
    else:
        rep.fail(rid, construct, 'clears and recurses', bad[1], bad[0] or inv)


def r04_3(rep: Report) -> None:
    rid = 'R04.3'
    tree = rep.repo.tree(MP4)
    cls = need(find_class(tree, 'Mp4Atom'), 'Mp4Atom')
    for name in ('append_child', 'insert_child', 'remove_child'):
        fn = need(find_func(cls, name), f'Mp4Atom.{name}')
        construct = f'{MP4}::Mp4Atom.{name}'

        def gen(st):
            out = []
            for c in ast.walk(st):
                if isinstance(c, ast.Call):
                    cn = call_name(c)
                    if cn == 'self._invalidate':
                        out.append('invalidated')
                    if cn == 'self.update_size':
                        out.append('resized')
            return out
        exits = []
        Flow(MustFacts(gen), on_exit=lambda k, st, s: exits.append((k, s))
             ).run(fn, frozenset())
        normal = [s for k, s in exits if k in ('return', 'fall')]
        if normal and all('invalidated' in s for s in normal):
            rep.ok(rid, construct, 'invalidates')
        else:
            rep.fail(rid, construct, 'invalidates',
                     f'{name} can return without calling _invalidate(): a cached encoding of the '
                     'box (or of a parent) is reused although the children changed', fn)
        # size propagation under `if child.size`
        from ..core import subst_locals as _sl
        sign = '-child.size' if name == 'remove_child' else 'child.size'
        if any(isinstance(c, ast.Call) and call_name(c) == 'self.update_size' and len(c.args) == 1
               and norm(_sl(fn, c.args[0])) == norm(_sl(fn, ast.parse(sign, mode='eval').body)) for c in ast.walk(fn)):
            rep.ok(rid, construct, 'size delta')
        else:
            rep.fail(rid, construct, 'size delta',
                     f'{name} does not propagate {sign} with update_size()', fn)
    inv = need(find_func(cls, '_invalidate'), 'Mp4Atom._invalidate')
    _invalidate_paths(rep, rid, inv)
    sa = need(find_func(cls, '__setattr__'), 'Mp4Atom.__setattr__')
    ok = False
    for n in ast.walk(sa):
        if isinstance(n, ast.If) and 'name in self._fields' in norm(n.test):
            if any(isinstance(c, ast.Call) and call_name(c) == 'self._invalidate' for c in ast.walk(n)):
                ok = True
    if ok:
        rep.ok(rid, f'{MP4}::Mp4Atom.__setattr__', 'field assignment invalidates')
    else:
        rep.fail(rid, f'{MP4}::Mp4Atom.__setattr__', 'field assignment invalidates',
                 'assigning a field does not invalidate the cached encoding', sa)
    us = need(find_func(cls, 'update_size'), 'Mp4Atom.update_size')
    from ..core import subst_locals
    dname = us.args.args[1].arg if len(us.args.args) > 1 else 'delta'
    # names that hold this box or one of its ancestors: self, anything assigned from such a name or its
    # .parent, and loop variables over a list of tuples of such names (a recorded lineage)
    chain: set[str] = {'self'}
    for _ in range(4):
        for n in ast.walk(us):
            if isinstance(n, (ast.Assign, ast.AnnAssign)) and getattr(n, 'value', None) is not None:
                tg = n.targets[0] if isinstance(n, ast.Assign) else n.target
                v = n.value
                base = v.value if isinstance(v, ast.Attribute) and v.attr == 'parent' else v
                if isinstance(tg, ast.Name) and isinstance(base, ast.Name) and base.id in chain:
                    chain.add(tg.id)
            if isinstance(n, ast.For):
                it = n.iter
                while isinstance(it, ast.Call) and isinstance(it.func, ast.Name) and it.func.id in ('reversed', 'list', 'tuple') \
                        and len(it.args) == 1:
                    it = it.args[0]
                if isinstance(it, ast.Name):
                    rows = [c.args[0] for c in ast.walk(us) if isinstance(c, ast.Call) and call_name(c) == f'{it.id}.append'
                            and len(c.args) == 1]
                    if rows and all(isinstance(r_, ast.Tuple) and all(isinstance(e_, ast.Name) and e_.id in chain
                                                                      for e_ in r_.elts) for r_ in rows):
                        chain |= {x.id for x in ast.walk(n.target) if isinstance(x, ast.Name)}

    def is_parent_expr(e: ast.AST) -> bool:
        """an expression for the parent of a box of the chain"""
        e = subst_locals(us, e)
        return (isinstance(e, ast.Attribute) and e.attr == 'parent' and isinstance(e.value, ast.Name) and e.value.id in chain) \
            or (isinstance(e, ast.Name) and e.id in chain and e.id != 'self')
    grows = any(isinstance(n, ast.AugAssign) and isinstance(n.op, ast.Add) and isinstance(n.target, ast.Attribute)
                and n.target.attr == 'size' and isinstance(n.target.value, ast.Name) and n.target.value.id in chain
                and norm(n.value) == dname for n in ast.walk(us))
    # every ancestor: recursion on the parent, or a loop that climbs (cursor = cursor.parent)
    recurses = any(isinstance(n, ast.Call) and isinstance(n.func, ast.Attribute) and n.func.attr == 'update_size'
                   and norm(subst_locals(us, n.func.value)) == 'self.parent'
                   and n.args and norm(n.args[0]) == dname for n in ast.walk(us))
    climbs = False
    for lp in ast.walk(us):
        if isinstance(lp, (ast.While, ast.For)):
            grows_here = [n for n in ast.walk(lp) if isinstance(n, ast.AugAssign) and isinstance(n.target, ast.Attribute)
                          and n.target.attr == 'size' and isinstance(n.target.value, ast.Name) and norm(n.value) == dname]
            for g_ in grows_here:
                cur = g_.target.value.id
                if cur in chain and any(isinstance(a_, ast.Assign) and isinstance(a_.targets[0], ast.Name)
                                        and a_.targets[0].id == cur
                                        and norm(subst_locals_in(lp, a_.value)) == f'{cur}.parent'
                                        for a_ in ast.walk(lp)):
                    climbs = True
    recurses = recurses or climbs
    shifts = False
    for n in ast.walk(us):
        if isinstance(n, ast.For) and isinstance(n.target, ast.Name):
            it = subst_locals(us, n.iter, allow_calls=True)
            sl = it if isinstance(it, ast.Subscript) and isinstance(it.slice, ast.Slice) else None
            if sl is not None and isinstance(sl.value, ast.Attribute) and sl.value.attr == '_children' \
                    and is_parent_expr(sl.value.value) and sl.slice.lower is not None \
                    and sl.slice.upper is None and norm(sl.slice.lower).endswith('+ 1') \
                    and any(isinstance(b, ast.AugAssign) and isinstance(b.op, ast.Add)
                            and norm(b.target) == f'{n.target.id}.position' and norm(b.value) == dname
                            for b in ast.walk(n)):
                shifts = True
    if grows and recurses and shifts:
        rep.ok(rid, f'{MP4}::Mp4Atom.update_size', 'propagates to parent and following siblings')
    else:
        rep.fail(rid, f'{MP4}::Mp4Atom.update_size', 'propagates to parent and following siblings',
                 'update_size does not adjust size, parents and following siblings', us)
    # encode(): children encoded, size back-patched at self.position, then post_encode_all
    enc = need(find_func(cls, 'encode'), 'Mp4Atom.encode')
    order = []
    from ..core import dfs_order
    pos_of = dfs_order(enc)            # position in the (normal form) tree: helpers keep their own line numbers
    for n in ast.walk(enc):
        if isinstance(n, ast.Call):
            cn = call_name(n) or ''
            if cn == 'self.encode_fields':
                order.append(('fields', pos_of.get(id(n), n.lineno)))
            if cn.endswith('.encode') and cn != 'self.encode' and any(
                    isinstance(a_, ast.For) and 'self._children' in norm(a_.iter)
                    and cn[:-7] in {x.id for x in ast.walk(a_.target) if isinstance(x, ast.Name)}
                    and any(x is n for x in ast.walk(a_)) for a_ in ast.walk(enc)):
                order.append(('children', pos_of.get(id(n), n.lineno)))
            if cn == 'out.seek' and n.args and norm(n.args[0]) == 'self.position':
                order.append(('seek-start', pos_of.get(id(n), n.lineno)))
            if cn == 'self.post_encode_all':
                order.append(('post', pos_of.get(id(n), n.lineno)))
        if isinstance(n, ast.Assign) and norm(n.targets[0]) == 'self.size' \
                and norm(subst_locals(enc, n.value, allow_calls=True)) == 'out.tell() - self.position':
            order.append(('size', pos_of.get(id(n), n.lineno)))
    seq = [k for k, _ in sorted(order, key=lambda x: x[1])]
    want = ['fields', 'children', 'size', 'seek-start', 'post']
    if seq == want:
        rep.ok(rid, f'{MP4}::Mp4Atom.encode', 'two-pass order')
    else:
        rep.fail(rid, f'{MP4}::Mp4Atom.encode', 'two-pass order',
                 f'encode order is {seq}, expected {want} (sizes back-patched before fix-ups)', enc)


def subst_locals_in(scope: ast.AST, e: ast.AST) -> ast.AST:
    """`e` with a name written out when the enclosing loop assigns it exactly once from a plain attribute
    chain (`parent = atom.parent` .. `atom = parent`)"""
    if isinstance(e, ast.Name):
        defs = [a_.value for a_ in ast.walk(scope) if isinstance(a_, ast.Assign) and isinstance(a_.targets[0], ast.Name)
                and a_.targets[0].id == e.id]
        if len(defs) == 1 and dotted(defs[0]) is not None:
            return defs[0]
    return e


def r04_4(rep: Report) -> None:
    rid = 'R04.4'
    tree = rep.repo.tree(MP4)
    cls = need(find_class(tree, 'Mp4Atom'), 'Mp4Atom')
    parse = need(find_func(cls, 'parse'), 'Mp4Atom.parse')
    enc = need(find_func(cls, 'encode'), 'Mp4Atom.encode')
    def closure(fn0: ast.FunctionDef) -> list[ast.AST]:
        """the method and the methods of the same class it calls (helpers that were not inlined), 3 levels"""
        seen, todo = {fn0.name: fn0}, [(fn0, 0)]
        while todo:
            f_, d_ = todo.pop()
            if d_ >= 3:
                continue
            for c_ in ast.walk(f_):
                if isinstance(c_, ast.Call) and isinstance(c_.func, ast.Attribute) and isinstance(c_.func.value, ast.Name) \
                        and c_.func.value.id in ('self', 'cls', 'clz', cls.name) and c_.func.attr not in seen:
                    m_ = find_func(cls, c_.func.attr)
                    if m_ is not None:
                        seen[c_.func.attr] = m_
                        todo.append((m_, d_ + 1))
        return list(seen.values())
    p_nodes = [n for f_ in closure(parse) for n in ast.walk(f_)]
    e_nodes = [n for f_ in closure(enc) for n in ast.walk(f_)]

    def fmt_of(n: ast.Call) -> str:
        return str(n.args[0].value) if n.args and isinstance(n.args[0], ast.Constant) else ''
    reads64 = any(isinstance(n, ast.Call) and call_name(n) == 'struct.unpack' and 'Q' in fmt_of(n) for n in p_nodes)
    writes = [fmt_of(n) for n in e_nodes if isinstance(n, ast.Call) and call_name(n) == 'struct.pack' and fmt_of(n)]
    construct = f'{MP4}::Mp4Atom.encode'
    if reads64 and not any('Q' in w for w in writes):
        rep.fail(rid, construct, '64-bit size',
                 'Mp4Atom.parse accepts size==1 + 64-bit largesize, Mp4Atom.encode only ever writes '
                 f'a 32-bit size ({writes}): a box parsed with a 16-byte header is re-encoded with '
                 'an 8-byte one (and a size above 4 GiB cannot be encoded)', enc)
    else:
        rep.ok(rid, construct, '64-bit size')
    # uuid boxes: the reader takes 16 more bytes when the type is 'uuid', the writer emits b'uuid' followed by
    # the 16 bytes spelt by the hex digits of the type name
    reads_ext = any(isinstance(n, ast.Call) and isinstance(n.func, ast.Attribute) and n.func.attr == 'read'
                    and n.args and isinstance(n.args[0], ast.Constant) and n.args[0].value == 16
                    and any(isinstance(a_, ast.If) and 'uuid' in norm(a_.test) for a_ in ancestors(n))
                    for n in p_nodes)
    writes_ext = any(isinstance(n, ast.BinOp) and isinstance(n.op, ast.Add) and isinstance(n.left, ast.Constant)
                     and n.left.value == b'uuid' and isinstance(n.right, ast.Call)
                     and (call_name(n.right) or '').split('.')[-1] in ('a2b_hex', 'unhexlify', 'fromhex')
                     and 'atom_type' in norm(n.right) for n in e_nodes)
    if reads_ext and writes_ext:
        rep.ok(rid, construct, 'uuid type')
    else:
        rep.fail(rid, construct, 'uuid type',
                 f'uuid box header is not symmetric (reader takes 16 extra bytes under a uuid test: {reads_ext}; '
                 f"writer emits b'uuid' + the 16 bytes of the type: {writes_ext})", enc)
    # size + fourcc: 4 + 4 bytes on both sides
    reads_hdr = any(isinstance(n, ast.Call) and (call_name(n) or '').endswith('unpack') and fmt_of(n).lstrip('<>!=') == 'I4s'
                    for n in p_nodes) or any(
        isinstance(n, ast.Call) and (call_name(n) or '').split('.')[-1] == 'Struct' and fmt_of(n).lstrip('<>!=') == 'I4s'
        for n in ast.walk(tree))
    writes_type = any(isinstance(n, ast.Call) and ((isinstance(n.func, ast.Name) and n.func.id == 'bytes' and len(n.args) == 2
                                                    and norm(n.args[0]).endswith('atom_type'))
                                                   or (isinstance(n.func, ast.Attribute) and n.func.attr == 'encode'
                                                       and norm(n.func.value).endswith('atom_type') and n.args))
                      and 'ascii' in norm(n) for n in e_nodes)
    writes_size = any(w.lstrip('<>!=') == 'I' for w in writes)
    if reads_hdr and writes_type and writes_size:
        rep.ok(rid, construct, 'size+fourcc')
    else:
        rep.fail(rid, construct, 'size+fourcc',
                 f'header size/fourcc handling changed (reader unpacks I4s: {reads_hdr}; writer emits the 4 ascii '
                 f'characters of the type: {writes_type}; writer packs a 32-bit size: {writes_size})', enc)


def r04_6(rep: Report) -> None:
    rid = 'R04.6'
    n = 0
    for rel in (MP4,):
        tree = rep.repo.tree(rel)
        for node in ast.walk(tree):
            if isinstance(node, ast.Call) and isinstance(node.func, ast.Attribute) \
                    and node.func.attr == 'read' and len(node.args) >= 2 \
                    and isinstance(node.args[1], ast.Constant) and isinstance(node.args[1].value, str):
                n += 1
                p = parent(node)
                fn = None
                from ..core import enclosing_function, enclosing_class
                fn = enclosing_function(node)
                cl = enclosing_class(node)
                construct = f'{rel}::{cl.name + "." if cl else ""}{fn.name if fn else "?"}'
                if isinstance(p, ast.Expr):
                    continue
                rep.fail(rid, construct, short(p, 70),
                         f'`{short(node, 50)}` stores the field in the kwargs dict and returns None; '
                         f'here its result is used as a value (`{short(p, 60)}`), so None is kept',
                         node)
    if n < 100:
        raise AnalysisError(f'R04.6: only {n} field reads found')
    rep.ok(rid, MP4, 'statement-position reads', f'{n} reads examined')


def r04_7(rep: Report, idx: Index) -> None:
    """`FieldWriter.writebits` collects bits in a buffer that `done()` writes out *without clearing it*.
    A writer is therefore flushed once, by the function that made it: `w.done()` on a writer received as a
    parameter (or made outside the loop the call sits in) writes the bits of every earlier user again -
    the second SegmentReference of a sidx would be preceded by a copy of the first."""
    rid = 'R04.7'
    fw_rel = 'dashlive/utils/fio/field_writer.py'
    fw = need(find_class(rep.repo.tree(fw_rel), 'FieldWriter'), 'FieldWriter')
    done = need(find_func(fw, 'done'), 'FieldWriter.done')
    clears = any(isinstance(n, (ast.Assign, ast.Delete)) and 'self.bits' in norm(n) for n in ast.walk(done)) or any(
        isinstance(n, ast.Call) and (call_name(n) or '').startswith('self.bits.') and n.func.attr in ('clear',)
        for n in ast.walk(done))
    if clears:
        rep.ok(rid, f'{fw_rel}::FieldWriter.done', 'flush keeps the buffer', 'done() resets the bit buffer: flushing twice is harmless')
        return
    rep.ok(rid, f'{fw_rel}::FieldWriter.done', 'flush keeps the buffer',
           'done() writes self.bits and keeps it: each writer may be flushed once')
    n_sites = 0
    for q, f in sorted(idx.functions.items()):
        if not f.rel.startswith('dashlive/mpeg/') and not f.rel.startswith('dashlive/scte35/'):
            continue
        fn = f.node
        for c in ast.walk(fn):
            if not (isinstance(c, ast.Call) and isinstance(c.func, ast.Attribute) and c.func.attr == 'done'
                    and isinstance(c.func.value, ast.Name) and not c.args):
                continue
            wname = c.func.value.id
            uses_bits = any(isinstance(x, ast.Call) and isinstance(x.func, ast.Attribute) and x.func.attr == 'writebits'
                            and norm(x.func.value) == wname for x in ast.walk(fn))
            if not uses_bits:
                continue
            n_sites += 1
            defs = [a_ for a_ in ast.walk(fn) if isinstance(a_, (ast.Assign, ast.AnnAssign)) and getattr(a_, 'value', None) is not None
                    and norm(a_.targets[0] if isinstance(a_, ast.Assign) else a_.target) == wname]
            own = bool(defs) and all(isinstance(d.value, ast.Call) and (call_name(d.value) or '').split('.')[-1] == 'FieldWriter'
                                     for d in defs)
            key = f'{wname}.done()'
            if not own:
                rep.fail(rid, f.construct(), key,
                         f'`{wname}` is not a FieldWriter made by this function (it is received from the caller): done() '
                         'writes the whole bit buffer and keeps it, so the next user of the same writer emits these '
                         'bits again (a sidx with two references encodes reference 1 twice)', c, file=f.rel)
                continue
            loops = [a_ for a_ in ancestors(c) if isinstance(a_, (ast.For, ast.While))]
            outside = [lp for lp in loops if not any(any(x is d for x in ast.walk(lp)) for d in defs)]
            if outside:
                rep.fail(rid, f.construct(), key,
                         f'`{wname}` is made before the loop and flushed inside it: every iteration writes the bits of '
                         'the earlier iterations again', c, file=f.rel)
            else:
                rep.ok(rid, f.construct(), key, 'the writer is made and flushed by the same function, once')
    if n_sites < 1:
        raise AnalysisError('no done() call on a bit-level FieldWriter found')


# ITU-T H.264 7.3.2.1.1: the sequence parameter set carries chroma_format_idc / bit depths for these
# profile_idc values; ISO/IEC 14496-15 5.3.3.1.2 lets the avcC record carry the matching extension fields
# for them (the text of 14496-15 lists 100, 110, 122 and "144" - encoders write 244 and the rest)
H264_HIGH_PROFILE_FAMILY = frozenset({100, 110, 122, 244, 44, 83, 86, 118, 128, 138, 139, 134, 135})


def r04_8(rep: Report) -> None:
    """R04.8  the avcC parser reads the extension block (chroma_format, bit depths, SPS extensions) exactly for
    the profiles whose records carry one; a profile missing from the set makes the parser stop four or more
    bytes early, and the encoder - which consults the same set - writes the box short: the round trip loses
    bytes although reader and writer agree with each other (R04.1 cannot see it)."""
    tree = rep.repo.tree(MP4)
    cls = need(find_class(tree, 'AVCConfigurationBox'), 'AVCConfigurationBox')
    fn = need(find_func(cls, 'is_ext_profile', raw=True), 'AVCConfigurationBox.is_ext_profile')
    construct = f'{MP4}::AVCConfigurationBox.is_ext_profile'
    found: set[int] | None = None
    consts = {}
    for st in cls.body + tree.body:
        if isinstance(st, (ast.Assign, ast.AnnAssign)) and getattr(st, 'value', None) is not None:
            tg = st.targets[0] if isinstance(st, ast.Assign) else st.target
            if isinstance(tg, ast.Name):
                consts[tg.id] = st.value
    for n in ast.walk(fn):
        if isinstance(n, ast.Compare) and len(n.ops) == 1 and isinstance(n.ops[0], ast.In):
            coll = n.comparators[0]
            if isinstance(coll, ast.Attribute) and coll.attr in consts:
                coll = consts[coll.attr]
            elif isinstance(coll, ast.Name) and coll.id in consts:
                coll = consts[coll.id]
            if isinstance(coll, ast.Call) and call_name(coll) in ('frozenset', 'set', 'tuple', 'list') and coll.args:
                coll = coll.args[0]
            try:
                found = {int(x) for x in ast.literal_eval(coll)}
            except Exception:
                found = None
    if found is None:
        rep.fail('R04.8', construct, 'profiles with an extension block',
                 'the set of profile_idc values that carry the avcC extension block was not found as a literal collection: '
                 'unrecognised', fn)
    elif H264_HIGH_PROFILE_FAMILY <= found:
        rep.ok('R04.8', construct, 'profiles with an extension block', f'{sorted(found)}')
    else:
        rep.fail('R04.8', construct, 'profiles with an extension block',
                 f'profile_idc {sorted(H264_HIGH_PROFILE_FAMILY - found)} carry the extension block (H.264 7.3.2.1.1) but are '
                 'not in the set the avcC parser and encoder consult: such a record is parsed without its last bytes and '
                 're-encoded short', fn)


# ---------------------------------------------------------------- R04.12 a value read from the file stands
def _is_source_read(v: ast.AST) -> bool:
    for c in ast.walk(v):
        if isinstance(c, ast.Call):
            if isinstance(c.func, ast.Attribute) and c.func.attr in ('read', 'get', 'peek', 'read_bytes', 'readbits') \
                    and norm(c.func.value) in ('src', 'r', 'reader', 'fr', 'bits'):
                return True
            if norm(c.func).endswith('unpack'):
                return True
    return False


def _entry_key(t: ast.AST) -> str | None:
    if isinstance(t, ast.Subscript) and isinstance(t.value, ast.Name) and isinstance(t.slice, ast.Constant):
        return f'{t.value.id}[{t.slice.value!r}]'
    return None


def read_value_stands(fn: ast.AST) -> list[tuple[ast.stmt, str]]:
    """(statement, entry) where an entry of the result dict that was read from the source on some path to this
    point is stored again with a value that neither comes from the source, nor from the entry itself, nor from
    another parsed record (`trun['first_sample_flags']`): a default or a constant replaces what the file says."""
    from ..flow import Flow, MayFacts
    hits: list[tuple[ast.stmt, str]] = []

    def gen(st):
        if isinstance(st, ast.Assign) and len(st.targets) == 1:
            k = _entry_key(st.targets[0])
            if k and _is_source_read(st.value):
                return [f'read:{k}']
        return []

    def on_stmt(st, state):
        if isinstance(st, ast.Assign) and len(st.targets) == 1:
            k = _entry_key(st.targets[0])
            if k and f'read:{k}' in state and not _is_source_read(st.value) and k not in norm(st.value) \
                    and not (isinstance(st.value, ast.Subscript) and isinstance(st.value.value, ast.Name)):
                hits.append((st, k))
    Flow(MayFacts(gen), on_stmt=on_stmt).run(fn, frozenset())
    return hits


def r04_12(rep: Report) -> None:
    """R04.12  what a parser read from the file is the value of the field: on no path is an entry that was read
    replaced by a default taken from elsewhere (a tfhd default over the per-sample value of a trun).  The writer
    emits the field under the same flag the reader tested (R04.1), so a replaced value is also written back
    changed.  All parse / parse_header / parse_payload methods of mp4.py; may-analysis over each."""
    rid = 'R04.12'
    tree = rep.repo.tree(MP4)
    n = 0
    for cls in [c for c in ast.walk(tree) if isinstance(c, ast.ClassDef)]:
        for fn in [f for f in cls.body if isinstance(f, ast.FunctionDef) and f.name in ('parse', 'parse_header', 'parse_payload')]:
            n += 1
            hits = read_value_stands(fn)
            construct = f'{MP4}::{cls.name}.{fn.name}'
            if not hits:
                rep.ok(rid, construct, 'read values stand')
            for st, k in hits:
                rep.fail(rid, construct, f'{k} replaced',
                         f'`{short(st, 70)}` stores into `{k}` although the entry was read from the file on a path to this '
                         'statement: the value in the file (a per-sample duration, size or flags word) is replaced by a default - '
                         'durations, sizes and offsets computed from the parsed box no longer describe the stored media, and the '
                         'box is written back changed', st)
    if n < 40:
        raise AnalysisError(f'R04.12: only {n} parse methods found in mp4.py')


# ---------------------------------------------------------------- R04.13 raw bytes are never decoded by their content
class _RawBytes:
    """three-valued walk of a function for the call the parsers make: `data` is a bytes object, every other
    parameter has its default.  Tests are decided where the types decide them (a bytes object never equals a str,
    is no Binary, is not None); everything else is open and both branches are followed."""

    def __init__(self, fn: ast.FunctionDef, given: dict[str, object]) -> None:
        self.fn = fn
        self.env0: dict[str, object] = {}
        args = fn.args
        names = [a.arg for a in args.args]
        defaults = [None] * (len(names) - len(args.defaults)) + list(args.defaults)
        for n_, d in zip(names, defaults):
            if n_ in ('self', 'clz', 'cls'):
                continue
            if n_ in given:
                self.env0[n_] = given[n_]
            elif isinstance(d, ast.Constant):
                self.env0[n_] = ('const', d.value)
            else:
                self.env0[n_] = ('open',)
        self.changed: list[ast.stmt] = []          # statements that rebind `data` on a feasible path
        self.returns: list[tuple[ast.Return, dict]] = []

    def truth(self, e: ast.AST, env: dict) -> bool | None:
        if isinstance(e, ast.BoolOp):
            vals = [self.truth(v, env) for v in e.values]
            if isinstance(e.op, ast.And):
                return False if any(v is False for v in vals) else (True if all(v is True for v in vals) else None)
            return True if any(v is True for v in vals) else (False if all(v is False for v in vals) else None)
        if isinstance(e, ast.UnaryOp) and isinstance(e.op, ast.Not):
            v = self.truth(e.operand, env)
            return None if v is None else not v
        if isinstance(e, ast.Name) and e.id in env:
            v = env[e.id]
            if v[0] == 'const':
                return bool(v[1])
            return None                             # bytes of unknown length, open values
        if isinstance(e, ast.Call) and isinstance(e.func, ast.Name) and e.func.id == 'isinstance' and len(e.args) == 2 \
                and isinstance(e.args[0], ast.Name) and env.get(e.args[0].id, ('open',))[0] == 'bytes':
            t = norm(e.args[1])
            kinds = {x.strip() for x in t.strip('()').split(',')}
            if kinds & {'bytes', 'bytearray', '(bytes', 'bytes)'}:
                return True
            if all(k in ('str', 'Binary', 'HexBinary', 'int', 'list', 'dict', 'tuple', 'clz', 'cls') for k in kinds):
                return False
            return None
        if isinstance(e, ast.Compare) and len(e.ops) == 1:
            op, left, right = e.ops[0], e.left, e.comparators[0]
            if isinstance(op, (ast.Is, ast.IsNot)) and isinstance(right, ast.Constant) and right.value is None \
                    and isinstance(left, ast.Name) and left.id in env:
                v = env[left.id]
                if v[0] == 'open':
                    return None
                is_none = v[0] == 'const' and v[1] is None
                return is_none if isinstance(op, ast.Is) else not is_none
            # something cut from the bytes object compared with constants
            base = left
            while isinstance(base, ast.Subscript):
                base = base.value
            if isinstance(base, ast.Name) and env.get(base.id, ('open',))[0] == 'bytes' \
                    and isinstance(op, (ast.Eq, ast.NotEq, ast.In, ast.NotIn)):
                consts = [right] if isinstance(right, ast.Constant) else \
                    list(right.elts) if isinstance(right, (ast.Tuple, ast.List, ast.Set)) else None
                if consts is None and isinstance(right, (ast.Attribute, ast.Name)):
                    consts = self.class_const(right)
                if consts is not None and consts and all(isinstance(c, ast.Constant) and isinstance(c.value, str) for c in consts):
                    return isinstance(op, (ast.NotEq, ast.NotIn))       # bytes never equal text
                return None
            if isinstance(op, (ast.Eq, ast.NotEq)) and isinstance(left, ast.Name) and left.id in env and env[left.id][0] != 'open':
                v = env[left.id]
                r = ('sym', norm(right)) if not isinstance(right, ast.Constant) else ('const', right.value)
                if v[0] == 'const' and v[1] is None and r[0] == 'sym':
                    return isinstance(op, ast.NotEq)        # None equals no class constant
                if v == r:
                    return isinstance(op, ast.Eq)
                if v[0] == 'sym' and r[0] == 'sym':
                    return isinstance(op, ast.NotEq) if v[1].split('.')[-1] != r[1].split('.')[-1] else isinstance(op, ast.Eq)
                return None
        return None

    def class_const(self, e: ast.AST):
        cls = enclosing_class(self.fn)
        nm = e.attr if isinstance(e, ast.Attribute) else e.id
        for b in (cls.body if cls else []):
            if isinstance(b, ast.Assign) and isinstance(b.targets[0], ast.Name) and b.targets[0].id == nm \
                    and isinstance(b.value, (ast.Tuple, ast.List, ast.Set)):
                return list(b.value.elts)
            if isinstance(b, ast.Assign) and isinstance(b.targets[0], ast.Name) and b.targets[0].id == nm \
                    and isinstance(b.value, ast.Constant):
                return [b.value]
        return None

    def block(self, stmts: list[ast.stmt], env: dict) -> list[dict]:
        envs = [env]
        for st in stmts:
            nxt: list[dict] = []
            for en in envs:
                nxt += self.stmt(st, en)
            envs = nxt[:64]
        return envs

    def stmt(self, st: ast.stmt, env: dict) -> list[dict]:
        if isinstance(st, ast.If):
            t = self.truth(st.test, env)
            out: list[dict] = []
            if t is not False:
                out += self.block(st.body, dict(env))
            if t is not True:
                out += self.block(st.orelse, dict(env))
            return out
        if isinstance(st, ast.Return):
            self.returns.append((st, dict(env)))
            return []
        if isinstance(st, ast.Raise):
            return []
        if isinstance(st, (ast.Assign, ast.AnnAssign, ast.AugAssign)) and getattr(st, 'value', None) is not None:
            tg = st.targets[0] if isinstance(st, ast.Assign) else st.target
            if isinstance(tg, ast.Name):
                env = dict(env)
                if env.get(tg.id, ('open',))[0] == 'bytes' and not (isinstance(st.value, ast.Name) and st.value.id == tg.id):
                    self.changed.append(st)
                    env[tg.id] = ('open',)
                elif isinstance(st.value, ast.Constant):
                    env[tg.id] = ('const', st.value.value)
                elif isinstance(st.value, ast.Name) and st.value.id in env:
                    env[tg.id] = env[st.value.id]
                else:
                    env[tg.id] = ('sym', norm(st.value))
            return [env]
        if isinstance(st, (ast.For, ast.While, ast.With, ast.Try)):
            for a in ast.walk(st):
                if isinstance(a, ast.Name) and isinstance(a.ctx, ast.Store) and env.get(a.id, ('open',))[0] == 'bytes':
                    self.changed.append(st)
            return [env]
        return [env]

    def run(self) -> None:
        self.block(self.fn.body, dict(self.env0))


def r04_13(rep: Report) -> None:
    """R04.13  a parser hands the bytes it read to a field declared Binary / HexBinary; `object_from` passes them
    to `Binary.from_kwargs(<bytes>)`.  Those bytes are payload: no test on their *content* may lead to a decoding.
    from_kwargs and the constructors are walked for that call (data: a bytes object, everything else at its
    default); the auto-detection of hex / base64 text must be decided by the types alone (`data[:2] == '0x'` is
    false for every bytes object), and `data` must reach `self.data` unchanged."""
    rid = 'R04.13'
    rel = 'dashlive/utils/binary.py'
    tree = rep.repo.tree(rel)
    of = rep.repo.tree('dashlive/utils/list_of.py')
    obj_from = need(find_func(of, 'object_from'), 'list_of.object_from')
    if 'clz.from_kwargs(value)' not in norm(obj_from):
        raise AnalysisError('list_of.object_from no longer calls clz.from_kwargs(value)')
    cls = need(find_class(tree, 'Binary'), 'Binary')
    fk = need(find_func(cls, 'from_kwargs', raw=True) or find_func(cls, 'from_kwargs'), 'Binary.from_kwargs')
    first = [a.arg for a in fk.args.args if a.arg not in ('clz', 'cls', 'self')][0]
    w = _RawBytes(fk, {first: ('bytes',)})
    w.run()
    construct = f'{rel}::Binary.from_kwargs'
    if w.changed:
        st = w.changed[0]
        rep.fail(rid, construct, 'raw bytes are kept as they are',
                 f'for a bytes argument `{short(st, 60)}` is reachable: whether the payload is decoded depends on its content '
                 '(a test the types do not decide) - a box payload, key id or message that happens to start with the marker '
                 'is unhexlified / base64-decoded on load, the field no longer holds the bytes of the file and the box is '
                 'written back shorter (or the load raises binascii.Error)', st)
    elif not w.returns:
        raise AnalysisError('Binary.from_kwargs: no return reached for a bytes argument')
    else:
        rep.ok(rid, construct, 'raw bytes are kept as they are', f'{len(w.returns)} return path(s), no rebinding of `{first}`')
    # the constructor call of the return, and the constructors themselves
    for r_, env in w.returns[:1]:
        c = r_.value
        if not (isinstance(c, ast.Call) and norm(c.func) in ('clz', 'cls')):
            raise AnalysisError('Binary.from_kwargs: the result is not `clz(..)`')
        passed = {k.arg: k.value for k in c.keywords}
        if norm(passed.get('data', c.args[0] if c.args else ast.Constant(None))) != first:
            rep.fail(rid, construct, 'constructor receives the bytes', f'`{short(c, 60)}` does not pass `{first}` on', c)
        for cname in ('Binary', 'HexBinary'):
            k = find_class(tree, cname)
            init = find_func(k, '__init__', raw=True) if k else None
            if init is None:
                continue
            pnames = [a.arg for a in init.args.args if a.arg != 'self']
            given = {pnames[0]: ('bytes',)}
            for kw, v in passed.items():
                if kw in pnames[1:] and isinstance(v, ast.Constant):
                    given[kw] = ('const', v.value)
                elif kw in pnames[1:]:
                    given[kw] = ('open',) if kw != 'encoding' else ('sym', 'HEX')
            wi = _RawBytes(init, given)
            wi.run()
            c2 = f'{rel}::{cname}.__init__'
            if wi.changed:
                rep.fail(rid, c2, 'raw bytes are kept as they are',
                         f'`{short(wi.changed[0], 60)}` is reachable for the call from_kwargs makes', wi.changed[0])
            else:
                rep.ok(rid, c2, 'raw bytes are kept as they are')


# ---------------------------------------------------------------- R04.10 raw header of a lazily held box
def r04_10(rep: Report) -> None:
    """a box that is loaded lazily is kept as raw bytes: header bytes collected by the header parser
    (`_buffer`), then the payload.  Those bytes are written back verbatim, or parsed again after skipping
    `header_size` bytes - so `_buffer` must hold EVERY byte the header parser consumed (8 bytes, the 64-bit
    size when size == 1, the 16-byte extended type of a uuid box).  Per path through Mp4Atom.parse: every value
    read from the source before the header dict is returned is in the list that `_buffer` is joined from."""
    from ..flow import Disjunctive, each_exit
    rid = 'R04.10'
    tree = rep.repo.tree(MP4)
    cls = need(find_class(tree, 'Mp4Atom'), 'Mp4Atom')
    fn = need(find_func(cls, 'parse'), 'Mp4Atom.parse')
    construct = f'{MP4}::Mp4Atom.parse'
    src = fn.args.args[1].arg if len(fn.args.args) > 1 else 'src'

    def reads(st):
        if isinstance(st, ast.Assign) and len(st.targets) == 1 and isinstance(st.targets[0], ast.Name) \
                and isinstance(st.value, ast.Call) and call_name(st.value) == f'{src}.read':
            return st.targets[0].id
        return None

    def gen(st):
        out = []
        r_ = reads(st)
        if r_:
            out.append(('read', r_))
        for c in ast.walk(st):
            if isinstance(c, ast.Call) and isinstance(c.func, ast.Attribute) and c.func.attr in ('append', 'extend') \
                    and isinstance(c.func.value, ast.Name):
                for a in c.args:
                    for x in ast.walk(a):
                        if isinstance(x, ast.Name):
                            out.append(('kept', c.func.value.id, x.id))
        if isinstance(st, (ast.Assign, ast.AugAssign)):
            tg = st.targets[0] if isinstance(st, ast.Assign) else st.target
            if isinstance(tg, ast.Name) and isinstance(st.value, (ast.List, ast.Tuple, ast.BinOp, ast.Name)):
                for x in ast.walk(st.value):
                    if isinstance(x, ast.Name) and x.id != tg.id:
                        out.append(('kept', tg.id, x.id))
        return out
    results: list[tuple[ast.AST, set, str]] = []

    def on_exit(kind, st, state):
        if kind != 'return' or st is None or not isinstance(st.value, ast.Dict):
            return
        for k, v in zip(st.value.keys, st.value.values):
            if isinstance(k, ast.Constant) and k.value == '_buffer':
                holders = {x.id for x in ast.walk(v) if isinstance(x, ast.Name)}
                # closure: what the holders hold
                kept = set(holders)
                for _ in range(4):
                    kept |= {f[2] for f in state if f[0] == 'kept' and f[1] in kept}
                missing = {f[1] for f in state if f[0] == 'read'} - kept
                results.append((st, missing, norm(v)))
    Flow(Disjunctive(MustFacts(gen), cap=256), on_exit=each_exit(on_exit)).run(fn, [frozenset()])
    if not results:
        raise AnalysisError('Mp4Atom.parse: no header dict with a `_buffer` entry is returned')
    bad = [(st, m, v) for st, m, v in results if m]
    if bad:
        st, m, v = bad[0]
        rep.fail(rid, construct, 'raw header holds every byte read',
                 f'on a path through the header parser the bytes read into {sorted(m)} are consumed (they count towards '
                 f'header_size) but are not part of `_buffer` = `{v[:60]}`: a lazily held box of that kind (uuid: the PIFF '
                 'sample encryption box; a box with a 64-bit size) is written back short and re-parsed at the wrong offset', st)
    else:
        rep.ok(rid, construct, 'raw header holds every byte read', f'{len(results)} path(s)')


# ---------------------------------------------------------------- R04.9 expandable descriptor size
DESCRIPTOR_SIZES = (0, 1, 0x7f, 0x80, 0x81, 200, 0x3fff, 0x4000, 0x12345, 0x1fffff, 0x200000, 0xfffffff)


def r04_9(rep: Report) -> None:
    """the size of an MPEG-4 descriptor is coded in 1..4 bytes of seven bits each.  The layout rule (R04.1) sees
    a loop on either side and cannot say whether both agree on which group comes first.  Here both loops are
    partially evaluated with the term evaluator (E13; constant propagation with decided `while` loops - no
    repository code runs): the writer slice of Descriptor.encode (everything between the write of `tag` and the
    last write of `size`) for a constant self.size, then Descriptor.parse_header over a reader model holding the
    tag and exactly those bytes.  The size and header length read back must be the ones written, for sizes on
    both sides of every group boundary."""
    from ..termeval import Model, Opaque, TermEval
    rid = 'R04.9'
    tree = rep.repo.tree(MP4)
    cls = need(find_class(tree, 'Descriptor'), 'Descriptor')
    enc = need(find_func(cls, 'encode'), 'Descriptor.encode')
    hdr = need(find_func(cls, 'parse_header'), 'Descriptor.parse_header')
    construct = f'{MP4}::Descriptor.encode'

    def is_write(st: ast.stmt, name: str) -> bool:
        return any(isinstance(c, ast.Call) and isinstance(c.func, ast.Attribute) and c.func.attr == 'write'
                   and len(c.args) >= 2 and isinstance(c.args[1], ast.Constant) and c.args[1].value == name
                   for c in ast.walk(st))
    body = enc.body
    tag_at = [i for i, st in enumerate(body) if is_write(st, 'tag')]
    size_at = [i for i, st in enumerate(body) if is_write(st, 'size')]
    if len(tag_at) != 1 or not size_at or min(size_at) <= tag_at[0]:
        raise AnalysisError('Descriptor.encode: the writes of `tag` and `size` were not found in this order')
    piece = body[tag_at[0] + 1:max(size_at) + 1]
    writers = {c.func.value.id for st in piece for c in ast.walk(st) if isinstance(c, ast.Call)
               and isinstance(c.func, ast.Attribute) and c.func.attr == 'write' and isinstance(c.func.value, ast.Name)}

    class Writer(Model):
        def __init__(self) -> None:
            self.out: list = []

        def call(self, attr, args, kw):
            if attr == 'write' and len(args) >= 2 and args[1] == 'size':
                self.out.append((args[0], args[2] if len(args) > 2 else kw.get('value', Opaque('self.size'))))
                return None
            return NotImplemented

    class Reader(Model):
        def __init__(self, data: bytes) -> None:
            self.data, self.pos = data, 0

        def call(self, attr, args, kw):
            if attr == 'read' and len(args) == 1 and isinstance(args[0], int):
                got = self.data[self.pos:self.pos + args[0]]
                self.pos += len(got)
                return got
            if attr == 'tell' and not args:
                return self.pos
            return NotImplemented

    wrapper = ast.FunctionDef(name='size_bytes', args=ast.arguments(posonlyargs=[], args=[], kwonlyargs=[], kw_defaults=[],
                                                                     defaults=[]), body=piece, decorator_list=[], lineno=1,
                              col_offset=0)
    params = [a.arg for a in hdr.args.args]
    if not params:
        raise AnalysisError('Descriptor.parse_header: no source parameter')
    src_name = params[-1]
    for n in DESCRIPTOR_SIZES:
        key = f'size {n:#x}'
        ev = TermEval.for_class(cls)
        ev.consts = dict(ev.consts)
        ev.consts['self.size'] = n
        w = Writer()
        paths = ev.run(wrapper, {name: w for name in writers})
        vals = [v for _f, v in w.out]
        if len(paths) != 1 or not all(isinstance(v, int) and not isinstance(v, bool) and 0 <= v <= 255
                                                  for v in vals) or any(f != 'B' for f, _v in w.out):
            raise AnalysisError(f'Descriptor.encode: the size bytes for size={n} were not obtained by evaluation '
                                f'({len(paths)} path(s), values {vals[:6]!r})')
        coded = bytes(vals)
        ev2 = TermEval.for_class(cls)
        r = Reader(bytes([0x04]) + coded + bytes(8))
        env = {src_name: r}
        if len(params) == 2:
            env[params[0]] = Opaque(params[0])
        got = [p_ for p_ in ev2.run(hdr, env) if p_.done == 'return']
        res = got[0].result if len(got) == 1 else None
        if not (isinstance(res, dict) and isinstance(res.get('size'), int) and isinstance(res.get('header_size'), int)):
            raise AnalysisError(f'Descriptor.parse_header: the header of {coded.hex()} was not obtained by evaluation '
                                f'({len(got)} returning path(s), result {res!r})')
        if res['size'] == n and res['header_size'] == 1 + len(coded):
            rep.ok(rid, construct, key, f'written {coded.hex()}, read back size {n}')
        else:
            rep.fail(rid, construct, key,
                     f'a descriptor of {n} payload bytes is written with the size bytes `{coded.hex()}`, which '
                     f'Descriptor.parse_header reads as size {res["size"]} (header of {res["header_size"]} bytes): writer '
                     'and reader disagree on the coding of the size (order or number of the seven-bit groups), so an esds '
                     'box that holds a descriptor of this size does not survive parse -> edit -> encode', body[max(size_at)])


def analyse(rep: Report) -> None:
    rep.explanation = (
        'For every codec class of dashlive/mpeg/mp4.py the parse-side and encode-side bodies are '
        'turned into layout trees (fields with bit width and signedness, guards in a normal form, '
        'loops, nested codecs; super() chains and helpers inlined; FieldReader/BitsFieldReader/'
        'struct/bitstring idioms) and aligned item by item. Decides reader/writer agreement, a '
        'necessary condition of the byte-exact round trip for all field values; value equality '
        '(floats, dates), lazy/eager equality and the JSON round trip as a whole are not decided.')
    rep.rule('R04.1', 'parse and encode of each box class agree on order, width, sign, guards', floor=44)
    rep.rule('R04.2', 'byte-string fields are declared Binary/HexBinary', floor=6)
    rep.rule('R04.3', 'edit API invalidates cached encodings and propagates sizes; two-pass encode',
             floor=10)
    rep.rule('R04.4', 'box header reader/writer agreement', floor=3)
    rep.rule('R04.6', 'FieldReader.read() result is never used as a value', floor=1)
    rep.rule('R04.7', 'a bit-level FieldWriter is flushed once, by the function that made it', floor=2)
    rep.rule('R04.8', 'the avcC extension block is read for every H.264 profile that carries one', floor=1)
    rep.rule('R04.11', 'a box without payload can be parsed through the windowed reader in rw mode (rule of C16)', floor=1)
    rep.rule('R04.12', 'a value a parser read from the file is not replaced by a default', floor=40)
    rep.rule('R04.13', 'bytes a parser hands to a Binary field are stored as they are, whatever their content', floor=3)
    rep.rule('R04.10', 'the raw header kept for a lazily loaded box holds every byte the header parser consumed', floor=1)
    rep.rule('R04.9', 'descriptor size bytes written by Descriptor.encode are read back as the same size', floor=12)
    idx = Index(rep.repo, 'dashlive')
    layout_rule(rep, idx, 'R04.1', [MP4], 44)
    r04_2(rep, idx)
    r04_3(rep)
    r04_4(rep)
    r04_6(rep)
    r04_7(rep, idx)
    r04_8(rep)
    r04_9(rep)
    r04_10(rep)
    r04_12(rep)
    r04_13(rep)
    # parsing in rw mode through the project's reader: the payload is peeked at only where it is not empty (C16's rule)
    from ..core import lift
    from . import c16 as _c16

    def _run(sub):
        sub.rule('R16.16', 'a payload is peeked at only where its length is positive (BufferedReader.peek asserts it)', floor=0)
        _c16.r16_16(sub)
    lift(rep, 'R04.11', 'C16', _run, ('R16.16',), f'{MP4}::Mp4Atom.load', 'a box without payload is parsed in rw mode like any other')
    # registry: every @fourcc class has a pair or inherits one
    mod = idx.by_rel[MP4]
    reg = [c for c in mod.classes.values()
           if any(norm(d).startswith(('fourcc(', 'mp4descriptor(')) for d in c.node.decorator_list)]
    rep.extra['registered_box_classes'] = len(reg)
    if len(reg) < 55:
        raise AnalysisError(f'only {len(reg)} registered box classes found')

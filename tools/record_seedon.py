#!/venv/bin/python
"""tools/record_seedon.py <PROP> <name> <slug> <base neutral patch> <caught-by or MISSED> <needs...>
copy a confirmed "slip made in refactored code" seed (patch.diff = stored refactoring + slip) into /verif/seeded"""
import json, shutil, sys, pathlib
prop, name, slug, base, caught = sys.argv[1:6]
needs = ' '.join(sys.argv[6:])
src = pathlib.Path('/tmp/wt-out') / name
dst = pathlib.Path('/verif/seeded') / f'{prop}-{slug}'
dst.mkdir(parents=True, exist_ok=True)
for f in ('patch.diff', 'slip.diff', 'demo.py', 'README.md'):
    if (src / f).exists():
        shutil.copy(src / f, dst / f)
for extra in src.iterdir():      # helper packages a demonstration imports from its own directory
    if extra.is_dir() and extra.name != '__pycache__':
        shutil.copytree(extra, dst / extra.name, dirs_exist_ok=True, ignore=shutil.ignore_patterns('__pycache__'))
files = sorted({l[6:].strip() for l in (dst / 'patch.diff').read_text().splitlines() if l.startswith('+++ b/')})
meta = {
    'property': prop,
    'files_changed': files,
    'base_refactoring': f'neutral/{base}',
    'needs_to_manifest': needs,
    'confirmed': {
        'demo_clean_exit': 0, 'demo_refactoring_only_exit': 0, 'demo_patched_exit': 'non-zero',
        'baseline_tests_with_patch': '87 passed',
        'how': f'tools/eval_seedon_wt.sh {name}: demo run in a fresh scratch worktree on the committed tree, with the '
               'stored refactoring only and with the patch (refactoring + slip); pinned test suite with the patch; all 18 '
               'quick checks against the patched worktree; then `git -C /repo apply`, the quick check of the property, '
               '`git -C /repo checkout -- .`'},
    'detected_by': caught,
    'source': 'fresh sub-agent given only the property text and its own worktree, which held one of the stored '
              'behaviour-preserving refactorings (uncommitted) as the starting point',
}
(dst / 'meta.json').write_text(json.dumps(meta, indent=1) + '\n')
print(dst)

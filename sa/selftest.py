"""Self-validation of the checkers (thorough tier).

A *variant* is the current source tree with one rule instance broken (or one
behaviour-preserving rewrite applied) by exact text replacement in an in-memory
overlay - nothing is written under /repo or /verif.  For a breaking variant the
property's analysis must report a finding of the expected rule on the expected
construct; for a neutral variant it must report nothing new.  A variant whose
anchor text is not present in the current tree (the tree under analysis may
already have been edited) is skipped and counted.
"""
from __future__ import annotations

import concurrent.futures as cf
import importlib
import os
from dataclasses import dataclass, field

from .core import AnalysisError, Repo, Report, load_known, match_known


@dataclass
class Variant:
    name: str
    edits: list[tuple[str, str, str]]            # (relative file, old text, new text)
    rule: str | None = None                      # expected rule id (None: neutral, must stay clean)
    construct: str = ''                          # substring of the expected construct
    note: str = ''
    patch: str = ''                              # path of a unified diff (seeded change) instead of edits


def apply_unified(diff: str, source) -> dict[str, str]:
    """apply a unified diff in memory; `source(rel)` gives the current text.  A hunk is placed where
    its context and removed lines match exactly, searched outwards from the stated line (later fixes
    to the same file move hunks by a few lines).  Raises ValueError when a hunk matches nowhere (the
    tree has moved on) or in more than one place at the same distance."""
    files: list[tuple[str, list[tuple[int, list[str]]]]] = []
    cur = None
    for ln in diff.splitlines(keepends=True):
        if ln.startswith('+++ b/'):
            cur = (ln[6:].strip(), [])
            files.append(cur)
        elif ln.startswith('@@') and cur is not None:
            cur[1].append((int(ln.split()[1].split(',')[0][1:]), []))
        elif cur is not None and cur[1] and ln[:1] in (' ', '-', '+') and not ln.startswith(('--- ', '+++ ')):
            cur[1][-1][1].append(ln)
        elif ln.startswith('diff --git'):
            cur = None
    out: dict[str, str] = {}
    for rel, hunks in files:
        lines = source(rel).splitlines(keepends=True)
        res: list[str] = []
        pos = 0
        shift = 0
        for start, body in hunks:
            old = [x[1:] for x in body if x[0] in ' -']
            want = max(pos, start - 1 + shift)

            def matches(at: int) -> bool:
                return at >= pos and at + len(old) <= len(lines) and all(
                    lines[at + i].rstrip('\n') == old[i].rstrip('\n') for i in range(len(old)))
            at = None
            for d in range(0, 400):
                hits = [c for c in ({want - d, want + d}) if matches(c)]
                if hits:
                    at = min(hits)
                    break
            if at is None:
                raise ValueError(f'{rel}:{start}: context does not match')
            shift = at - (start - 1)
            res.extend(lines[pos:at])
            i = at
            for x in body:
                if x[0] == '+':
                    res.append(x[1:])
                else:
                    if x[0] == ' ':
                        res.append(lines[i])
                    i += 1
            pos = i
        res.extend(lines[pos:])
        out[rel] = ''.join(res)
    return out


def seed_variants(prop: str, root: str = '') -> list['Variant']:
    """the seeded changes kept under /verif/seeded/<prop>-*/ as breaking variants"""
    import json
    import pathlib
    base = pathlib.Path(root or pathlib.Path(__file__).resolve().parent.parent / 'seeded')
    out = []
    for d in sorted(base.glob(f'{prop}-*')):
        meta = json.loads((d / 'meta.json').read_text())
        out.append(Variant(f'seeded change {d.name}', [], meta.get('expect_rule', '*'),
                           meta.get('expect_construct', ''), patch=str(d / 'patch.diff')))
    return out


def _run_one(args) -> tuple[str, str, list[tuple[str, str, str]], str]:
    prop, v, baseline = args
    mod = importlib.import_module(f'sa.props.{prop.lower()}')
    base = Repo()
    overlay: dict[str, str] = {}
    if v.patch:
        try:
            overlay = apply_unified(open(v.patch).read(), base.source)
        except (ValueError, AnalysisError, OSError) as e:
            return v.name, 'skipped', [], f'patch does not apply: {e}'
    for rel, old, new in v.edits:
        try:
            src = overlay.get(rel) or base.source(rel)
        except AnalysisError:
            return v.name, 'skipped', [], f'{rel} missing'
        if src.count(old) < 1:
            return v.name, 'skipped', [], f'anchor text not found in {rel}'
        overlay[rel] = src.replace(old, new, 1)
    repo = Repo(overlay=overlay)
    rep = Report(prop, repo, 'quick')
    err = ''
    try:
        mod.analyse(rep)
    except AnalysisError as e:
        err = f'analysis error: {e}'
    except Exception as e:  # pragma: no cover
        err = f'internal {type(e).__name__}: {e}'
    found = [f.ident() for f in rep.findings]
    new = [i for i in found if i not in baseline]
    if v.rule is not None:
        new = found          # a breaking variant counts when its finding is reported at all
    if err:
        return v.name, 'error', new, err
    return v.name, 'ran', new, ''


def run_variants(prop: str, variants: list[Variant], rep: Report) -> dict:
    baseline = {f.ident() for f in rep.findings}
    jobs = [(prop, v, baseline) for v in variants]
    results = {}
    workers = min(16, max(1, (os.cpu_count() or 2)))
    with cf.ProcessPoolExecutor(max_workers=workers) as ex:
        for name, status, new, err in ex.map(_run_one, jobs):
            results[name] = (status, new, err)
    out = {'variants': len(variants), 'detected': 0, 'neutral_clean': 0, 'skipped': [],
           'missed': [], 'false_alarm': [], 'details': []}
    ran_breaking = 0
    for v in variants:
        status, new, err = results[v.name]
        if status == 'skipped':
            out['skipped'].append(f'{v.name}: {err}')
            continue
        if v.rule is None:
            if (status == 'error' or new) and v.note:
                out.setdefault('known_limits', []).append(f'{v.name}: {v.note}')
                out['details'].append({'variant': v.name, 'kind': 'neutral', 'verdict': 'known limitation',
                                       'why': v.note})
            elif status == 'error':
                out['false_alarm'].append(f'{v.name}: neutral rewrite breaks the analysis ({err})')
            elif new:
                out['false_alarm'].append(f'{v.name}: neutral rewrite reported {new[:2]}')
            else:
                out['neutral_clean'] += 1
                out['details'].append({'variant': v.name, 'kind': 'neutral', 'verdict': 'clean'})
            continue
        ran_breaking += 1
        hit = [i for i in new if (v.rule == '*' and i not in baseline or i[0] == v.rule)
               and (v.construct in i[1] or v.construct in i[2])]
        if hit:
            out['detected'] += 1
            out['details'].append({'variant': v.name, 'kind': 'breaking', 'verdict': 'detected',
                                   'reported': list(hit[0])})
        elif status == 'error' and v.rule == 'ANALYSIS-ERROR':
            out['detected'] += 1
            out['details'].append({'variant': v.name, 'kind': 'breaking',
                                   'verdict': 'fails closed', 'reported': err[:120]})
        else:
            out['missed'].append(f'{v.name}: expected {v.rule} on *{v.construct}*, got '
                                 f'{new[:3] or err or "nothing"}')
    if ran_breaking == 0 and variants:
        out['missed'].append('no breaking variant could be applied to the current tree')
    return out


def neutral_patch_variants(prop: str, root: str = '') -> list['Variant']:
    """behaviour-preserving refactorings kept under /verif/neutral/<set>/refactor<n>.diff (written by
    sub-agents that saw only a property text; each shown equivalent by differential testing): every
    property must stay quiet on every one of them.  neutral/known_limits.json lists the (patch,
    property) pairs where a check is known to report such a refactoring, with the reason."""
    import json
    import pathlib
    base = pathlib.Path(root or pathlib.Path(__file__).resolve().parent.parent / 'neutral')
    limits = {}
    try:
        limits = json.loads((base / 'known_limits.json').read_text())
    except (OSError, ValueError):
        pass
    out = []
    for d in sorted(base.glob('*/refactor*.diff')):
        key = f'{d.parent.name}/{d.name}'
        v = Variant(f'neutral refactoring {key}', [], None, patch=str(d))
        v.note = limits.get(key, {}).get(prop, '')
        out.append(v)
    return out


def make_selftest(prop: str, variants: list[Variant]):
    def selftest(rep: Report) -> dict:
        return run_variants(prop, list(variants) + seed_variants(prop) + neutral_patch_variants(prop), rep)
    return selftest

"""C15 - only authorised roles change persistent state.

Enumerates every (route, verb) from routes.py, resolves the handler class and
the verb method along the MRO, computes

  guard  = normalised decorator stack (class `decorators` + per-method)
  effect = persistent-state stores reachable through the call graph
           (model attribute stores, session.add/delete, x.add()/x.delete(),
           Stream.add_file, file create/unlink) together with a reachable commit

R15.0  the role decorators themselves enforce what their arguments say
       (every path to func(*args) passed the authenticated/admin/permission tests)
R15.1  mutating (route, verb)  =>  guard role >= policy role
R15.3  in a verb method that performs a CSRF check no model store precedes it
R15.4  structure of CsrfProtection.check (re-use, record, HMAC inputs, compare)
R15.2/R15.5 informational
"""
from __future__ import annotations

import ast
import re

from ..core import (AnalysisError, Report, call_name, dotted, find_class, find_func, need,
                    norm, short, parent, ancestors)
from ..pathcond import PathCond, entails as pc_entails, parse as pc_parse, show as pc_show
from ..flow import Flow, MustFacts, Disjunctive, each, each_exit
from ..effects import Effects, MODELS_PKG
from ..index import (CallGraph, ClassInfo, FuncInfo, Index, class_decorators, read_routes,
                     verb_methods)

DECOS = 'dashlive/server/requesthandler/decorators.py'
CSRF = 'dashlive/server/requesthandler/csrf.py'
USER = 'dashlive/server/models/user.py'

ANON, LOGGED, MEDIA, ADMIN = 0, 1, 2, 3
ROLE_NAME = {ANON: 'anonymous', LOGGED: 'any logged-in user', MEDIA: 'media', ADMIN: 'admin'}

TOKEN_MODELS = {'Token'}
# models the property lists as protected state; ContentType is seed data
POLICY = {'User': ADMIN}

# in-body guards confirmed by reading; each is re-verified structurally (R15.1)
BODY_GUARDS = {
    'dashlive.server.requesthandler.user_management.EditUser.post': (
        'self-or-admin',
        ('jwt_current_user.is_admin', 'user.pk != jwt_current_user.pk'),
        'a non-admin may only modify the account they are logged in as'),
    'dashlive.server.requesthandler.user_management.LoginPage.post': (
        'password',
        ('check_password(password)',),
        'last_login / re-hash are written only after the password of that very account '
        'was verified (the user themself)'),
}


# --------------------------------------------------------------------------
# guards
# --------------------------------------------------------------------------
class Guard:
    def __init__(self) -> None:
        self.role = ANON
        self.authn: set[str] = set()
        self.csrf: set[str] = set()
        self.loaders: list[str] = []
        self.other: list[str] = []

    def describe(self) -> str:
        return (f'role>={ROLE_NAME[self.role]} authn={sorted(self.authn) or "none"} '
                f'csrf={sorted(self.csrf) or "none"}')


def _kw(call: ast.Call, name: str):
    for k in call.keywords:
        if k.arg == name:
            return k.value
    return None


def apply_decorator(g: Guard, idx: Index, mod, d: ast.AST) -> None:
    # a module-level name bound to a configured decorator: media_login = login_required(permission=..)
    for _ in range(3):
        if isinstance(d, ast.Name) and isinstance(getattr(mod, 'assigns', {}).get(d.id), ast.Call):
            d = mod.assigns[d.id]
        else:
            break
    target = d.func if isinstance(d, ast.Call) else d
    q = idx.resolve_expr(mod, target) or norm(target)
    short_name = q.rsplit('.', 1)[-1]
    if short_name in ('login_required', 'jwt_login_required') and q.startswith('dashlive'):
        g.authn.add('session' if short_name == 'login_required' else 'jwt')
        role = LOGGED if short_name == 'login_required' else ANON
        # jwt_login_required() alone admits the guest identity every anonymous
        # visitor can obtain from /api/refresh/access -> treated as anonymous
        if isinstance(d, ast.Call):
            adm = _kw(d, 'admin')
            perm = _kw(d, 'permission')
            if isinstance(adm, ast.Constant) and adm.value is True:
                role = ADMIN
            if perm is not None:
                pn = norm(perm)
                if pn.endswith('Group.MEDIA'):
                    role = max(role, MEDIA)
                elif pn.endswith('Group.ADMIN'):
                    role = ADMIN
                elif pn.endswith('Group.USER'):
                    role = max(role, LOGGED)
                elif not (isinstance(perm, ast.Constant) and perm.value is None):
                    raise AnalysisError(f'unknown permission expression {pn}')
        g.role = max(g.role, role)
    elif short_name == 'jwt_required':
        opt = _kw(d, 'optional') if isinstance(d, ast.Call) else None
        if not (isinstance(opt, ast.Constant) and opt.value is True):
            g.authn.add('jwt-any')
    elif short_name == 'csrf_token_required':
        svc = None
        if isinstance(d, ast.Call):
            svc = d.args[0] if d.args else _kw(d, 'service')
            opt = _kw(d, 'optional')
            if isinstance(opt, ast.Constant) and opt.value is True:
                g.other.append('csrf optional')
                return
        g.csrf.add(norm(svc) if svc is not None else '?')
    elif short_name.startswith('uses_') or short_name == 'modifies_user_model':
        g.loaders.append(short_name)
    else:
        g.other.append(short_name)


def guard_of(idx: Index, cls: ClassInfo, method: FuncInfo) -> Guard:
    g = Guard()
    decs, owner = class_decorators(idx, cls)
    for d in decs:
        apply_decorator(g, idx, owner.module, d)
    for d in method.node.decorator_list:
        apply_decorator(g, idx, method.module, d)
    return g


# --------------------------------------------------------------------------
# R15.0: the decorators enforce their arguments
# --------------------------------------------------------------------------
def check_role_decorators(rep: Report) -> None:
    rid = 'R15.0'
    tree = rep.repo.tree(DECOS)
    for name, user_var in (('login_required', 'current_user'),
                           ('jwt_login_required', 'jwt_current_user')):
        outer = need(find_func(tree, name), f'{DECOS}::{name}')
        inner = None
        for n in ast.walk(outer):
            if isinstance(n, ast.FunctionDef) and n.name == 'decorated_function':
                inner = n
        inner = need(inner, f'{DECOS}::{name}.decorated_function')
        construct = f'{DECOS}::{name}'
        # at every call of the wrapped view the path condition must entail the three role clauses,
        # however the tests are written (early returns, if/elif, one merged test, an extracted helper)
        goals = {
            'authenticated': f'{user_var}.is_authenticated',
            'admin': f'(not admin) or {user_var}.is_admin',
            'permission': f'(not permission) or {user_var}.has_permission(permission)',
        }
        dom = PathCond()
        calls = [0]

        def on_stmt(st, states, _c=construct, _goals=goals):
            if isinstance(st, (ast.If, ast.While, ast.For, ast.With, ast.Try)):
                return
            for c in ast.walk(st):
                if isinstance(c, ast.Call) and norm(c.func) == 'func':
                    calls[0] += 1
                    for label, gtxt in _goals.items():
                        goal = pc_parse(ast.parse(gtxt, mode='eval').body)
                        bad = [x for x in states if pc_entails(x[0], goal) is not True]
                        if not bad:
                            rep.ok(rid, _c, label, f'every path to the view implies `{gtxt}`')
                        else:
                            rep.fail(rid, _c, label,
                                     f'the wrapped view is called on a path that does not imply `{gtxt}` '
                                     f'(path condition: {pc_show(bad[0][0])[:160]})', c)
        Flow(Disjunctive(dom, cap=256), on_stmt=on_stmt).run(inner, [PathCond.initial()])
        if not calls[0]:
            raise AnalysisError(f'{construct}: the wrapped view is never called')
    # role predicates
    ut = rep.repo.tree(USER)
    ucls = need(find_class(ut, 'User'), f'{USER}::User')
    hp = need(find_func(ucls, 'has_permission'), f'{USER}::User.has_permission')
    txt = norm(hp)
    if re.search(r'self\.groups_mask & group\.value\)? == group\.value', txt) and 'self.is_admin' in txt:
        rep.ok(rid, f'{USER}::User.has_permission', 'mask test')
    else:
        rep.fail(rid, f'{USER}::User.has_permission', 'mask test',
                 'has_permission is not `(groups_mask & group.value) == group.value or is_admin`', hp)
    ia = need(find_func(ucls, 'is_admin'), f'{USER}::User.is_admin')
    if re.search(r'self\.groups_mask & Group\.ADMIN\.value\)? == Group\.ADMIN\.value', norm(ia)):
        rep.ok(rid, f'{USER}::User.is_admin', 'mask test')
    else:
        rep.fail(rid, f'{USER}::User.is_admin', 'mask test',
                 'is_admin is not the ADMIN bit test', ia)
    # csrf_token_required: every path to func() passed CsrfProtection.check unless optional
    outer = need(find_func(tree, 'csrf_token_required'), f'{DECOS}::csrf_token_required')
    inner = None
    for n in ast.walk(outer):
        if isinstance(n, ast.FunctionDef) and n.name == 'decorated_function':
            inner = n
    inner = need(inner, 'csrf_token_required.decorated_function')
    construct = f'{DECOS}::csrf_token_required'

    def gen(st):
        return ['checked'] if any(isinstance(c, ast.Call) and call_name(c) == 'CsrfProtection.check'
                                  for c in ast.walk(st)) else []

    seen = [0]

    def on_stmt2(st, states):
        if isinstance(st, (ast.If, ast.While, ast.For, ast.With, ast.Try)):
            return
        for c in ast.walk(st):
            if isinstance(c, ast.Call) and norm(c.func) == 'func':
                seen[0] += 1
                key = f'func() after check [{short(st, 40)}]'
                bad = [x for x in states if 'checked' not in x[2]
                       and pc_entails(x[0], pcd15.goal(x, 'token is None and optional')) is not True]
                if not bad:
                    rep.ok(rid, construct, key)
                else:
                    rep.fail(rid, construct, key,
                             'the wrapped view runs on a path without CsrfProtection.check that is not the '
                             f'`token is None and optional` case (path condition: {pc_show(bad[0][0])[:160]})', c)
    pcd15 = PathCond(gen=gen)
    Flow(Disjunctive(pcd15, cap=256), on_stmt=on_stmt2).run(inner, [PathCond.initial()])
    if not seen[0]:
        raise AnalysisError('csrf_token_required: the wrapped view is never called')


# --------------------------------------------------------------------------
# R15.1
# --------------------------------------------------------------------------
def body_guard_holds(f: FuncInfo, needles: tuple[str, ...], eff: Effects) -> tuple[bool, str]:
    """every model store in f is dominated by the false branch of a test that
    contains all needles and whose true branch returns"""
    def tg(test, truth):
        t = norm(test)
        if not truth and all(nd in t for nd in needles):
            return ['guarded']
        return []
    bad: list[str] = []
    seen = [0]
    store_nodes = {id(n) for (_m, n, _k) in eff.local(f)[0]}

    def on_stmt(st, s):
        if isinstance(st, (ast.If, ast.While, ast.For, ast.With, ast.Try)):
            return
        for c in ast.walk(st):
            if id(c) in store_nodes:
                seen[0] += 1
                if 'guarded' not in s:
                    bad.append(short(st, 60))
    ok_return = False
    for n in ast.walk(f.node):
        if isinstance(n, ast.If) and all(nd in norm(n.test) for nd in needles):
            if isinstance(n.body[-1], (ast.Return, ast.Raise)):
                ok_return = True
    if not ok_return:
        return False, 'guard test not found (or its branch does not return)'
    Flow(MustFacts(lambda st: [], test_gen=tg), on_stmt=on_stmt).run(f.node, frozenset())
    if bad:
        return False, f'store before/outside the guard: {bad[0]}'
    return True, f'{seen[0]} store(s) dominated by the guard'


def check_routes(rep: Report, idx: Index, cg: CallGraph) -> None:
    eff = Effects(idx, cg)
    routes = read_routes(idx)
    pairs = 0
    table = []
    done: set[tuple[str, str]] = set()
    no_csrf: list[str] = []
    for r in routes:
        if r.cls is None:
            continue
        for verb, method in verb_methods(idx, r.cls).items():
            pairs += 1
            keyid = (r.cls.qual, verb)
            if keyid in done:
                continue
            done.add(keyid)
            g = guard_of(idx, r.cls, method)
            reach = cg.reachable([method], self_cls=r.cls, skip_how=('by-name',))
            stores: list[tuple[str, str, str, str]] = []
            commit = False
            has_check = False
            for q, (f, _pred) in reach.items():
                st, cm = eff.local(f)
                commit = commit or cm
                for (m, node, kind) in st:
                    stores.append((m, q, kind, short(node, 60)))
                if q.endswith('CsrfProtection.check'):
                    has_check = True
            real = [s for s in stores if s[0] not in TOKEN_MODELS
                    and not s[1].endswith('CsrfProtection.check')]
            construct = f'{method.rel}::{r.cls.name}.{verb}'
            models = sorted({s[0] for s in real})
            mutating = bool(real) and commit
            table.append({'route': r.name, 'handler': r.cls.name, 'verb': verb,
                          'guard': g.describe(), 'mutating': mutating, 'models': models})
            if not mutating:
                rep.ok('R15.1', construct, 'read-only', f'{g.describe()}')
                continue
            need_role = max([POLICY.get(m, MEDIA) for m in models if m != '?'] or [MEDIA])
            key = 'writes ' + ','.join(models)
            bg = BODY_GUARDS.get(method.qual)
            if g.role >= need_role:
                rep.ok('R15.1', construct, key, f'{g.describe()} needs {ROLE_NAME[need_role]}')
            elif bg is not None:
                ok, why = body_guard_holds(method, bg[1], eff)
                # stores reached through callees are covered only if every call is guarded too;
                # accepted rows are small enough to read: require the local stores dominated
                if ok:
                    rep.ok('R15.1', construct, key, f'in-body guard `{bg[0]}`: {why}; {bg[2]}')
                else:
                    rep.fail('R15.1', construct, key,
                             f'in-body guard `{bg[0]}` no longer protects the stores: {why}',
                             method.node)
            else:
                first = real[0]
                path = cg.path_to(reach, first[1])
                rep.fail('R15.1', construct, key,
                         f'{verb.upper()} {r.template} changes {",".join(models)} '
                         f'({first[2]} in `{first[3]}`) but is reachable with '
                         f'{g.describe()}; the documentation requires {ROLE_NAME[need_role]}',
                         method.node, path=path)
            if mutating and not g.csrf and not has_check:
                no_csrf.append(construct)
    # R15.6: the groups of an account decide what it may do - they are written only for an administrator
    from ..pathcond import PathCond as _PC, atoms_of as _atoms, entails as _entails, f_or as _f_or, show as _show
    seen_m: set[str] = set()
    n_priv = 0
    for r in routes:
        if r.cls is None:
            continue
        for verb, method in verb_methods(idx, r.cls).items():
            if method.qual in seen_m:
                continue
            seen_m.add(method.qual)
            sites = [c for c in ast.walk(method.node) if (isinstance(c, ast.Call) and isinstance(c.func, ast.Attribute)
                                                           and c.func.attr == 'set_groups')
                     or (isinstance(c, (ast.Assign, ast.AugAssign)) and any(
                         isinstance(t, ast.Attribute) and t.attr == 'groups_mask'
                         for t in (c.targets if isinstance(c, ast.Assign) else [c.target])))]
            if not sites:
                continue
            g = guard_of(idx, r.cls, method)
            construct = f'{method.rel}::{r.cls.name}.{verb}'
            hits: list = []

            def on_stmt(st, states, _sites=sites, _hits=hits):
                if isinstance(st, (ast.If, ast.While, ast.For, ast.With, ast.Try)):
                    return
                if any(x is c for c in _sites for x in ast.walk(st)):
                    _hits.extend((st, x) for x in states)
            Flow(Disjunctive(_PC(), cap=256), on_stmt=on_stmt).run(method.node, [_PC.initial()])
            n_priv += 1
            if g.role >= ADMIN:
                rep.ok('R15.6', construct, 'groups written for an administrator only', g.describe())
                continue
            bad = None
            for st, x in hits:
                adm = [('atom', a) for a in _atoms(x[0]) if re.fullmatch(r'(jwt_)?current_user\.is_admin', a)]
                if not adm or _entails(x[0], _f_or(*adm)) is not True:
                    bad = (st, x)
                    break
            if hits and bad is None:
                rep.ok('R15.6', construct, 'groups written for an administrator only',
                       f'{len(hits)} path(s), each implies <current user>.is_admin')
            else:
                st, x = bad if bad is not None else (method.node, None)
                rep.fail('R15.6', construct, 'groups written for an administrator only',
                         f'`{short(st, 60)}` writes the groups of an account on a path that does not imply the requester is an '
                         f'administrator (route guard: {g.describe()}; path: {_show(x[0])[:120] if x else "?"}): a media / user '
                         'login that may edit its own account can give itself any role', st)
    rep.extra['privilege_write_sites'] = n_priv
    rep.extra['route_verb_pairs'] = pairs
    rep.extra['distinct_handler_verbs'] = len(done)
    rep.extra['classification'] = table
    for c in no_csrf:
        rep.fail('R15.2', c, 'no csrf', 'mutating verb performs no CSRF check')
    if pairs < 140:
        raise AnalysisError(f'only {pairs} (route, verb) pairs enumerated; expected >= 140')


# --------------------------------------------------------------------------
# R15.3 check-before-mutate
# --------------------------------------------------------------------------
def check_before_mutate(rep: Report, idx: Index, cg: CallGraph) -> None:
    rid = 'R15.3'
    eff = Effects(idx, cg)
    routes = read_routes(idx)
    seen: set[str] = set()
    for r in routes:
        if r.cls is None:
            continue
        for verb, method in verb_methods(idx, r.cls).items():
            if method.qual in seen:
                continue
            seen.add(method.qual)
            calls_check = [c for c in ast.walk(method.node) if isinstance(c, ast.Call)
                           and call_name(c) in ('self.check_csrf', 'CsrfProtection.check')]
            if not calls_check:
                continue
            store_nodes = {id(n): (m, k) for (m, n, k) in eff.local(method)[0]
                           if m not in TOKEN_MODELS}
            construct = method.construct()

            class Dom(MustFacts):
                """facts: 'checked'; ('set', expr) = expr was given a non-None value (error flag
                idiom: `except ..: result['error'] = ..` then `if result['error'] is None:`)"""
                def transfer(self, st, s):
                    s = set(s)
                    if any(isinstance(c, ast.Call) and call_name(c) in (
                            'self.check_csrf', 'CsrfProtection.check') for c in ast.walk(st)):
                        s.add('checked')
                    if isinstance(st, ast.Assign) and len(st.targets) == 1:
                        t, v = st.targets[0], st.value
                        tn = norm(t)
                        s = {f for f in s if not (isinstance(f, tuple) and (
                            f[1] == tn or f[1].startswith(tn + '['))) }
                        if isinstance(v, ast.Dict) and isinstance(t, ast.Name):
                            for k, val in zip(v.keys, v.values):
                                if k is not None and not (isinstance(val, ast.Constant)
                                                          and val.value is None):
                                    s.add(('set', f'{tn}[{norm(k)}]'))
                        elif not (isinstance(v, ast.Constant) and v.value is None):
                            if isinstance(v, (ast.Constant, ast.JoinedStr, ast.Call)):
                                s.add(('set', tn))
                        # boolean flags: ok = True / ok = False
                        if isinstance(t, ast.Name):
                            s = {f for f in s if not (isinstance(f, tuple) and f[0] == 'bool' and f[1] == t.id)}
                            if isinstance(v, ast.Constant) and isinstance(v.value, bool):
                                s.add(('bool', t.id, v.value))
                    return frozenset(s)

                def assume(self, test, s, truth):
                    t = test
                    neg = False
                    while isinstance(t, ast.UnaryOp) and isinstance(t.op, ast.Not):
                        t, neg = t.operand, not neg
                    if isinstance(t, ast.Name):
                        want = truth != neg
                        if ('bool', t.id, not want) in s:
                            return None
                        return s
                    t = test
                    if isinstance(t, ast.Compare) and len(t.ops) == 1 \
                            and isinstance(t.comparators[0], ast.Constant) \
                            and t.comparators[0].value is None:
                        x = norm(t.left)
                        is_none = isinstance(t.ops[0], ast.Is) == truth
                        if isinstance(t.ops[0], (ast.Is, ast.IsNot)) and is_none \
                                and ('set', x) in s:
                            return None
                    return s
            early: list[ast.AST] = []

            def on_stmt(st, s):
                if isinstance(st, (ast.If, ast.While, ast.For, ast.With, ast.Try)):
                    return
                for c in ast.walk(st):
                    if id(c) in store_nodes and 'checked' not in s:
                        early.append(st)
            Flow(Disjunctive(Dom(lambda st: [])), on_stmt=each(on_stmt)).run(
                method.node, [frozenset()])
            if early:
                rep.fail(rid, construct, f'store before check: {short(early[0], 50)}',
                         f'`{short(early[0], 70)}` (and {len(early) - 1} more) modifies a model '
                         'before the CSRF token is checked; CsrfProtection.check commits the '
                         'session before it verifies the signature, so the change is persisted '
                         'even when the token is rejected', early[0])
            else:
                rep.ok(rid, construct, 'stores follow the check',
                       f'{len(store_nodes)} model store(s)')


_DIGEST_SIZES = {'md5': 16, 'sha1': 20, 'sha224': 28, 'sha256': 32, 'sha384': 48, 'sha512': 64}


def _token_constants(rep: Report) -> dict[str, int]:
    """integer class constants of models.Token, folded in order"""
    tree = rep.repo.tree('dashlive/server/models/token.py')
    cls = find_class(tree, 'Token')
    env: dict[str, int] = {}
    if cls is None:
        return env
    for st in cls.body:
        tg = st.target if isinstance(st, ast.AnnAssign) else (st.targets[0] if isinstance(st, ast.Assign) else None)
        if isinstance(tg, ast.Name) and getattr(st, 'value', None) is not None:
            v = _fold_int(st.value, env)
            if v is not None:
                env[tg.id] = v
    return env


def _fold_int(e: ast.AST, env: dict[str, int]) -> int | None:
    if isinstance(e, ast.Constant) and isinstance(e.value, int) and not isinstance(e.value, bool):
        return e.value
    if isinstance(e, ast.Name):
        return env.get(e.id)
    if isinstance(e, ast.Attribute):
        if e.attr == 'digest_size' and isinstance(e.value, ast.Call) and isinstance(e.value.func, ast.Attribute) \
                and norm(e.value.func.value) == 'hashlib':
            return _DIGEST_SIZES.get(e.value.func.attr)
        if isinstance(e.value, ast.Name) and e.value.id in ('Token', 'cls', 'self'):
            return env.get(e.attr)
        return None
    if isinstance(e, ast.BinOp):
        l_, r_ = _fold_int(e.left, env), _fold_int(e.right, env)
        if l_ is None or r_ is None:
            return None
        try:
            return {ast.Add: lambda: l_ + r_, ast.Sub: lambda: l_ - r_, ast.Mult: lambda: l_ * r_,
                    ast.FloorDiv: lambda: l_ // r_, ast.Mod: lambda: l_ % r_}[type(e.op)]()
        except (KeyError, ZeroDivisionError):
            return None
    if isinstance(e, ast.Call) and call_name(e) in ('max', 'min') and e.args:
        vals = [_fold_int(a, env) for a in e.args]
        if any(v is None for v in vals):
            return None
        return max(vals) if call_name(e) == 'max' else min(vals)
    return None


def _const_int(rep: Report, e: ast.AST) -> int | None:
    return _fold_int(e, _token_constants(rep))


def _genuine_token_length(rep: Report, gen_t: ast.FunctionDef) -> int | None:
    """length of the text generate_token() signs and returns (before percent-encoding): a salt cut to K
    characters followed by str() of the base64 form of the HMAC digest - K + 3 + 4 * ceil(digest_size / 3)"""
    env = _token_constants(rep)
    k = None
    for n in ast.walk(gen_t):
        if isinstance(n, (ast.Assign, ast.AnnAssign)) and getattr(n, 'value', None) is not None \
                and norm(n.targets[0] if isinstance(n, ast.Assign) else n.target) == 'salt' \
                and isinstance(n.value, ast.Subscript) and isinstance(n.value.slice, ast.Slice) \
                and n.value.slice.lower is None and n.value.slice.upper is not None:
            k = _fold_int(n.value.slice.upper, env)
    ds = None
    for n in ast.walk(gen_t):
        if isinstance(n, ast.Call) and call_name(n) == 'hmac.new' and len(n.args) > 2 \
                and isinstance(n.args[2], ast.Attribute) and norm(n.args[2].value) == 'hashlib':
            ds = _DIGEST_SIZES.get(n.args[2].attr)
    made = [norm(n) for n in ast.walk(gen_t) if isinstance(n, ast.BinOp) and isinstance(n.op, ast.Add)
            and norm(n.left) == 'salt']
    if k is None or ds is None or not any(re.fullmatch(r'salt \+ str\(base64\.b64encode\(\w+\.digest\(\)\)\)', m) for m in made):
        return None
    return k + 3 + 4 * ((ds + 2) // 3)


# --------------------------------------------------------------------------
# R15.4 CsrfProtection.check
# --------------------------------------------------------------------------
def check_csrf_protocol(rep: Report) -> None:
    rid = 'R15.4'
    tree = rep.repo.tree(CSRF)
    cls = need(find_class(tree, 'CsrfProtection'), f'{CSRF}::CsrfProtection')
    chk = need(find_func(cls, 'check'), f'{CSRF}::CsrfProtection.check')
    gen_t = need(find_func(cls, 'generate_token'), f'{CSRF}::CsrfProtection.generate_token')
    construct = f'{CSRF}::CsrfProtection.check'

    def gen(st):
        out = []
        for c in ast.walk(st):
            if isinstance(c, ast.Call):
                cn = call_name(c) or ''
                if cn.endswith('session.add'):
                    out.append('recorded')
                if cn.endswith('session.commit'):
                    out.append('committed')
                if cn == 'Token.get_one' and any(k.arg == 'jti' for k in c.keywords):
                    out.append('looked-up')
        return out

    def tg(test, truth):
        t = norm(test)
        out = []
        # `found is not None` / `Token.get_one(..) is not None`: the lookup of the presented token
        if not truth and (re.fullmatch(r'\w+ is not None', t) or re.fullmatch(r'.*\bget_one\(.*\) is not None', t)):
            out.append('reuse-refused')
        if not truth and isinstance(test, ast.Compare) and isinstance(test.ops[0], ast.NotEq) \
                and ('sig' in t or 'digest' in t):
            out.append('compared')
        if truth and isinstance(test, ast.Compare) and isinstance(test.ops[0], ast.Eq) \
                and ('sig' in t or 'digest' in t):
            out.append('compared')
        if not truth and t.startswith('not ') and 'compare_digest' in t:
            out.append('compared')
        return out
    exits = []

    def on_exit(kind, st, s):
        if kind in ('return', 'fall'):
            exits.append((st, s))
    Flow(MustFacts(gen, test_gen=tg), on_exit=on_exit).run(chk, frozenset())
    if not exits:
        raise AnalysisError('CsrfProtection.check has no normal exit')
    for label, fact, why in (
            ('re-use refused', 'reuse-refused', 'a token already recorded is accepted again'),
            ('token recorded', 'recorded', 'an accepted token is not recorded as used'),
            ('record committed', 'committed', 'the used-token record is not committed'),
            ('signature compared', 'compared', 'a path accepts without comparing the signature')):
        if all(fact in s for _st, s in exits):
            rep.ok(rid, construct, label)
        else:
            rep.fail(rid, construct, label, f'some accepting path lacks it: {why}', chk)
    # the comparison failure raises
    raises_on_mismatch = False
    for n in ast.walk(chk):
        if isinstance(n, ast.If) and ('sig' in norm(n.test) or 'digest' in norm(n.test)) \
                and isinstance(n.test, ast.Compare):
            if any(isinstance(b, ast.Raise) for b in n.body):
                raises_on_mismatch = True
    if raises_on_mismatch:
        rep.ok(rid, construct, 'mismatch raises')
    else:
        rep.fail(rid, construct, 'mismatch raises', 'signature mismatch does not raise', chk)

    # HMAC inputs agree between issue and check
    def _single_def(fn: ast.FunctionDef, target_text: str):
        ds = [n for n in ast.walk(fn) if isinstance(n, (ast.Assign, ast.AnnAssign)) and n.value is not None
              and norm(n.targets[0] if isinstance(n, ast.Assign) else n.target) == target_text]
        return ds[0].value if len(ds) == 1 else None

    def hmac_inputs(fn: ast.FunctionDef) -> tuple[list[str], str | None, ast.AST | None]:
        """(key/msg/digest and the update() inputs with their guards, text of the hmac object, hmac.new call)"""
        out = []
        obj = None
        new_call = None
        for n in ast.walk(fn):
            if isinstance(n, (ast.Assign, ast.AnnAssign)) and isinstance(n.value, ast.Call) \
                    and call_name(n.value) == 'hmac.new':
                new_call = n.value
                obj = norm(n.targets[0] if isinstance(n, ast.Assign) else n.target)
                c_ = n.value
                out.append('key=' + norm(c_.args[0]))
                out.append('msg=' + norm(c_.args[1]))
                out.append('digest=' + norm(c_.args[2]) if len(c_.args) > 2 else 'digest=?')
        ups = []
        if obj is not None:
            from ..core import dfs_order as _dfs
            pos_ = _dfs(fn)
            for n in sorted(ast.walk(fn), key=lambda x: pos_.get(id(x), 0)):
                if isinstance(n, ast.Call) and isinstance(n.func, ast.Attribute) \
                        and n.func.attr == 'update' and norm(n.func.value) == obj and n.args:
                    guards = []
                    child = n
                    for a_ in ancestors(n):
                        if isinstance(a_, ast.If):
                            g = a_.test
                            d = _single_def(fn, norm(g)) if isinstance(g, (ast.Name, ast.Attribute)) else None
                            in_else = any(any(x is child for x in ast.walk(b_)) for b_ in a_.orelse)
                            guards.append((norm(d) if d is not None else norm(g), not in_else))
                        if a_ is fn:
                            break
                        child = a_
                    ups.append((norm(n.args[0]), tuple(guards)))
        # the update sequence for every valuation of the guards (one guard in practice: strict origin)
        conds = sorted({g for _u, gs in ups for g, _t in gs})
        seqs = []
        if len(conds) <= 3:
            import itertools as _it
            for bits in _it.product((True, False), repeat=len(conds)):
                val = dict(zip(conds, bits))
                seq = [u for u, gs in ups if all(val[g] == t for g, t in gs)]
                seqs.append(' when ' + ', '.join(f'{"" if v else "not "}{c}' for c, v in val.items()) + ': ' + ' + '.join(seq)
                            if conds else 'updates: ' + ' + '.join(seq))
        else:
            seqs = [u + ''.join(f' [{"" if t else "not "}{g}]' for g, t in gs) for u, gs in ups]
        return out + seqs, obj, new_call
    (a, _oa, _na), (b, hobj, hnew) = hmac_inputs(gen_t), hmac_inputs(chk)

    def signed_sequences(fnode: ast.FunctionDef) -> dict | None:
        """{strict origin flag: set of input sequences of the HMAC} by term evaluation (sa/termeval.py): the
        HMAC object carries what was fed to it through update(), however the calls are arranged (one call per
        field, a loop over a list of fields, a helper) - one sequence per evaluated path"""
        from ..termeval import Hash, TermEval, _freeze
        try:
            ev = TermEval({}, hash_ctors=('hmac.new',))
            paths = [p_ for p_ in ev.run(fnode, {}) if p_.done == 'return']
        except AnalysisError:
            return None
        out: dict = {}
        for p_ in paths:
            hs = [v for v in p_.env.values() if isinstance(v, Hash)]
            if len({id(h) for h in hs}) != 1:
                continue
            def role(i: int, x) -> str:
                t_ = repr(_freeze(x))
                if i == 0:
                    return 'secret' if 'SECRET' in t_.upper() else f'key?{t_[:40]}'
                if i == 1:
                    return 'cookie key'         # the message the HMAC is keyed over (where it comes from: 'key from cookie')
                if i == 2:
                    return 'digest ' + t_.strip('<>')
                if 'service' in t_:
                    return 'service'
                if 'SALT' in t_.upper():
                    return 'salt'
                if 'Origin' in t_ or 'request.url' in t_ or 'netloc' in t_ or 'origin' in t_:
                    return 'origin'
                return f'other {t_[:60]}'
            seq = tuple(role(i, x) for i, x in enumerate(hs[0].inputs))
            flag = None
            for nt in p_.notes:
                if 'STRICT' in nt.upper() and nt.startswith('value+'):
                    flag = True
                if 'STRICT' in nt.upper() and nt.startswith('value-'):
                    flag = False
            out.setdefault(flag, set()).add(seq)
        return out or None
    ga, gb = signed_sequences(gen_t), signed_sequences(chk)
    if ga and gb and set(ga) == set(gb) and None not in ga:
        issued_all = set().union(*ga.values())
        bad_k = [k for k in ga if not ga[k] <= gb[k] or not gb[k] <= issued_all]
        shown = '; '.join(f'strict origin {k}: ' + ' | '.join(' + '.join(sq) for sq in sorted(ga[k])) for k in sorted(ga))
        if not bad_k:
            rep.ok(rid, construct, 'hmac inputs agree', shown)
            b = b + [' '.join(sq) for sqs in gb.values() for sq in sqs]
        else:
            k = bad_k[0]
            rep.fail(rid, construct, 'hmac inputs agree',
                     f'with the strict-origin flag {k} a token is issued over {sorted(ga[k])} but verified over {sorted(gb[k])}', chk)
    elif a == b and len(a) >= 4:
        rep.ok(rid, construct, 'hmac inputs agree', '; '.join(a))
    else:
        rep.fail(rid, construct, 'hmac inputs agree',
                 f'issue side {a} differs from check side {b}', chk)
    for needle, label in (("csrf_key", 'cookie key'), ("service", 'service'), ("salt", 'salt')):
        if any(needle in x for x in b):
            rep.ok(rid, construct, f'hmac covers {label}')
        else:
            rep.fail(rid, construct, f'hmac covers {label}',
                     f'the signature does not depend on the {label}', chk)
    # the key of the HMAC is a non-empty value read from the request cookie
    from ..pathcond import PathCond, entails as pc_entails

    def cookie_value_checked(fnode: ast.FunctionDef, at_call: ast.AST | None, var: str, depth: int = 0) -> tuple[bool, bool]:
        """(read from flask.request.cookies, known non-empty where it is used / returned)"""
        hits: list = []

        def on_stmt(st, states):
            if isinstance(st, (ast.If, ast.While, ast.For, ast.With, ast.Try)):
                return
            if at_call is not None and any(x_ is at_call for x_ in ast.walk(st)):
                hits.extend(states)
            if at_call is None and isinstance(st, ast.Return) and st.value is not None and norm(st.value) == var:
                hits.extend(states)
        Flow(Disjunctive(PathCond(), cap=256), on_stmt=on_stmt).run(fnode, [PathCond.initial()])
        defs = [n.value for n in ast.walk(fnode) if isinstance(n, (ast.Assign, ast.AnnAssign)) and n.value is not None
                and norm(n.targets[0] if isinstance(n, ast.Assign) else n.target) == var]
        from_cookie = bool(defs) and all('flask.request.cookies' in norm(d) for d in defs)
        nonempty = bool(hits) and all(pc_entails(x[0], ('atom', var)) is True for x in hits)
        if defs and not from_cookie and depth < 2:
            # delegated: csrf_key = cls.get_cookie()
            d = defs[0]
            if len(defs) == 1 and isinstance(d, ast.Call) and isinstance(d.func, ast.Attribute) \
                    and isinstance(d.func.value, ast.Name) and d.func.value.id in ('cls', 'self', 'CsrfProtection'):
                m = find_func(cls, d.func.attr)
                if m is not None:
                    inner = {id(x) for f_ in ast.walk(m) if isinstance(f_, (ast.FunctionDef, ast.Lambda)) and f_ is not m
                             for x in ast.walk(f_)}
                    rets = {norm(r.value) for r in ast.walk(m) if isinstance(r, ast.Return) and r.value is not None
                            and id(r) not in inner}
                    if len(rets) == 1:
                        return cookie_value_checked(m, None, rets.pop(), depth + 1)
        return from_cookie, nonempty
    keyvar = None
    if hnew is not None and len(hnew.args) > 1:
        names = [n_.id for n_ in ast.walk(hnew.args[1]) if isinstance(n_, ast.Name) and n_.id not in ('bytes', 'str')]
        keyvar = names[0] if names else None
    if keyvar is None:
        rep.fail(rid, construct, 'cookie present', 'the HMAC message key is not a local read from the cookie', chk)
    else:
        from_cookie, nonempty = cookie_value_checked(chk, hnew, keyvar)
        if nonempty:
            rep.ok(rid, construct, 'cookie present')
        else:
            rep.fail(rid, construct, 'cookie present',
                     'some accepting path lacks it: an empty cookie value is accepted', chk)
        if from_cookie:
            rep.ok(rid, construct, 'key from cookie')
        else:
            rep.fail(rid, construct, 'key from cookie',
                     f'`{keyvar}` (the HMAC message key) is not read from the request cookie', chk)
    # every character of the submitted token is verified: the text compared with the computed signature is
    # the submitted token without its salt prefix, and the salt is that prefix - no other cut is made on the
    # way (a token cut to a maximum length is accepted with anything appended to it)
    params = [a.arg for a in chk.args.args]
    tok_param = next((a for a in params if 'token' in a), None)
    cmp_names: set[str] = set()
    for n in ast.walk(chk):
        if isinstance(n, ast.Compare) and len(n.ops) == 1 and isinstance(n.ops[0], (ast.Eq, ast.NotEq)) \
                and ('sig' in norm(n) or 'digest' in norm(n)):
            cmp_names |= {x.id for x in ast.walk(n) if isinstance(x, ast.Name)}
        if isinstance(n, ast.Call) and (call_name(n) or '').endswith('compare_digest'):
            cmp_names |= {x.id for a_ in n.args for x in ast.walk(a_) if isinstance(x, ast.Name)}
    if tok_param is None:
        rep.fail(rid, construct, 'whole token verified', 'check() has no token parameter', chk)
    else:
        tainted = {tok_param}
        cuts: list[tuple[str, ast.Subscript, ast.AST]] = []
        from ..core import dfs_order as _dfs2
        pos2 = _dfs2(chk)
        for n in sorted((x for x in ast.walk(chk) if isinstance(x, (ast.Assign, ast.AnnAssign)) and x.value is not None),
                        key=lambda x: pos2.get(id(x), 0)):
            tg = n.targets[0] if isinstance(n, ast.Assign) else n.target
            if not isinstance(tg, ast.Name):
                continue
            if any(isinstance(x, ast.Name) and x.id in tainted for x in ast.walk(n.value)):
                for sub in ast.walk(n.value):
                    if isinstance(sub, ast.Subscript) and isinstance(sub.slice, ast.Slice) \
                            and any(isinstance(x, ast.Name) and x.id in tainted for x in ast.walk(sub.value)):
                        cuts.append((tg.id, sub, n))
                tainted.add(tg.id)
        prefix = [(t, sub) for t, sub, _n in cuts if sub.slice.lower is None and sub.slice.upper is not None and sub.slice.step is None]
        rest = [(t, sub) for t, sub, _n in cuts if sub.slice.lower is not None and sub.slice.upper is None and sub.slice.step is None]
        salt_cut = [x for x in prefix if x[0] not in cmp_names]
        bad_cut = None
        harmless = ''
        for t, sub, n in cuts:
            if (t, sub) in salt_cut:
                continue
            if (t, sub) in rest and salt_cut and norm(sub.slice.lower) == norm(salt_cut[0][1].slice.upper):
                continue
            # a cut to a maximum length beyond the length of every genuine token keeps at least one of the
            # characters appended to a genuine token, so the comparison still fails: harmless
            if sub.slice.lower is None and sub.slice.step is None and sub.slice.upper is not None:
                limit = _const_int(rep, sub.slice.upper)
                genuine = _genuine_token_length(rep, gen_t)
                if limit is not None and genuine is not None and limit > genuine:
                    harmless = f'; `{norm(sub)}` keeps {limit} characters, a genuine token has {genuine}'
                    continue
            bad_cut = (t, sub, n)
            break
        if bad_cut is None and salt_cut and rest:
            rep.ok(rid, construct, 'whole token verified',
                   f'salt = token[:{norm(salt_cut[0][1].slice.upper)}], compared text = token[{norm(rest[0][1].slice.lower)}:], no other cut'
                   + harmless)
        elif bad_cut is not None:
            rep.fail(rid, construct, 'whole token verified',
                     f'`{short(bad_cut[2], 70)}` cuts the submitted token by `{norm(bad_cut[1])}` before it is verified: the '
                     'characters cut away are neither in the salt nor compared with the signature, so a valid token with '
                     'anything appended (or otherwise changed there) is accepted', bad_cut[2])
        else:
            rep.fail(rid, construct, 'whole token verified',
                     'the salt prefix / signature remainder split of the submitted token was not found: unrecognised', chk)
    # the value looked up / recorded as "used" is the decoded token the signature is cut from
    salt_src = None
    for n in ast.walk(chk):
        if isinstance(n, (ast.Assign, ast.AnnAssign)) and n.value is not None \
                and norm(n.targets[0] if isinstance(n, ast.Assign) else n.target) == 'salt' \
                and isinstance(n.value, ast.Subscript) and isinstance(n.value.value, ast.Name):
            salt_src = n.value.value.id
    jtis = []
    for n in ast.walk(chk):
        if isinstance(n, ast.Call) and call_name(n) in ('Token.get_one', 'Token'):
            for k in n.keywords:
                if k.arg == 'jti':
                    jtis.append(norm(k.value))
    decoded_ok = False
    for n in ast.walk(chk):
        if isinstance(n, ast.Assign) and isinstance(n.targets[0], ast.Name) \
                and n.targets[0].id == salt_src and 'unquote' in norm(n.value):
            decoded_ok = True
    if salt_src and len(jtis) >= 2 and all(j == salt_src for j in jtis) and decoded_ok:
        rep.ok(rid, construct, 're-use tracked on the verified token text',
               f'jti={salt_src} (the percent-decoded token) in both lookup and record')
    else:
        rep.fail(rid, construct, 're-use tracked on the verified token text',
                 f'the re-use lookup/record use jti={jtis} while the signature is verified on '
                 f'`{salt_src}` (percent-decoded): another percent-encoding of the same token is '
                 'accepted again', chk)


def issued_vs_checked(rep: Report) -> None:
    issued: dict[str, int] = {}
    checked: dict[str, int] = {}
    for rel in rep.repo.py_files('dashlive/server'):
        for n in ast.walk(rep.repo.tree(rel)):
            if isinstance(n, ast.Call):
                cn = call_name(n) or ''
                if cn.endswith('generate_csrf_token') or cn.endswith('CsrfProtection.generate_token'):
                    if n.args and isinstance(n.args[0], ast.Constant):
                        issued[n.args[0].value] = issued.get(n.args[0].value, 0) + 1
                if cn.endswith('check_csrf') or cn.endswith('csrf_token_required'):
                    a = n.args[0] if n.args else next((k.value for k in n.keywords
                                                       if k.arg == 'service'), None)
                    if isinstance(a, ast.Constant):
                        checked[a.value] = checked.get(a.value, 0) + 1
    for cls_attr in ('CSRF_TOKEN_NAME',):
        for rel in rep.repo.py_files('dashlive/server/requesthandler'):
            for n in ast.walk(rep.repo.tree(rel)):
                if isinstance(n, ast.Assign) and norm(n.targets[0]) == cls_attr \
                        and isinstance(n.value, ast.Constant):
                    checked[n.value.value] = checked.get(n.value.value, 0) + 1
    rep.extra['csrf_services_issued'] = issued
    rep.extra['csrf_services_checked'] = checked
    for svc in sorted(set(issued) - set(checked)):
        rep.fail('R15.5', CSRF + '::services', f'issued-not-checked:{svc}',
                 f"service '{svc}' is issued but never checked (fails closed)")
    for svc in sorted(set(checked) - set(issued)):
        rep.fail('R15.5', CSRF + '::services', f'checked-not-issued:{svc}',
                 f"service '{svc}' is checked but never issued (handler unusable)")


def used_token_records(rep: Report, idx: Index, cg: CallGraph) -> None:
    """R15.7  "a CSRF token is accepted at most once" rests on the rows of models.Token that CsrfProtection.check
    writes for every token it has accepted (R15.4) - they are the only memory of what was used.  Such a row may
    go once the token could not be accepted anyway (its `expires` has passed) or when the process starts (tokens
    of an earlier run are bound to cookies of that run).  Every bulk delete on Token that is not restricted by
    `expires <` is therefore found, with the parameter that switches it on, and every call that can switch it on
    must lie outside the request paths: not in the request handler package, not reachable from a routed view."""
    rid = 'R15.7'
    rel = 'dashlive/server/models/token.py'
    tree = rep.repo.tree(rel)
    cls = need(find_class(tree, 'Token'), f'{rel}::Token')
    wipers: dict[str, tuple[list[str], list[list[str]]]] = {}      # method -> (its parameters, switches of each unrestricted delete)
    n_del = 0
    for m in [x for x in cls.body if isinstance(x, (ast.FunctionDef, ast.AsyncFunctionDef))]:
        params = [a.arg for a in m.args.args if a.arg not in ('self', 'cls')] + [a.arg for a in m.args.kwonlyargs]
        for c in [x for x in ast.walk(m) if isinstance(x, ast.Call)]:
            # delete(cls) / delete(Token) [.where(..)] and <query on cls>.delete()
            is_stmt = isinstance(c.func, ast.Name) and c.func.id == 'delete' and c.args \
                and norm(c.args[0]) in ('cls', 'Token', 'self.__class__')
            is_q = isinstance(c.func, ast.Attribute) and c.func.attr == 'delete' and not c.args \
                and re.search(r'query\((cls|Token)\)', norm(c.func.value))
            if not (is_stmt or is_q):
                continue
            n_del += 1
            # the whole statement expression this delete is part of (delete(cls).where(..))
            top = c
            while isinstance(getattr(top, '_parent', None), (ast.Attribute, ast.Call)):
                top = top._parent
            text = norm(top)
            if re.search(r'\bexpires\s*<', text):
                rep.ok(rid, f'{rel}::Token.{m.name}', f'{short(top, 50)}', 'only rows whose expiry has passed')
                continue
            switches = []
            p_ = getattr(top, '_parent', None)
            while p_ is not None and p_ is not m:
                if isinstance(p_, ast.If):
                    switches += [x.id for x in ast.walk(p_.test) if isinstance(x, ast.Name) and x.id in params]
                p_ = getattr(p_, '_parent', None)
            wipers.setdefault(m.name, (params, []))[1].append(switches)
    if n_del == 0:
        raise AnalysisError('models.Token: no bulk delete found (prune_database vanished?)')
    # request paths: the handler package, and whatever the routed views reach
    reach_q: set[str] = set()
    for r in read_routes(idx):
        if r.cls is None:
            continue
        for _verb, method in verb_methods(idx, r.cls).items():
            reach_q |= set(cg.reachable([method], self_cls=r.cls, skip_how=('by-name',)))
    n_calls = 0
    for q, f in idx.functions.items():
        for c in [x for x in ast.walk(f.node) if isinstance(x, ast.Call) and isinstance(x.func, ast.Attribute)
                  and x.func.attr in wipers]:
            if enclosing_function_of(c) is not f.node:
                continue
            recv = norm(c.func.value)
            if not (recv.split('.')[-1] in ('Token', 'cls') or recv.endswith('models.Token')):
                continue
            params, per_delete = wipers[c.func.attr]
            on = False
            vals = []
            for switches in per_delete:
                this_on = True
                for sw in switches:
                    v = next((k.value for k in c.keywords if k.arg == sw), None)
                    if v is None and sw in params and params.index(sw) < len(c.args):
                        v = c.args[params.index(sw)]
                    txt = f'{sw}={norm(v) if v is not None else "?"}'
                    if txt not in vals:
                        vals.append(txt)
                    if isinstance(v, ast.Constant) and not v.value:
                        this_on = False
                on = on or this_on
            n_calls += 1
            construct = f'{f.rel}::{q.split(".")[-2] + "." if f.cls else ""}{f.node.name}'
            key = f'Token.{c.func.attr}({", ".join(vals)})'
            if not on:
                rep.ok(rid, construct, key, 'the unrestricted delete is switched off')
            elif f.rel.startswith('dashlive/server/requesthandler/') or q in reach_q:
                rep.fail(rid, construct, key,
                         f'`{short(c, 70)}` removes the records of used CSRF tokens that have not expired, on a request path '
                         f'({"request handler package" if f.rel.startswith("dashlive/server/requesthandler/") else "reachable from a routed view"}): '
                         'after this request a token that was already accepted passes CsrfProtection.check again with its '
                         'original cookie - any client can trigger it', c)
            else:
                rep.ok(rid, construct, key, 'outside the request paths (start-up / command line)')
    if n_calls == 0 and wipers:
        rep.ok(rid, f'{rel}::Token', 'unrestricted deletes are never called')


def enclosing_function_of(n: ast.AST):
    p_ = getattr(n, '_parent', None)
    while p_ is not None and not isinstance(p_, (ast.FunctionDef, ast.AsyncFunctionDef, ast.Lambda)):
        p_ = getattr(p_, '_parent', None)
    return p_


def analyse(rep: Report) -> None:
    rep.explanation = (
        'Enumeration of every (route, HTTP verb) pair from routes.py with the handler resolved '
        'along the MRO; normalised decorator stack as guard; persistent-state effects from a '
        'resolved call graph (class-hierarchy analysis, typed locals, proxies); rule: mutating => '
        'guard role >= documented role. Plus must-fact path analysis of the role decorators, of '
        'check-before-store ordering and of CsrfProtection.check. Decides the structural side of '
        'C15 (who may reach a store); run-time role data and browser cookie semantics are not '
        'decided.')
    rep.rule('R15.0', 'role/CSRF decorators enforce their arguments on every path to the view', floor=8)
    rep.rule('R15.1', 'a (route, verb) that can change protected state requires the documented role',
             floor=70)
    rep.rule('R15.2', 'mutating verbs without any CSRF check (not demanded by the property)',
             floor=0, informational=True)
    rep.rule('R15.3', 'no model store precedes the CSRF check in a verb method', floor=8)
    rep.rule('R15.4', 'CsrfProtection.check: re-use refused, token recorded, HMAC over cookie key, '
                      'service and salt, mismatch raises', floor=12)
    rep.rule('R15.5', 'CSRF service names issued vs. checked', floor=0, informational=True)
    rep.rule('R15.6', 'the groups (roles) of an account are written only on behalf of an administrator', floor=2)
    rep.rule('R15.7', 'records of used CSRF tokens are removed only once expired, or outside the request paths', floor=2)
    idx = Index(rep.repo)
    cg = CallGraph(idx)
    check_role_decorators(rep)
    check_routes(rep, idx, cg)
    check_before_mutate(rep, idx, cg)
    check_csrf_protocol(rep)
    issued_vs_checked(rep)
    used_token_records(rep, idx, cg)
    rep.assumptions = [
        'flask MethodView applies `decorators` to every verb; HEAD falls back to get',
        'flask_jwt_extended.jwt_required() admits any valid access token, including the guest '
        'identity handed to anonymous visitors by /api/refresh/access (so it is not a role)',
        'the call graph is may-reach over resolved edges (by-name fallback edges are not used)',
        'policy table: User needs admin (or the verified in-body self guard); every other model '
        'and the blob store need the media group (docs/users.md)',
    ]

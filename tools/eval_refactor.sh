#!/bin/sh
# usage: tools/eval_refactor.sh <name> [notests]  (refactor*.diff in /tmp/wt-out/<name>): behaviour-preserving
# refactorings written by a sub-agent; every check must stay quiet on each of them.  Runs against a
# scratch worktree (DASHLIVE_REPO), never against /repo, so several can run at once.
NAME=$1; OUT=/tmp/wt-out/$NAME
PROPS=$(/venv/bin/python -c "import json;print(' '.join(c['property_id'] for c in json.load(open('/verif/MANIFEST.json'))['checks']))")
for f in $OUT/refactor*.diff; do
  echo "=== $NAME $(basename $f)"
  WT=/tmp/ev/$NAME-$(basename $f .diff); mkdir -p /tmp/ev
  git -C /repo worktree add -q --detach $WT HEAD || exit 2
  if (cd $WT && git apply $f 2>/dev/null); then
    [ "$2" = notests ] || (cd $WT && /venv/bin/python -m pytest -q -p no:cacheprovider --timeout=900 --continue-on-collection-errors 2>&1 | tail -1)
    cd /verif
    for p in $PROPS; do
      out=$(SA_NO_EVIDENCE=1 DASHLIVE_REPO=$WT /venv/bin/python -B -m sa.check $p --tier quick 2>&1); code=$?
      if [ $code -ne 0 ]; then echo "[$p exit=$code]"; echo "$out" | grep -E "VIOLATION|^  R|ANALYSIS-ERROR" | cut -c1-360 | head -6; fi
    done
  else
    echo "PATCH DOES NOT APPLY"
  fi
  git -C /repo worktree remove --force $WT
done
